import logging, itertools, time, sys
logging.disable(logging.CRITICAL)
import numpy as np, sympy as sp, qrules, ampform
from qrules.settings import NumberOfThreads
NumberOfThreads.set(1)
from ampform.helicity.align.axisangle import AxisAngleAlignment
from ampform.helicity.align.dpd import DalitzPlotDecomposition, relabel_edge_ids
from ampform.dynamics.builder import create_relativistic_breit_wigner_with_ff, create_relativistic_breit_wigner, create_analytic_breit_wigner
def closure(m, label):
    t0=time.time()
    e = m.expression
    fs = e.free_symbols
    par = set(m.parameter_defaults); kin = set(m.kinematic_variables)
    probs=[]
    neither = [s for s in fs if s not in par and s not in kin]
    both = [s for s in fs if s in par and s in kin]
    if neither: probs.append(("neither", sorted(map(str,neither))[:5]))
    if both: probs.append(("both", sorted(map(str,both))[:5]))
    if e.atoms(sp.Indexed): probs.append(("indexed", sorted(map(str,e.atoms(sp.Indexed)))[:3]))
    pnames = {f"p{i}" for i in m.reaction_info.final_state}
    for k,v in m.kinematic_variables.items():
        rest = {str(s) for s in v.xreplace(m.parameter_defaults).free_symbols} - pnames
        if rest: probs.append(("kinfree", str(k), sorted(rest)[:5]))
    if probs: print("PROBLEM", label, probs[:4])
    return time.time()-t0
reactions = {}
reactions["jpsi_gpipi_hel"] = qrules.generate_transitions(initial_state=("J/psi(1S)", [-1,1]), final_state=["gamma","pi0","pi0"], allowed_intermediate_particles=["f(0)(980)","f(2)(1270)"], allowed_interaction_types=["strong","EM"], formalism="helicity")
reactions["jpsi_gpipi_can"] = qrules.generate_transitions(initial_state=("J/psi(1S)", [-1,1]), final_state=["gamma","pi0","pi0"], allowed_intermediate_particles=["f(0)(980)"], allowed_interaction_types=["strong","EM"], formalism="canonical-helicity")
reactions["jpsi_ksp"] = qrules.generate_transitions(initial_state=("J/psi(1S)", [-1,1]), final_state=["K0","Sigma+","p~"], allowed_intermediate_particles=["Sigma(1660)","N(1650)"], allowed_interaction_types=["strong"], formalism="helicity")
n=0; tt=0
for rn, r in reactions.items():
    fs_ids = sorted(r.final_state)
    for stable, scalar, hc, al, dyn in itertools.product([None, set(), {fs_ids[0]}, set(fs_ids)], [False,True], [False,True], ["none","aa","dpd1"], [None, create_relativistic_breit_wigner_with_ff, create_analytic_breit_wigner]):
        rr = r
        if al.startswith("dpd"):
            rr = relabel_edge_ids(r)
            stable_ = None if stable is None else {i+1 for i in stable}
        else: stable_ = stable
        try:
            b = ampform.get_builder(rr)
            b.config.stable_final_state_ids = stable_; b.config.scalar_initial_state_mass = scalar; b.config.use_helicity_couplings = hc
            if al=="aa": b.config.spin_alignment = AxisAngleAlignment()
            if al=="dpd1": b.config.spin_alignment = DalitzPlotDecomposition(1)
            if dyn:
                for name in rr.get_intermediate_particles().names: b.dynamics.assign(name, dyn)
            m = b.formulate()
        except Exception as e:
            print("EXC", rn, stable, scalar, hc, al, getattr(dyn,"__self__",None) and "dyn", type(e).__name__, str(e)[:100]); continue
        tt += closure(m, (rn, stable, scalar, hc, al, bool(dyn))); n+=1
print("models", n, "closure time", round(tt,1))
