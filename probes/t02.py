import logging, math, itertools, sys
logging.disable(logging.WARNING)
import numpy as np, sympy as sp, qrules, ampform
from fractions import Fraction
from qrules.settings import NumberOfThreads
NumberOfThreads.set(1)
from sympy.physics.quantum.spin import WignerD
from sympy.physics.quantum.cg import CG
sys.path.insert(0,".")
from t9 import wigner_D
F = lambda x: Fraction(x).limit_denominator(2)
def cg(j1,m1,j2,m2,j,m):
    j1,m1,j2,m2,j,m = map(F,(j1,m1,j2,m2,j,m))
    if m1+m2!=m or j<abs(j1-j2) or j>j1+j2 or abs(m1)>j1 or abs(m2)>j2 or abs(m)>j: return 0.0
    f = lambda x: math.factorial(int(x))
    pre = math.sqrt((2*j+1)*f(j+j1-j2)*f(j-j1+j2)*f(j1+j2-j)/f(j1+j2+j+1))
    pre *= math.sqrt(f(j+m)*f(j-m)*f(j1-m1)*f(j1+m1)*f(j2-m2)*f(j2+m2))
    tot=0
    for k in range(0,100):
        a=[k, j1+j2-j-k, j1-m1-k, j2+m2-k, j-j2+m1+k, j-j1-m2+k]
        if any(x<0 for x in a): continue
        tot += (-1)**k/ math.prod(f(x) for x in a)
    return pre*tot
# --- reference: independent reading of a transition
def attached(top, e):
    edge = top.edges[e]
    if edge.ending_node_id is None: return (e,)
    out=[]
    for c in top.get_edge_ids_outgoing_from_node(edge.ending_node_id): out += attached(top,c)
    return tuple(sorted(out))
def suffix(top, e):
    # documented naming: _<ids of e>^<ids of parent>,<grandparent>... (initial state omitted)
    chain=[]; cur=e
    while True:
        chain.append("".join(map(str,attached(top,cur))))
        on = top.edges[cur].originating_node_id
        par = next(iter(top.get_edge_ids_ingoing_to_node(on)))
        if top.edges[par].originating_node_id is None: break
        cur = par
    return "_"+chain[0] + ("^"+",".join(chain[1:]) if len(chain)>1 else "")
def node_info(t, node):
    top=t.topology
    parent = next(iter(top.get_edge_ids_ingoing_to_node(node)))
    kids = sorted(top.get_edge_ids_outgoing_from_node(node), key=lambda e: attached(top,e))  # helicity child = smaller attached tuple
    return parent, kids
def chain_value(t, angles, canonical):
    val = 1.0
    for node in t.topology.nodes:
        par, (c1,c2) = node_info(t,node)
        J = t.states[par].particle.spin; m = t.states[par].spin_projection
        l1 = t.states[c1].spin_projection; l2 = t.states[c2].spin_projection
        sfx = suffix(t.topology, c1)
        phi, theta = angles["phi"+sfx], angles["theta"+sfx]
        val = val*np.conj(wigner_D(F(J),F(m),F(l1-l2),phi,theta,0.0))
        if canonical:
            L = t.interactions[node].l_magnitude; S = t.interactions[node].s_magnitude
            val = val*cg(L,0,S,l1-l2,J,l1-l2)*cg(t.states[c1].particle.spin,l1,t.states[c2].particle.spin,-l2,S,l1-l2)
    return val
def run(r):
    b = ampform.get_builder(r); m = b.formulate()
    canonical = r.formalism!="helicity"
    angsyms = sorted([s for s in m.kinematic_variables if s.name.startswith(("phi","theta"))], key=str)
    rng = np.random.default_rng(3)
    angv = {s.name: rng.uniform(0.2,2.9) for s in angsyms}
    worst=0; n=0; signs=set()
    for t in r.transitions:
        name = "A_{"+b.naming.generate_amplitude_name(t)+"}"
        expr = m.components[name]
        coeffs = [s for s in expr.free_symbols if s.name.startswith("C_")]
        e = expr.xreplace({c:1 for c in coeffs}).xreplace({s: angv[s.name] for s in angsyms})
        got = complex(e.doit().evalf())
        ref = complex(chain_value(t, angv, canonical))
        n+=1
        if abs(ref)<1e-14:
            worst=max(worst,abs(got)); continue
        ratio = got/ref; signs.add(round(ratio.real,9)); worst=max(worst, abs(abs(ratio)-1)+abs(ratio.imag))
    print(r.formalism, "chains", n, "worst dev", worst, "ratios", signs)
for form in ["helicity","canonical-helicity"]:
    r = qrules.generate_transitions(initial_state=("J/psi(1S)", [-1,1]), final_state=["gamma","pi0","pi0"], allowed_intermediate_particles=["f(0)(980)","f(2)(1270)"], allowed_interaction_types=["strong","EM"], formalism=form)
    run(r)
    r = qrules.generate_transitions(initial_state=("J/psi(1S)", [-1,1]), final_state=["K0","Sigma+","p~"], allowed_intermediate_particles=["Sigma(1750)","N(1650)"], allowed_interaction_types=["strong"], formalism=form)
    run(r)
