import logging
logging.disable(logging.CRITICAL)
import sympy as sp, qrules, ampform
from qrules.settings import NumberOfThreads
NumberOfThreads.set(1)
from ampform.helicity import _perform_combinatorics
r = qrules.generate_transitions(initial_state=("J/psi(1S)", [1]), final_state=[("gamma",[1]),"pi0","pi0"], allowed_intermediate_particles=["f(0)(980)"], allowed_interaction_types=["strong","EM"], formalism="helicity")
print(len(r.transitions))
for t in r.transitions:
    gs = _perform_combinatorics(t)
    print("combinatorics:", len(gs), [ {i:s.particle.name for i,s in g.states.items()} for g in gs], [g.topology == t.topology for g in gs])
m = ampform.get_builder(r).formulate()
for k,v in m.amplitudes.items(): print(k, "=", v)
for k,v in m.components.items(): print(k, "=", v)
# reaction with resonance in gamma pi0
r2 = qrules.generate_transitions(initial_state=("J/psi(1S)", [1]), final_state=[("gamma",[1]),"pi0","pi0"], allowed_intermediate_particles=["omega(782)"], allowed_interaction_types=["strong","EM"], formalism="helicity")
print(len(r2.transitions), {str(sorted((i,(e.originating_node_id,e.ending_node_id)) for i,e in t.topology.edges.items())) for t in r2.transitions})
for t in r2.transitions[:1]:
    gs = _perform_combinatorics(t)
    print("combinatorics:", len(gs), [ {i:s.particle.name for i,s in g.states.items()} for g in gs], [g.topology == t.topology for g in gs])
m2 = ampform.get_builder(r2).formulate()
print(list(m2.amplitudes)[:4], len(m2.components))
for k,v in list(m2.amplitudes.items())[:1]: print(k, "=", v)
print("----")
e = m2.expression
print("undefined:", sorted(str(s) for s in e.free_symbols if s not in m2.parameter_defaults and s not in m2.kinematic_variables))
b = ampform.get_builder(r2); b.adapter.permutate_registered_topologies(); m3 = b.formulate()
print("after permutate undefined:", sorted(str(s) for s in m3.expression.free_symbols if s not in m3.parameter_defaults and s not in m3.kinematic_variables))
