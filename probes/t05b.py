import logging, sys, time
logging.disable(logging.CRITICAL)
import numpy as np, sympy as sp, qrules, ampform
from fractions import Fraction
from qrules.settings import NumberOfThreads
NumberOfThreads.set(1)
from sympy.physics.quantum.spin import WignerD
from ampform.helicity.align.axisangle import AxisAngleAlignment
from ampform.helicity.align.dpd import DalitzPlotDecomposition, relabel_edge_ids
from ampform.sympy import PoolSum
sys.path.insert(0,"."); from t9 import wigner_D
exec(open("t11.py").read().split("def phsp3")[0].split("def skeleton_fn")[1].join(["def skeleton_fn",""]) if False else "")
src = open("t11.py").read()
exec("def skeleton_fn" + src.split("def skeleton_fn")[1].split("spins = tuple")[0])
r = qrules.generate_transitions(initial_state=("J/psi(1S)", [-1,0,1]), final_state=["gamma","pi0","pi0"], allowed_intermediate_particles=["f(2)(1270)"], allowed_interaction_types=["strong","EM"], formalism="helicity")
print(len(r.transitions), sorted({float(t.states[0].spin_projection) for t in r.transitions}))
rng = np.random.default_rng(0)
ev = phsp3(3.0969,[0.0,0.135,0.135], 5, rng)
res={}
for name, al in [("none",None),("aa",AxisAngleAlignment()),("dpd1",DalitzPlotDecomposition(1)),("dpd2",DalitzPlotDecomposition(2))]:
    rr = relabel_edge_ids(r) if name.startswith("dpd") else r
    b = ampform.get_builder(rr)
    if al: b.config.spin_alignment = al
    m = b.formulate()
    pools = set()
    for node in sp.preorder_traversal(m.intensity):
        if isinstance(node, PoolSum): pools |= {(str(s), tuple(v)) for s,v in node.indices}
    e = m.expression
    pars = {k: complex(np.cos(i*2.4)+0.3, np.sin(i*2.4)) for i,k in enumerate(m.parameter_defaults)}
    run, free, nW = skeleton_fn(e.xreplace(pars))
    kin = {k: m.kinematic_variables[k].doit() for k in free}
    ps = sorted({s for v in kin.values() for s in v.free_symbols}, key=str)
    kf = sp.lambdify(ps, [kin[k] for k in free], "numpy", cse=True)
    I = run(dict(zip(free, kf(*ev))))
    res[name]=np.real(I); print(name, np.round(np.real(I),6), sorted(pools)[:6])
