import logging, time, itertools
logging.disable(logging.CRITICAL)
import numpy as np, sympy as sp
from qrules.topology import create_isobar_topologies
from ampform.kinematics.lorentz import create_four_momentum_symbols, compute_invariant_masses
from ampform.kinematics.angles import compute_helicity_angles
# ---------- independent reference
def attached(top, e):
    edge = top.edges[e]
    if edge.ending_node_id is None: return (e,)
    out=()
    for c in top.get_edge_ids_outgoing_from_node(edge.ending_node_id): out += attached(top,c)
    return tuple(sorted(out))
def suffix(top, e):
    chain=[]; cur=e
    while True:
        chain.append("".join(map(str,attached(top,cur))))
        par = next(iter(top.get_edge_ids_ingoing_to_node(top.edges[cur].originating_node_id)))
        if top.edges[par].originating_node_id is None: break
        cur = par
    return "_"+chain[0] + ("^"+",".join(chain[1:]) if len(chain)>1 else "")
def Rz(a): c,s=np.cos(a),np.sin(a); M=np.eye(4); M[1,1]=c; M[1,2]=-s; M[2,1]=s; M[2,2]=c; return M
def Ry(a): c,s=np.cos(a),np.sin(a); M=np.eye(4); M[1,1]=c; M[1,3]=s; M[3,1]=-s; M[3,3]=c; return M
def Bz(beta): g=1/np.sqrt(1-beta**2); M=np.eye(4); M[0,0]=g; M[3,3]=g; M[0,3]=-g*beta; M[3,0]=-g*beta; return M
def angles(p): return np.arctan2(p[2],p[1]), np.arccos(p[3]/np.linalg.norm(p[1:]))
def ref_bindings(top, P):
    """returns list of (name, value) bindings; P: dict final id -> 4-vector (one event)"""
    out=[]
    def rec(node, mom):   # mom: momenta of attached final states in the rest frame of the node's parent edge
        kids = sorted(top.get_edge_ids_outgoing_from_node(node), key=lambda e: attached(top,e))
        hel = kids[0]   # helicity-state child
        decaying = [k for k in kids if top.edges[k].ending_node_id is not None]
        if not decaying:
            phi,theta = angles(mom[hel]); out.append(("phi"+suffix(top,hel),phi)); out.append(("theta"+suffix(top,hel),theta))
        for k in decaying:
            ids = attached(top,k); psum = sum(mom[i] for i in ids)
            phi,theta = angles(psum)
            out.append(("phi"+suffix(top,hel),phi)); out.append(("theta"+suffix(top,hel),theta))
            beta = np.linalg.norm(psum[1:])/psum[0]
            L = Bz(beta)@Ry(-theta)@Rz(-phi)
            rec(top.edges[k].ending_node_id, {i: L@mom[i] for i in ids})
    root = next(iter(top.incoming_edge_ids))
    rec(top.edges[root].ending_node_id, P)
    return out
def random_event(n, rng):
    # n final-state particles with masses, total momentum zero (not needed strictly) 
    m = rng.uniform(0.1,1.0,n); m[0]=0.0
    p3 = rng.normal(size=(n,3)); p3 -= p3.mean(0)
    return {i: np.array([np.sqrt(m[i]**2+p3[i]@p3[i]), *p3[i]]) for i in range(n)}
rng = np.random.default_rng(5)
for n in (3,4,5):
    tops = create_isobar_topologies(n); worst=0; nb=0; multi=0
    t0=time.time()
    for top in tops:
        for perm in itertools.islice(itertools.permutations(range(n)), 0, 6 if n==5 else None):
            t2 = top.relabel_edges(dict(zip(range(n), perm))) if perm!=tuple(range(n)) else top
            mom = create_four_momentum_symbols(t2)
            d = compute_helicity_angles(mom, t2)
            syms = [mom[i] for i in sorted(mom)]
            f = sp.lambdify(syms, [v.doit() for v in d.values()], "numpy", cse=True)
            evs = [random_event(n, rng) for _ in range(3)]
            arr = [np.array([ev[i] for ev in evs]) for i in sorted(mom)]
            got = dict(zip([k.name for k in d], f(*arr)))
            for j,ev in enumerate(evs):
                b = ref_bindings(t2, ev)
                names = {}
                for name,val in b: names.setdefault(name, []).append(val)
                assert set(names)==set(got), (set(names)^set(got))
                for name, vals in names.items():
                    if len(vals)>1 and abs(vals[0]-vals[1])>1e-9: multi+=1
                    err = min(abs(np.angle(np.exp(1j*(got[name][j]-v)))) for v in vals)
                    worst=max(worst,err); nb+=1
    print(n, "topologies", len(tops), "bindings checked", nb, "worst", worst, "ambiguous bindings", multi, "t=%.1f"%(time.time()-t0))
