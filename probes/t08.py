import logging
logging.disable(logging.WARNING)
import numpy as np, sympy as sp
from ampform.kinematics.lorentz import *
from ampform.sympy._array_expressions import ArrayMultiplication, MatrixMultiplication
p = create_four_momentum_symbol(0); a,b = sp.symbols("a b")
eta = np.diag([1,-1,-1,-1.])
def mom(m, bg, d): d=np.array(d,float)/np.linalg.norm(d); P=m*bg*d; return np.array([np.sqrt(m*m+P@P),*P])
dirs = [(1,0,0),(0,1,0),(0,0,1),(0,0,-1),(1,1,0),(1,1,1),(0.3,-0.5,0.8)]
ps = np.array([mom(m,bg,d) for m in (0.1,1,10) for bg in (1e-3,0.1,1,10,1e3) for d in dirs])
for cse in (True,):
    fB = sp.lambdify(p, BoostMatrix(p).doit(), "numpy", cse=cse)
    B = fB(ps)
    print("B shape", B.shape)
    g2 = (ps[:,0]**2/(ps[:,0]**2-(ps[:,1:]**2).sum(1)))
    errL = np.abs(np.einsum("nji,jk,nkl->nil",B,eta,B)-eta).max(axis=(1,2))/g2
    print("cse",cse,"LtEtaL rel-to-gamma^2", errL.max(), "det", np.abs(np.linalg.det(B)-1).max(), "L00>=1", (B[:,0,0]>=1).all())
    rest = np.einsum("nij,nj->ni",B,ps); m = np.sqrt(ps[:,0]**2-(ps[:,1:]**2).sum(1))
    print("   rest-frame", (np.abs(rest[:,0]-m)/m).max(), (np.abs(rest[:,1:]).max(1)/ (m*np.sqrt(g2))).max())
    fBn = sp.lambdify(p, BoostMatrix(NegativeMomentum(p)).doit(), "numpy", cse=cse)
    print("   inverse", (np.abs(np.einsum("nij,njk->nik",fBn(ps),B)-np.eye(4)).max(axis=(1,2))/g2).max())
    fX = sp.lambdify(p, BoostMatrix(p).as_explicit().doit(), "numpy", cse=cse)
    Bx = np.array([np.array(fX(q[None,:]),float).reshape(4,4) for q in ps])
    print("   explicit vs code", (np.abs(Bx-B).max(axis=(1,2))/np.sqrt(g2)).max())
fz = sp.lambdify((b,p), BoostZMatrix(b, ArraySize(p)).doit(), "numpy")
pz = np.array([mom(1,bg,(0,0,sgn)) for bg in (1e-3,1,1e3) for sgn in (1,-1)])
print("Bz vs B", np.abs(fz(pz[:,3]/pz[:,0], pz) - sp.lambdify(p, BoostMatrix(p).doit(),"numpy",cse=True)(pz)).max())
fRy = sp.lambdify((a,p), RotationYMatrix(a, ArraySize(p)).doit(), "numpy"); fRz = sp.lambdify((a,p), RotationZMatrix(a, ArraySize(p)).doit(), "numpy")
A = np.array([0.3]*len(pz)); Bb = np.array([1.1]*len(pz))
print("compose", np.abs(np.einsum("nij,njk->nik", fRy(A,pz), fRy(Bb,pz)) - fRy(A+Bb,pz)).max(), np.abs(np.einsum("nij,njk->nik", fRz(A,pz), fRz(Bb,pz)) - fRz(A+Bb,pz)).max())
print("Ry(0.3) acting on z-hat:", fRy(np.array([0.3]),pz[:1])[0]@np.array([0,0,0,1.]), " Rz(0.3) on x-hat:", fRz(np.array([0.3]),pz[:1])[0]@np.array([0,1.,0,0]))
f3 = sp.lambdify((a,b,p), ArrayMultiplication(RotationZMatrix(a,ArraySize(p)), RotationYMatrix(b,ArraySize(p)), p).doit(), "numpy")
print("chain3", np.abs(f3(A,Bb,pz) - np.einsum("nij,njk,nk->ni", fRz(A,pz), fRy(Bb,pz), pz)).max())
