import logging
logging.disable(logging.WARNING)
import numpy as np, sympy as sp, inspect
from ampform.kinematics.lorentz import *
p = create_four_momentum_symbol(0)
ps = np.array([[2.0,0.3,0.4,0.5],[5,1,2,3.]])
for cse in (True, False):
    for mods in (None, "numpy"):
        try:
            f = sp.lambdify(p, BoostMatrix(p).doit(), mods, cse=cse) if mods else sp.lambdify(p, BoostMatrix(p).doit(), cse=cse)
            print(cse, mods, "ok", f(ps).shape)
        except Exception as e:
            print(cse, mods, "EXC", type(e).__name__, e)
f = sp.lambdify(p, BoostMatrix(p).doit(), cse=False)
print(inspect.getsource(f)[:600])
