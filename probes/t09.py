import logging, time, itertools
logging.disable(logging.WARNING)
import numpy as np, sympy as sp
from ampform.dynamics.kmatrix import *
from ampform.dynamics import PhaseSpaceFactor, PhaseSpaceFactorAbs, PhaseSpaceFactorComplex
s = sp.Symbol("s", nonnegative=True)
m=sp.IndexedBase("m", nonnegative=True); G=sp.IndexedBase("Gamma", nonnegative=True); g=sp.IndexedBase("gamma", nonnegative=True)
ma=sp.IndexedBase("m_a", nonnegative=True); mb=sp.IndexedBase("m_b", nonnegative=True)
def vals(nc, npole):
    v = {}
    for R in range(1,npole+1):
        v[m[R]] = 1.0+0.37*R
        for i in range(nc):
            v[G[R,i]] = 0.1+0.07*R+0.03*i; v[g[R,i]] = 0.6+0.2*i-0.1*R
    for i in range(nc):
        v[ma[i]] = 0.14+0.1*i; v[mb[i]] = 0.14+0.25*i
    return v
for cls,kw in [(NonRelativisticKMatrix,{}),(RelativisticKMatrix,dict(angular_momentum=1,meson_radius=1.5)),(RelativisticKMatrix,dict(angular_momentum=0,phsp_factor=PhaseSpaceFactorComplex)),(RelativisticKMatrix,dict(angular_momentum=2,phsp_factor=PhaseSpaceFactorAbs))]:
    for nc,npole in [(1,1),(2,2),(2,3)]:
        t0=time.time()
        T = cls.formulate(n_channels=nc, n_poles=npole, **kw).doit()
        v = vals(nc,npole)
        syms = sorted(T.free_symbols, key=str)
        Tn_expr = T.xreplace({k:val for k,val in v.items()})
        f = sp.lambdify(s, Tn_expr, "numpy")
        worst_u = worst_s = 0
        for sv in [1.3,1.9,2.6,3.3,5.0,40.0]:
            Tn = np.array(f(sv+0j), complex).reshape(nc,nc)
            S = np.eye(nc)+2j*Tn
            worst_u = max(worst_u, np.abs(S.conj().T@S-np.eye(nc)).max()); worst_s=max(worst_s, np.abs(Tn-Tn.T).max())
        print(cls.__name__, kw.get("phsp_factor",PhaseSpaceFactor).__name__, nc, npole, "unit %.1e sym %.1e t=%.1f"%(worst_u,worst_s,time.time()-t0))
