import time, logging
logging.disable(logging.WARNING)
t0=time.time()
import qrules, ampform, sympy as sp
print("import", time.time()-t0)
t0=time.time()
r = qrules.generate_transitions(
    initial_state=("eta(c)(1S)", [0]),
    final_state=["Lambda", "Lambda~"],
    formalism="helicity",
)
print("gen", time.time()-t0, len(r.transitions))
for t in r.transitions:
    print({i:(s.particle.name,s.spin_projection) for i,s in t.states.items()}, t.interactions)
b = ampform.get_builder(r)
m = b.formulate()
print(m.intensity)
print(m.amplitudes)
expr = m.expression
print(expr.free_symbols)
print(set(m.parameter_defaults), set(m.kinematic_variables))
print([a for a in expr.atoms(sp.Indexed)])
