import logging, time
logging.disable(logging.WARNING)
import sympy as sp
from ampform.dynamics.kmatrix import RelativisticPVector, RelativisticKMatrix, NonRelativisticKMatrix, NonRelativisticPVector
from ampform.dynamics import PhaseSpaceFactor, PhaseSpaceFactorSWave, PhaseSpaceFactorComplex, EnergyDependentWidth
t0=time.time()
F = RelativisticPVector.formulate(n_channels=1, n_poles=1, phsp_factor=PhaseSpaceFactorSWave)
print(time.time()-t0)
print({type(a).__name__ for a in F[0].atoms(PhaseSpaceFactor, PhaseSpaceFactorSWave)})
print({a.phsp_factor.__name__ for a in F[0].atoms(EnergyDependentWidth)})
for nc in [1,2,3]:
    for npole in [1,2,3]:
        t0=time.time()
        T = RelativisticKMatrix.formulate(n_channels=nc, n_poles=npole)
        t1=time.time()-t0
        t0=time.time()
        Td = T.doit()
        print(nc,npole,"formulate",round(t1,2),"doit",round(time.time()-t0,2))
