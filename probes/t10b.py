import logging
logging.disable(logging.WARNING)
import sympy as sp, numpy as np
from ampform.dynamics.kmatrix import *
from ampform.dynamics import relativistic_breit_wigner, relativistic_breit_wigner_with_ff, PhaseSpaceFactor
s = sp.Symbol("s", nonnegative=True)
m=sp.IndexedBase("m", nonnegative=True); G=sp.IndexedBase("Gamma", nonnegative=True); g=sp.IndexedBase("gamma", nonnegative=True)
ma=sp.IndexedBase("m_a", nonnegative=True); mb=sp.IndexedBase("m_b", nonnegative=True); beta=sp.IndexedBase("beta", nonnegative=True)
vals = {s: 1.7, m[1]: 1.2, G[1,0]: 0.3, g[1,0]: 1, ma[0]:0.3, mb[0]:0.4, beta[1]:1}
def ev(e): return complex(e.doit().xreplace(vals).doit().evalf())
for L in [0,1,2]:
    bw = relativistic_breit_wigner(s, m[1], G[1,0]); bwff = relativistic_breit_wigner_with_ff(s, m[1], G[1,0], ma[0], mb[0], L, 1)
    print(L, "NRK", ev(NonRelativisticKMatrix.formulate(1,1)[0,0]), "bw", ev(bw))
    print(L, "NRP", ev(NonRelativisticPVector.formulate(1,1)[0]))
    print(L, "RK ", ev(RelativisticKMatrix.formulate(1,1,angular_momentum=L)[0,0]), "RKhat", ev(RelativisticKMatrix.formulate(1,1,angular_momentum=L,return_t_hat=True)[0,0]))
    print(L, "RP ", ev(RelativisticPVector.formulate(1,1,angular_momentum=L)[0]), "RPhat", ev(RelativisticPVector.formulate(1,1,angular_momentum=L,return_f_hat=True)[0]), "bwff", ev(bwff), "rho", ev(PhaseSpaceFactor(s,ma[0],mb[0])))
