import logging, time, itertools, math, sys
logging.disable(logging.WARNING)
import sympy as sp, numpy as np
import qrules, ampform
from fractions import Fraction
from qrules.particle import Particle, Parity
from qrules.quantum_numbers import InteractionProperties
from qrules.topology import create_isobar_topologies, FrozenTransition
from qrules.transition import ReactionInfo, State
from sympy.physics.quantum.spin import WignerD
from sympy.physics.quantum.cg import CG
from ampform.helicity.align.axisangle import AxisAngleAlignment
from ampform.helicity.align.dpd import DalitzPlotDecomposition, relabel_edge_ids
sys.path.insert(0,'.')
from t9 import wigner_D
def P(name, spin, mass, pid, parity=+1):
    return Particle(name=name, pid=pid, spin=spin, mass=mass, width=0.1, parity=Parity(parity), latex=name)
def srange(s):
    s = Fraction(s).limit_denominator(2); n=int(2*s)+1
    return [float(-s+k) for k in range(n)]
def make(JA,sB,sC,sD,sR, masses=(3.0,0.9,0.5,0.14,1.2)):
    A = P("A", JA, masses[0], 901); B=P("B",sB,masses[1],902); C=P("C",sC,masses[2],903); D=P("D",sD,masses[3],904); R=P("R",sR,masses[4],905)
    top = create_isobar_topologies(3)[0]
    trs=[]
    for mA,l0,lR,l1,l2 in itertools.product(srange(JA), srange(sB), srange(sR), srange(sC), srange(sD)):
        if abs(lR-l0)>JA or abs(l1-l2)>sR: continue
        states = {-1: State(A,mA), 0: State(B,l0), 1: State(C,l1), 2: State(D,l2), 3: State(R,lR)}
        trs.append(FrozenTransition(top, states, {0: InteractionProperties(), 1: InteractionProperties()}))
    return ReactionInfo(trs, formalism="helicity")
def skeleton_fn(expr):
    atoms = sorted(expr.atoms(WignerD), key=str)
    dm = {a: sp.Dummy(f"W{i}") for i,a in enumerate(atoms)}
    sk = expr.xreplace(dm).doit()   # CG etc.
    free = sorted((sk.free_symbols - set(dm.values())) | expr.free_symbols, key=str)
    f = sp.lambdify([*free, *dm.values()], sk, "numpy", cse=True)
    # angle arg lambdas
    argf = [sp.lambdify(free, [a.args[3],a.args[4],a.args[5]], "numpy") for a in atoms]
    def run(vals):
        v = [vals[s] for s in free]
        ws = []
        for a,af in zip(atoms,argf):
            al,be,ga = af(*v)
            j,m,mp = [Fraction(int(2*x),2) for x in a.args[:3]]
            ws.append(wigner_D(j,m,mp,np.asarray(al,float),np.asarray(be,float),np.asarray(ga,float)))
        return f(*v,*ws)
    return run, free, len(atoms)
def phsp3(M, m, n, rng):
    out=[]
    def two_body(M, ma, mb):
        p = np.sqrt(max((M**2-(ma+mb)**2)*(M**2-(ma-mb)**2),0))/(2*M)
        ct = rng.uniform(-1,1); ph = rng.uniform(-np.pi,np.pi); st=np.sqrt(1-ct**2)
        v = p*np.array([st*np.cos(ph), st*np.sin(ph), ct])
        return np.array([np.sqrt(ma**2+p**2),*v]), np.array([np.sqrt(mb**2+p**2),*(-v)])
    def boost(q, P):
        Mx = np.sqrt(P[0]**2-P[1:]@P[1:]); b = P[1:]/P[0]; g = P[0]/Mx
        bq = b@q[1:]; b2=b@b
        return np.array([g*(q[0]+bq), *(q[1:] + ((g-1)*bq/b2 + g*q[0])*b)])
    for _ in range(n):
        m12 = rng.uniform(m[1]+m[2], M-m[0])
        p0,p12 = two_body(M,m[0],m12); q1,q2 = two_body(m12,m[1],m[2])
        out.append((p0, boost(q1,p12), boost(q2,p12)))
    return [np.array([o[i] for o in out]) for i in range(3)]
spins = tuple(float(x) for x in sys.argv[1:6])
r = make(*spins)
print("transitions", len(r.transitions))
rng = np.random.default_rng(0)
ev = phsp3(3.0,[0.9,0.5,0.14], 6, rng)
res={}
for name, al in [("none",None),("aa",AxisAngleAlignment()),("dpd1",DalitzPlotDecomposition(1)),("dpd2",DalitzPlotDecomposition(2)),("dpd3",DalitzPlotDecomposition(3))]:
    t0=time.time()
    b = ampform.get_builder(relabel_edge_ids(r) if name.startswith('dpd') else r)
    if al: b.config.spin_alignment = al
    m = b.formulate(); t1=time.time()
    e = m.expression; t2=time.time()
    pars = {k: complex(np.cos(i*2.4)+0.3, np.sin(i*2.4)) for i,k in enumerate(m.parameter_defaults)}
    run, free, nW = skeleton_fn(e.xreplace(pars)); t3=time.time()
    kin = {k: m.kinematic_variables[k].doit() for k in free}
    ps = sorted({s for v in kin.values() for s in v.free_symbols}, key=str)
    kf = sp.lambdify(ps, [kin[k] for k in free], "numpy", cse=True); t4=time.time()
    kv = kf(*ev)
    I = run(dict(zip(free,kv))); t5=time.time()
    res[name]=np.real(I)
    print(name, "formulate %.2f expr %.2f skel %.2f(nW=%d) kin %.2f eval %.2f"%(t1-t0,t2-t1,t3-t2,nW,t4-t3,t5-t4), np.max(np.abs(np.imag(I))))
for k,v in res.items(): print(k, v)
