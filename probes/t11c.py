import logging
logging.disable(logging.WARNING)
import numpy as np, sympy as sp
from ampform.dynamics.phasespace import *
from ampform.dynamics import EnergyDependentWidth, BlattWeisskopfSquared, FormFactor
from scipy.special import spherical_jn, spherical_yn
s,m1,m2 = sp.symbols("s m1 m2", real=True)
cls = [PhaseSpaceFactor, PhaseSpaceFactorAbs, PhaseSpaceFactorComplex, PhaseSpaceFactorSWave, EqualMassPhaseSpaceFactor]
fs = {c.__name__: sp.lambdify((s,m1,m2), c(s,m1,m2).doit(), "numpy") for c in cls}
q2f = sp.lambdify((s,m1,m2), BreakupMomentumSquared(s,m1,m2).doit(), "numpy")
def show(label, sv, a, b):
    sv = np.asarray(sv, float)
    print(label, "s=",sv)
    for n,f in fs.items():
        with np.errstate(all="ignore"):
            try: print("   %-28s"%n, np.round(f(sv+0j if n in ("PhaseSpaceFactor",) else sv, a, b),6))
            except Exception as e: print("   ", n, "EXC", e)
a,b = 0.3, 0.5
thr, pthr = (a+b)**2, (a-b)**2
show("above", [thr*1.5, thr*10, 1e6*thr], a, b)
print("   2q/sqrt(s)", np.round(2*np.sqrt(q2f(np.array([thr*1.5, thr*10,1e6*thr]),a,b))/np.sqrt(np.array([thr*1.5,thr*10,1e6*thr])),6))
show("between", [pthr*1.5, (pthr+thr)/2, thr*0.9], a, b)
show("below pthr / negative", [pthr*0.5, -1.0], a, b)
show("equal masses", [-1.0, 0.1, 0.3, 4*0.09*0.999999, 4*0.09*1.000001, 1.0, 50.0], 0.3, 0.3)
# BW squared
z = sp.Symbol("z", positive=True); L = sp.Symbol("L", integer=True, nonnegative=True)
for ell in [0,1,2,3,5,8,10]:
    fast = sp.lambdify(z, BlattWeisskopfSquared(z, ell).doit(), "numpy")
    slow_expr = BlattWeisskopfSquared(z, L).doit().subs(L, ell).doit()
    slow = sp.lambdify(z, slow_expr, "numpy")
    def ref(zz):
        x = np.sqrt(zz); h = lambda x: spherical_jn(ell,x)+1j*spherical_yn(ell,x)
        return abs(h(1.0))**2/(abs(h(x))**2*zz)
    zs = np.array([1e-6,1e-4,0.5,1.0,3.0,1e3,1e6])
    print(ell, "fast-ref", np.max(np.abs(fast(zs)/ref(zs)-1)), "slow-ref", np.max(np.abs(np.real(slow(zs+0j))/ref(zs)-1)), "B(1)=",fast(1.0), "z^-L ratio", fast(1e-6)/1e-6**ell/(fast(1e-4)/1e-4**ell))
# width normalisation
s_,m0,g0,ma,mb,d = sp.symbols("s m0 Gamma0 m_a m_b d", positive=True)
for c in cls:
    for ell in [0,1,2]:
        w = EnergyDependentWidth(s_, m0, g0, ma, mb, ell, d, phsp_factor=c).doit()
        v = w.xreplace({s_: 1.2**2, m0:1.2, g0:0.15, ma:0.3, mb:0.5, d:1.3})
        print(c.__name__, ell, complex(v.evalf()))
