import logging
logging.disable(logging.WARNING)
import numpy as np, sympy as sp
from ampform.dynamics.phasespace import *
s,m1,m2 = sp.symbols("s m1 m2", real=True)
for c in [PhaseSpaceFactorSWave, EqualMassPhaseSpaceFactor, PhaseSpaceFactorAbs, PhaseSpaceFactorComplex]:
    f = sp.lambdify((s,m1,m2), c(s,m1,m2).doit(), "numpy")
    sv = np.array([-100.0,-1.0,-0.01, 0.01, 0.2])
    with np.errstate(all="ignore"):
        print(c.__name__, "complex-in:", np.round(f(sv+0j,0.3,0.3),9))
    # exact sympy evalf
    print("      evalf:", [complex(c(x,sp.Rational(3,10),sp.Rational(3,10)).doit().evalf()) for x in (-100,-1,sp.Rational(-1,100))])
