import logging, json, time, os
logging.disable(logging.WARNING)
import qrules, qrules.io as qio
from qrules.settings import NumberOfThreads
NumberOfThreads.set(1)
r = qrules.generate_transitions(initial_state=("J/psi(1S)", [-1,1]), final_state=["gamma","pi0","pi0"], allowed_intermediate_particles=["f(0)(980)"], allowed_interaction_types=["strong","EM"], formalism="canonical-helicity")
qio.write(r, "r.json")
print(os.path.getsize("r.json"), len(r.transitions))
r2 = qio.load("r.json")
print(r2 == r, hash(r2)==hash(r))
import pickle
print(pickle.loads(pickle.dumps(r)) == r, len(pickle.dumps(r)))
