import logging, time
logging.disable(logging.WARNING)
import sympy as sp, qrules, ampform
from qrules.settings import NumberOfThreads
NumberOfThreads.set(1)
from ampform.dynamics.builder import TwoBodyKinematicVariableSet
r = qrules.generate_transitions(initial_state=("J/psi(1S)", [-1,1]), final_state=["gamma","pi0","pi0"], allowed_intermediate_particles=["f(0)(980)","f(2)(1270)"], allowed_interaction_types=["strong","EM"], formalism="canonical-helicity")
def spy(tag):
    F = sp.Function(f"SPY{tag}")
    def builder(resonance, v):
        L = -1 if v.angular_momentum is None else v.angular_momentum
        return F(sp.Symbol(resonance.name), v.incoming_state_mass, v.outgoing_state_mass1, v.outgoing_state_mass2, L, v.helicity_phi, v.helicity_theta), {sp.Symbol(f"par{tag}_{resonance.name}"): resonance.mass}
    return builder
b = ampform.get_builder(r)
b.dynamics.assign("f(2)(1270)", spy(1))
m = b.formulate()
seen=set()
for k,v in m.components.items():
    if k.startswith("A_"):
        for a in v.atoms(sp.Function):
            if str(a.func).startswith("SPY"): seen.add(a)
for a in sorted(seen,key=str): print(a)
print(len(b.dynamics), [ (d.parent.particle.name, d.parent.spin_projection, [c.particle.name for c in d.children], d.interaction.l_magnitude) for d in list(b.dynamics)[:4]])
m2 = m.rename_symbols({"m_12":"M", "par1_f(2)(1270)": "mf2"})
print([str(s) for s in m2.kinematic_variables][:6], "par" , [str(p) for p in m2.parameter_defaults][-3:])
