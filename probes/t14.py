import logging, pkgutil, importlib, inspect, dataclasses
logging.disable(logging.WARNING)
import sympy as sp, ampform
from ampform.sympy._decorator import _is_sympify
seen = {}
for mi in pkgutil.walk_packages(ampform.__path__, "ampform."):
    try: mod = importlib.import_module(mi.name)
    except Exception as e: print("skip", mi.name, e); continue
    for n, o in vars(mod).items():
        if inspect.isclass(o) and issubclass(o, sp.Basic) and o.__module__.startswith("ampform"):
            seen[o] = mod.__name__
for c, m in sorted(seen.items(), key=lambda kv: (kv[0].__module__, kv[0].__name__)):
    if dataclasses.is_dataclass(c):
        fs = [(f.name, "S" if _is_sympify(f) else "N", None if f.default is dataclasses.MISSING else f.default) for f in dataclasses.fields(c)]
        print("UNEVAL", c.__module__, c.__name__, fs, "doit" if "doit" in vars(c) else "", "evaluate" if hasattr(c,"evaluate") else "")
    else:
        print("PLAIN ", c.__module__, c.__name__)
