import logging, io, os, pickle, threading, pathlib
logging.disable(logging.WARNING)
import sympy as sp
import ampform.sympy as asp
from ampform.dynamics import EnergyDependentWidth, PhaseSpaceFactor, PhaseSpaceFactorSWave
# in-memory FS + trace of I/O points, no source edits: inject module-level `open`, pass a Path subclass
FS = {}
trace = []
class MemFile(io.BytesIO):
    def __init__(self, name, mode):
        self.name_, self.mode_ = name, mode
        if "r" in mode:
            trace.append(("open_r", name)); super().__init__(bytes(FS[name]))
        else:
            trace.append(("open_w_truncate", name)); FS[name] = bytearray(); super().__init__()
    def write(self, b):
        trace.append(("write", self.name_, len(b))); FS[self.name_] += bytes(b); return len(b)
    def close(self):
        trace.append(("close", self.name_)); super().close()
def fake_open(path, mode="r", *a, **k): return MemFile(str(path), mode)
class FakePath(type(pathlib.Path())):
    def mkdir(self, *a, **k): trace.append(("mkdir",))
    def exists(self): trace.append(("exists", str(self), str(self) in FS)); return str(self) in FS
asp.open = fake_open      # module-global shadows builtins.open for perform_cached_doit only
s,m1,m2 = sp.symbols("s m1 m2")
w1 = EnergyDependentWidth(s, m1, m2, m1, m2, 0, 1, phsp_factor=PhaseSpaceFactor)
os.environ.pop("PYTHONHASHSEED", None)
r = asp.perform_cached_doit(w1, FakePath("/virtual/cache"))
print(trace); print({k: len(v) for k,v in FS.items()})
trace.clear()
r2 = asp.perform_cached_doit(w1, FakePath("/virtual/cache")); print(trace, r2 == w1.doit())
# torn write: every prefix
name = next(iter(FS)); full = bytes(FS[name]); outcomes = {}
for k in range(len(full)+1):
    FS[name] = bytearray(full[:k])
    try:
        v = asp.perform_cached_doit(w1, FakePath("/virtual/cache")); o = "ok" if v == w1.doit() else "WRONG"
    except Exception as e: o = type(e).__name__
    outcomes[o] = outcomes.get(o,0)+1
print(len(full), outcomes)
