import logging, os, sys, threading, tempfile, shutil, time, itertools
logging.disable(logging.CRITICAL)
import sympy as sp
import ampform.sympy as asp
from ampform.dynamics import EnergyDependentWidth, PhaseSpaceFactor, PhaseSpaceFactorSWave
os.environ.pop("PYTHONHASHSEED", None)
SRC = os.path.dirname(asp.__file__)
class Sched:
    """baton scheduler: each traced line in ampform/sympy is a scheduling point"""
    def __init__(self, bodies, choices):
        self.bodies = bodies; self.choices = list(choices); self.n = len(bodies)
        self.sem = [threading.Semaphore(0) for _ in bodies]; self.main = threading.Semaphore(0)
        self.done = [False]*self.n; self.results=[None]*self.n; self.points=[]; self.trace=[]
        self.started=[False]*self.n
    def _tracer(self, tid):
        def local(frame, event, arg):
            if event=="line":
                self.trace.append((tid, os.path.basename(frame.f_code.co_filename), frame.f_lineno))
                self.main.release(); self.sem[tid].acquire()     # yield to scheduler before executing this line
            return local
        def glob(frame, event, arg):
            if event=="call" and frame.f_code.co_filename.startswith(SRC) and frame.f_code.co_name in ("perform_cached_doit","get_readable_hash","_to_bytes","_get_python_hash_seed"):
                return local
            return None
        return glob
    def _run(self, tid):
        self.sem[tid].acquire()
        sys.settrace(self._tracer(tid))
        try: self.results[tid] = ("ok", self.bodies[tid]())
        except BaseException as e: self.results[tid] = ("exc", type(e).__name__)
        finally:
            sys.settrace(None); self.done[tid]=True; self.main.release()
    def run(self):
        ths = [threading.Thread(target=self._run, args=(i,), daemon=True) for i in range(self.n)]
        for t in ths: t.start()
        cur = 0; step=0
        while not all(self.done):
            enabled = [i for i in range(self.n) if not self.done[i]]
            order = ([cur] if cur in enabled else []) + [i for i in enabled if i!=cur]
            c = self.choices[step] if step < len(self.choices) else 0
            self.points.append((len(order), cur in enabled))
            cur = order[c]; step+=1
            self.sem[cur].release(); self.main.acquire()
        for t in ths: t.join()
        return self.results
s,m1,m2 = sp.symbols("s m1 m2")
w1 = EnergyDependentWidth(s, m1, m2, m1, m2, 0, 1, phsp_factor=PhaseSpaceFactor)
exp = w1.doit()
def explore(bound):
    outcomes = {}; nexec=0
    stack=[[]]
    while stack:
        prefix = stack.pop()
        d = tempfile.mkdtemp(prefix="c16_")
        sch = Sched([lambda: asp.perform_cached_doit(w1, d), lambda: asp.perform_cached_doit(w1, d)], prefix)
        res = sch.run(); nexec+=1
        shutil.rmtree(d)
        key = tuple((k, (v==exp) if k=="ok" else v) for k,v in res)
        outcomes[key] = outcomes.get(key,0)+1
        # expand
        pre=0
        for i,(nen,running) in enumerate(sch.points):
            c_i = prefix[i] if i < len(prefix) else 0
            if i >= len(prefix):
                cost = pre + (1 if running else 0)
                if cost <= bound:
                    for alt in range(1,nen): stack.append(prefix+[0]*(i-len(prefix))+[alt]) if False else stack.append((prefix + [0]*(i-len(prefix)))[:i]+[alt])
            if c_i>0 and running: pre+=1
    return nexec, outcomes, len(sch.trace)
for b in (0,1,2):
    t0=time.time(); n,o,L = explore(b); print("bound",b,"executions",n,"trace len",L,"outcomes",o,"t=%.1f"%(time.time()-t0))
