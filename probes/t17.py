import logging, itertools
logging.disable(logging.CRITICAL)
import numpy as np, sympy as sp, qrules, ampform
from qrules.settings import NumberOfThreads
NumberOfThreads.set(1)
from ampform.dynamics.builder import create_relativistic_breit_wigner_with_ff
r = qrules.generate_transitions(initial_state=("J/psi(1S)", [-1,1]), final_state=["gamma","pi0","pi0"], allowed_intermediate_particles=["f(0)(980)","f(0)(1500)"], allowed_interaction_types=["strong","EM"], formalism="canonical-helicity")
b = ampform.get_builder(r)
for n in r.get_intermediate_particles().names: b.dynamics.assign(n, create_relativistic_breit_wigner_with_ff)
b.config.stable_final_state_ids = [0,1,2]
m = b.formulate()
names = sorted({s.name for s in m.expression.free_symbols} | {s.name for s in m.kinematic_variables})
print(names)
def digest(m): return tuple(sp.srepr(x) if isinstance(x, sp.Basic) else repr([(sp.srepr(k) if isinstance(k,sp.Basic) else k, sp.srepr(v) if isinstance(v, sp.Basic) else v) for k,v in x.items()]) for x in (m.intensity, m.amplitudes, m.parameter_defaults, m.kinematic_variables, m.components))
d0 = digest(m)
def check(ren):
    m2 = m.rename_symbols(ren)
    probs=[]
    if digest(m)!=d0: probs.append("original mutated")
    e = m2.expression; par=set(m2.parameter_defaults); kin=set(m2.kinematic_variables)
    for s_ in e.free_symbols:
        if (s_ in par)==(s_ in kin): probs.append(("closure", s_.name))
    for k,v in m2.kinematic_variables.items():
        rest = {str(x) for x in v.xreplace(m2.parameter_defaults).free_symbols}-{"p0","p1","p2"}
        if rest: probs.append(("kinfree",str(k),rest))
    # expected names
    def img(n): return ren.get(n,n)
    exp_names = {img(s.name) for s in m.expression.free_symbols}
    got = {s.name for s in e.free_symbols}
    if exp_names!=got: probs.append(("names", sorted(exp_names^got)))
    # assumptions
    old = {s.name: s.assumptions0 for s in m.expression.free_symbols}
    for s_ in e.free_symbols:
        pre = [n for n in old if img(n)==s_.name]
        if pre and all(old[n]!=s_.assumptions0 for n in pre): probs.append(("assumptions", s_.name))
    # components & amplitudes free symbols consistent
    for k,v in m2.components.items():
        if not {x.name for x in v.free_symbols} <= got | {"m_A","m0","m1","m2"}: probs.append(("component", k[:30]))
    print(ren, "->", probs[:4] if probs else "ok", len(m2.parameter_defaults), len(m.parameter_defaults))
check({})
check({"m_12":"M12"})
check({"m_{f_{0}(980)}":"m_f", "m_{f_{0}(1500)}":"m_f"})
check({"d_{f_{0}(980)}":"d_{f_{0}(1500)}"})
check({"m_0":"m_1"})
check({"phi_0":"theta_0"})
check({"nope":"x"})
check({"m_1":"m_2","m_2":"m_1"})
check({"phi_0":"PHI", "m_012":"M"})
