import logging, itertools
logging.disable(logging.WARNING)
import numpy as np, sympy as sp
from ampform.kinematics.angles import formulate_scattering_angle, formulate_theta_hat_angle, formulate_zeta_angle
from ampform.kinematics.phasespace import Kibble, Kallen, is_within_phasespace, compute_third_mandelstam
m0,m1,m2,m3 = 3.0, 0.9, 0.5, 0.14
M = {0:m0,1:m1,2:m2,3:m3}
def kallen(x,y,z): return x*x+y*y+z*z-2*x*y-2*y*z-2*z*x
def event(s1, s2):
    # s1 = m23^2, s2 = m13^2, s3 = m12^2 ; parent at rest; build momenta in a plane
    s3 = m0**2+m1**2+m2**2+m3**2-s1-s2
    E = {1:(m0**2+m1**2-s1)/(2*m0), 2:(m0**2+m2**2-s2)/(2*m0), 3:(m0**2+m3**2-s3)/(2*m0)}
    P = {i: np.sqrt(max(E[i]**2-M[i]**2,0)) for i in E}
    # angle between 1 and 2: from s3 = m1^2+m2^2+2(E1E2 - p1p2 cos)
    c12 = (m1**2+m2**2+2*E[1]*E[2]-s3)/(2*P[1]*P[2])
    c13 = (m1**2+m3**2+2*E[1]*E[3]-s2)/(2*P[1]*P[3])
    if abs(c12)>1 or abs(c13)>1: return None
    p1 = np.array([E[1],0,0,P[1]])
    p2 = np.array([E[2],P[2]*np.sqrt(1-c12**2),0,P[2]*c12])
    p3 = np.array([E[3],-p1[1]-p2[1],0,-p1[3]-p2[3]])
    return {1:p1,2:p2,3:p3}, s3
def boost_to_rest(q, P):
    Mx = np.sqrt(P[0]**2-P[1:]@P[1:]); b = -P[1:]/P[0]; g = P[0]/Mx
    bq = b@q[1:]; b2=b@b
    return np.array([g*(q[0]+bq), *(q[1:] + ((g-1)*bq/b2 + g*q[0])*b)])
def ang(a,b): return np.arccos(np.clip(a@b/np.sqrt((a@a)*(b@b)),-1,1))
syms = {n: sp.Symbol(n, nonnegative=True) for n in ["m_0","m_1","m_2","m_3","m_12","m_13","m_23"]}
def val(expr, s1,s2,s3):
    v = {syms["m_0"]:m0,syms["m_1"]:m1,syms["m_2"]:m2,syms["m_3"]:m3,syms["m_23"]:np.sqrt(s1),syms["m_13"]:np.sqrt(s2),syms["m_12"]:np.sqrt(s3)}
    return float(expr.doit().xreplace(v).evalf()) if expr!=0 else 0.0
pts = [((m2+m3)**2 + f*((m0-m1)**2-(m2+m3)**2), (m1+m3)**2 + g*((m0-m2)**2-(m1+m3)**2)) for f in (0.2,0.5,0.7) for g in (0.2,0.45,0.7)]
n=0
for s1,s2 in pts:
    ev = event(s1,s2)
    if ev is None: continue
    p, s3 = ev; n+=1
    # theta_hat i(j): angle between p_i and p_j in parent frame?
    for i,j in itertools.permutations([1,2,3],2):
        _, e = formulate_theta_hat_angle(i,j)
        geo = ang(p[i][1:], p[j][1:])
        print("thetahat",i,j, round(val(e,s1,s2,s3),6), "geo", round(geo,6)) if n==1 else None
    for i,j in itertools.permutations([1,2,3],2):
        try: _, e = formulate_scattering_angle(i,j)
        except Exception as ex: print("scat",i,j,type(ex).__name__); continue
        k = ({1,2,3}-{i,j}).pop()
        Pij = p[i]+p[j]
        qi = boost_to_rest(p[i],Pij); qk = boost_to_rest(p[k],Pij); qij_dir = Pij[1:]
        print("scat",i,j, round(val(e,s1,s2,s3),6), "angle(i, -k) in (ij) frame", round(ang(qi[1:], -qk[1:]),6), "angle(i,k)", round(ang(qi[1:], qk[1:]),6)) if n==1 else None
    kib = float(Kibble(s1,s2,s3,m0,m1,m2,m3).doit())
    print("kibble", kib, "s3 ok", abs(s3 - ((p[1]+p[2])[0]**2-(p[1]+p[2])[1:]@(p[1]+p[2])[1:]))<1e-9) if n<=2 else None
# zeta identities
s1,s2 = pts[4]; p,s3 = event(s1,s2)
def z(i,j,k):
    try: return val(formulate_zeta_angle(i,j,k)[1], s1,s2,s3)
    except NotImplementedError as e: return "NI"
for i in (1,2,3):
    for k in (1,2,3):
        print("zeta",i,k,"(0)=",z(i,k,0),"(i)=",z(i,k,i),"(k)=",z(i,k,k))
print("sumrule z^1_2(3) =", z(1,2,3), " z^1_2(1)+z^1_1(3) =", z(1,2,1)+z(1,1,3))
for t in itertools.product(range(4),repeat=3):
    r = z(*t)
    if r=="NI": print("NotImplemented", t)
