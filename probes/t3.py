import time, logging, sys
logging.disable(logging.WARNING)
import numpy as np, qrules, ampform, sympy as sp
from qrules.settings import NumberOfThreads
NumberOfThreads.set(1)
t0=time.time()
r = qrules.generate_transitions(
    initial_state=("J/psi(1S)", [-1,1]),
    final_state=["K0", "Sigma+", "p~"],
    allowed_intermediate_particles=["Sigma(1750)"],
    allowed_interaction_types="strong",
    formalism="helicity",
)
print("gen", time.time()-t0, len(r.transitions))
for t in r.transitions:
    print({i:(s.particle.name,float(s.spin_projection)) for i,s in t.states.items()}, {k:v.parity_prefactor for k,v in t.interactions.items()})
b = ampform.get_builder(r)
print(b.naming.parity_partner_coefficient_mapping)
m = b.formulate()
for k,v in m.components.items():
    if k.startswith("A_"): print(k, "=>", v)
print(list(m.parameter_defaults))
