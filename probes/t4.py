import time, logging, sys
logging.disable(logging.WARNING)
import numpy as np, qrules, ampform, sympy as sp
from qrules.settings import NumberOfThreads
NumberOfThreads.set(1)
t0=time.time()
r = qrules.generate_transitions(
    initial_state=("J/psi(1S)", [-1,0,1]),
    final_state=["pi0", "pi+", "pi-"],
    allowed_intermediate_particles=["rho(770)"],
    allowed_interaction_types="strong",
    formalism="helicity",
)
print("gen", time.time()-t0, len(r.transitions))
for t in r.transitions:
    print(t.topology, {i:(s.particle.name,float(s.spin_projection)) for i,s in t.states.items()})
def build(r):
    b = ampform.get_builder(r)
    m = b.formulate()
    return m
def numeric(m, seed=0):
    t0=time.time()
    expr = m.expression.doit()
    kin = {k: v.doit() for k,v in m.kinematic_variables.items()}
    syms = sorted(expr.free_symbols, key=str)
    pars = dict(m.parameter_defaults)
    rng = np.random.default_rng(seed)
    for k in pars:
        if str(k).startswith("C_") or str(k).startswith("H_"):
            pars[k] = complex(rng.normal(), rng.normal())
    e2 = expr.xreplace(pars)
    ksyms = sorted(e2.free_symbols, key=str)
    f = sp.lambdify(ksyms, e2, "numpy")
    ps = sorted({s for v in kin.values() for s in v.free_symbols}, key=str)
    kf = {k: sp.lambdify(ps, kin[k], "numpy", cse=True) for k in ksyms}
    print("lambdify", time.time()-t0, ksyms, ps)
    return f, kf, ksyms, ps
def phsp3(M, m, rng, n):
    # simple: generate via two-body sequential decays
    out=[]
    while len(out)<n:
        m12 = rng.uniform(m[1]+m[2], M-m[0])
        # weightless: fine for testing
        def two_body(M, ma, mb):
            p = np.sqrt(max((M**2-(ma+mb)**2)*(M**2-(ma-mb)**2),0))/(2*M)
            ct = rng.uniform(-1,1); ph = rng.uniform(-np.pi,np.pi); st=np.sqrt(1-ct**2)
            v = p*np.array([st*np.cos(ph), st*np.sin(ph), ct])
            return np.array([np.sqrt(ma**2+p**2),*v]), np.array([np.sqrt(mb**2+p**2),*(-v)])
        p0, p12 = two_body(M, m[0], m12)
        q1, q2 = two_body(m12, m[1], m[2])
        # boost q1,q2 to lab by p12
        def boost(q, P):
            Mx = np.sqrt(P[0]**2-P[1:]@P[1:]); b = P[1:]/P[0]; g = P[0]/Mx
            bq = b@q[1:]
            b2 = b@b
            sp_ = q[1:] + ((g-1)*bq/b2 + g*q[0])*b if b2>0 else q[1:]
            return np.array([g*(q[0]+bq), *sp_])
        out.append((p0, boost(q1,p12), boost(q2,p12)))
    return [np.array([o[i] for o in out]) for i in range(3)]
def rot(ps, R):
    return [np.concatenate([p[:,:1], p[:,1:]@R.T],axis=1) for p in ps]
def Ry(a): c,s=np.cos(a),np.sin(a); return np.array([[c,0,s],[0,1,0],[-s,0,c]])
def Rz(a): c,s=np.cos(a),np.sin(a); return np.array([[c,-s,0],[s,c,0],[0,0,1]])
m = build(r)
f,kf,ksyms,psyms = numeric(m)
rng=np.random.default_rng(1)
ev = phsp3(3.0969, [0.135,0.1396,0.1396], rng, 5)
def I(ev):
    kv = [kf[k](*ev) for k in ksyms]
    return f(*kv)
print(I(ev))
for R in [Rz(0.7), Ry(0.9), Rz(0.3)@Ry(1.1)@Rz(-2)]:
    print(I(rot(ev,R)))
