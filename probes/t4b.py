import logging, sys
logging.disable(logging.WARNING)
import numpy as np, qrules, ampform, sympy as sp
import ampform.helicity as H
from ampform.helicity.decay import TwoBodyDecay
from qrules.settings import NumberOfThreads
NumberOfThreads.set(1)
exec(open("t4.py").read().split("m = build(r)")[0].split("def build")[0].replace("print","(lambda *a,**k:None)"))
orig = H.formulate_isobar_wigner_d
def patched(transition, node_id):
    from sympy.physics.quantum.spin import Rotation as Wigner
    decay = TwoBodyDecay.from_transition(transition, node_id)
    _, phi, theta = H._generate_kinematic_variables(transition, node_id)
    mp = decay.children[0].spin_projection - decay.children[1].spin_projection
    top = transition.topology
    c0, c1 = decay.children
    c0_decays = top.edges[c0.id].ending_node_id is not None
    c1_decays = top.edges[c1.id].ending_node_id is not None
    if c1_decays and not c0_decays:   # angle is filled with momentum of c1 (opposite-helicity resonance)
        mp = -mp
    return Wigner.D(j=sp.Rational(decay.parent.particle.spin), m=sp.Rational(decay.parent.spin_projection), mp=sp.Rational(mp), alpha=-phi, beta=theta, gamma=0)
if sys.argv[1]=="patch": H.formulate_isobar_wigner_d = patched
src = open("t4.py").read()
exec("def build" + src.split("def build")[1])
