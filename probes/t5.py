import logging, pickle, tempfile, os
logging.disable(logging.WARNING)
import sympy as sp
from ampform.helicity.align._spin import create_spin_range
for s in [0,0.5,1,1.5,2,2.5]:
    for nz in [False, True]:
        try: print(s, nz, create_spin_range(s, nz))
        except Exception as e: print(s, nz, "EXC", repr(e))
from ampform.sympy import PoolSum
i,j,x = sp.symbols("i j x")
f = sp.Function("f")
ps = PoolSum(f(i,j,x), (i,(1,2)), (j,(3,4)))
print("subs bound:", ps.subs(i,5), "| xreplace:", ps.xreplace({i:5}))
print("free", ps.free_symbols)
print("nested", PoolSum(PoolSum(f(i,j,x),(i,(1,2))), (j,(3,4))).doit())
# shadowed
sh = PoolSum(i*PoolSum(f(i,x),(i,(1,2))), (i,(10,20)))
print("shadow", sh.doit(), " expected", sum(a*(f(1,x)+f(2,x)) for a in (10,20)))
from ampform.dynamics.phasespace import PhaseSpaceFactor, BreakupMomentumSquared, PhaseSpaceFactorSWave
s,m1,m2,y = sp.symbols("s m1 m2 y")
e = PhaseSpaceFactor(BreakupMomentumSquared(s,m1,m2),m1,m2)
print("xreplace nested:", e.xreplace({m1:y}), "|", sp.srepr(e.xreplace({m1:y}))[:200])
print("subs nested:", e.subs(m1,y))
from ampform.kinematics.lorentz import BoostZMatrix, ArraySize, EuclideanNorm, ThreeMomentum, create_four_momentum_symbol, three_momentum_norm
p = create_four_momentum_symbol(0)
b = sp.Symbol("b")
for ex in [BoostZMatrix(b, ArraySize(p)), three_momentum_norm(p), e]:
    l = pickle.loads(pickle.dumps(ex))
    print("pickle:", ex, "->", l, l==ex)
from ampform.dynamics import EnergyDependentWidth
from ampform.sympy import perform_cached_doit
d = tempfile.mkdtemp()
os.environ.pop("PYTHONHASHSEED", None)
w1 = EnergyDependentWidth(s, m1, m2, m1, m2, 0, 1, phsp_factor=PhaseSpaceFactor)
w2 = EnergyDependentWidth(s, m1, m2, m1, m2, 0, 1, phsp_factor=PhaseSpaceFactorSWave)
r1 = perform_cached_doit(w1, d); r2 = perform_cached_doit(w2, d)
print("cache collision:", r2 == w2.doit(), r1==r2, str(w1)==str(w2), os.listdir(d))
