import logging, sys, time
logging.disable(logging.WARNING)
import sympy as sp, qrules, ampform
from qrules.settings import NumberOfThreads
NumberOfThreads.set(1)
from ampform.helicity.align.dpd import DalitzPlotDecomposition, relabel_edge_ids
t0=time.time()
r = qrules.generate_transitions(
    initial_state=("J/psi(1S)", [-1, +1]),
    final_state=["K0", "Sigma+", "p~"],
    allowed_intermediate_particles=["Sigma(1660)", "N(1650)"],
    allowed_interaction_types=["strong"], formalism="helicity")
r = relabel_edge_ids(r)
print("gen", time.time()-t0)
order = sys.argv[1]
def build(stable):
    b = ampform.get_builder(r)
    b.config.spin_alignment = DalitzPlotDecomposition(reference_subsystem=1)
    b.config.stable_final_state_ids = stable
    t0=time.time(); m = b.formulate(); print("formulate", time.time()-t0)
    return m
def zfs(m):
    return {str(k): sorted(map(str, v.free_symbols)) for k,v in m.kinematic_variables.items() if "zeta" in str(k)}
if order=="A":
    m = build({1,2,3}); print(zfs(m))
else:
    build(None); m = build({1,2,3}); print(zfs(m))
