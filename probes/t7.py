import logging, sys, time, collections
logging.disable(logging.WARNING)
import sympy as sp
from qrules.topology import create_isobar_topologies
from ampform.kinematics import HelicityAdapter
from ampform.kinematics.lorentz import create_four_momentum_symbols, compute_invariant_masses
from ampform.kinematics.angles import compute_helicity_angles
for n in [2,3,4,5]:
    tops = create_isobar_topologies(n)
    print(n, len(tops))
tops = create_isobar_topologies(4)
a = HelicityAdapter([tops[0]])
a.permutate_registered_topologies()
print("registered", len(a.registered_topologies))
defs = collections.defaultdict(set)
for t in a.registered_topologies:
    mom = create_four_momentum_symbols(t)
    d = dict(compute_helicity_angles(mom, t)); d.update(compute_invariant_masses(mom, t))
    for k,v in d.items(): defs[k].add(v)
amb = {str(k): sorted(map(str,v)) for k,v in defs.items() if len(v)>1}
print(len(defs), "ambiguous:", len(amb))
for k,v in list(amb.items())[:6]: print(k, v)
a2 = HelicityAdapter(tops)
a2.permutate_registered_topologies()
print("registered all", len(a2.registered_topologies))
t0=time.time(); e = a2.create_expressions(); print(len(e), time.time()-t0)
