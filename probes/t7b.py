import logging, sys, time, collections
logging.disable(logging.WARNING)
import sympy as sp
from qrules.topology import create_isobar_topologies
from ampform.kinematics import HelicityAdapter
from ampform.kinematics.lorentz import create_four_momentum_symbols, compute_invariant_masses
from ampform.kinematics.angles import compute_helicity_angles
from ampform.helicity.decay import is_opposite_helicity_state
for n in [3,4,5]:
    tops = create_isobar_topologies(n)
    a2 = HelicityAdapter(tops)
    a2.permutate_registered_topologies()
    defs = collections.defaultdict(lambda: collections.defaultdict(list))
    for t in a2.registered_topologies:
        mom = create_four_momentum_symbols(t)
        d = dict(compute_helicity_angles(mom, t)); d.update(compute_invariant_masses(mom, t))
        for k,v in d.items(): defs[k][v].append(t)
    amb = {k: v for k,v in defs.items() if len(v)>1}
    print(n, "topologies", len(a2.registered_topologies), "symbols", len(defs), "ambiguous:", len(amb))
    for k,v in list(amb.items())[:3]:
        print("  ", k)
        for e,ts in v.items():
            print("     ", e, [dict((i,(ed.originating_node_id, ed.ending_node_id)) for i,ed in t.edges.items()) for t in ts][:2])
