import logging, time, itertools
logging.disable(logging.WARNING)
import sympy as sp, numpy as np
import qrules, ampform
from fractions import Fraction
from qrules.particle import Particle, Parity
from qrules.quantum_numbers import InteractionProperties
from qrules.topology import create_isobar_topologies, FrozenTransition
from qrules.transition import ReactionInfo, State
import inspect
print(inspect.signature(Particle), inspect.signature(InteractionProperties), inspect.signature(ReactionInfo), inspect.signature(FrozenTransition))
def P(name, spin, mass, pid, parity=+1):
    return Particle(name=name, pid=pid, spin=spin, mass=mass, width=0.1, parity=Parity(parity), latex=name)
A = P("A", 1, 3.0, 901); B=P("B",0.5,0.9,902); C=P("C",0.5,0.5,903); D=P("D",0,0.14,904); R=P("R",1,1.2,905)
top = create_isobar_topologies(3)[0]
print(top)
def srange(s):
    s = Fraction(s).limit_denominator(2); n=int(2*s)+1
    return [float(-s+k) for k in range(n)]
trs=[]
# topology: -1 -> 0 + 3(R); 3 -> 1,2
for mA,l0,lR,l1,l2 in itertools.product(srange(1), srange(0.5), srange(1), srange(0.5), srange(0)):
    # angular momentum conservation along helicity axis: |lR - l0| <= J_A, |l1-l2| <= J_R
    if abs(lR-l0)>1 or abs(l1-l2)>1: continue
    states = {-1: State(A,mA), 0: State(B,l0), 1: State(C,l1), 2: State(D,l2), 3: State(R,lR)}
    inter = {0: InteractionProperties(), 1: InteractionProperties()}
    trs.append(FrozenTransition(top, states, inter))
r = ReactionInfo(trs, formalism="helicity")
print(len(trs))
t0=time.time(); b = ampform.get_builder(r); m=b.formulate(); print("formulate", time.time()-t0, len(m.amplitudes), len(m.parameter_defaults))
t0=time.time(); e = m.expression; print("expression", time.time()-t0, e.count_ops())
from ampform.helicity.align.axisangle import AxisAngleAlignment
from ampform.helicity.align.dpd import DalitzPlotDecomposition, relabel_edge_ids
b.config.spin_alignment = AxisAngleAlignment()
t0=time.time(); m2=b.formulate(); print("formulate AA", time.time()-t0)
t0=time.time(); e2 = m2.expression; print("expression AA", time.time()-t0, e2.count_ops(), len(e2.free_symbols))
t0=time.time(); e2d = e2.doit(); print("doit AA", time.time()-t0)
r3 = relabel_edge_ids(r)
b3 = ampform.get_builder(r3); b3.config.spin_alignment = DalitzPlotDecomposition(1)
t0=time.time(); m3=b3.formulate(); print("formulate DPD", time.time()-t0)
t0=time.time(); e3 = m3.expression; print("expression DPD", time.time()-t0, e3.count_ops(), len(e3.free_symbols))
t0=time.time(); e3d = e3.doit(); print("doit DPD", time.time()-t0)
t0=time.time(); f = sp.lambdify(sorted(e3d.free_symbols,key=str), e3d, "numpy", cse=True); print("lambdify DPD", time.time()-t0)
t0=time.time(); f = sp.lambdify(sorted(e2d.free_symbols,key=str), e2d, "numpy", cse=True); print("lambdify AA", time.time()-t0)
