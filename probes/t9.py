import logging, time, itertools, math
logging.disable(logging.WARNING)
import sympy as sp, numpy as np
from sympy.physics.quantum.spin import WignerD, Rotation
from sympy.physics.quantum.cg import CG
from fractions import Fraction
def wigner_d(j, m, mp, beta):
    # Wigner's formula, j,m,mp Fractions
    j,m,mp = Fraction(j),Fraction(m),Fraction(mp)
    f = math.factorial
    pref = math.sqrt(f(int(j+m))*f(int(j-m))*f(int(j+mp))*f(int(j-mp)))
    tot = 0
    smin = max(0, int(mp-m)); smax = min(int(j+mp), int(j-m))
    c = np.cos(beta/2); s = np.sin(beta/2)
    for k in range(smin, smax+1):
        num = (-1)**(k - int(mp-m)) if False else (-1)**(int(m-mp)+k)
        den = f(int(j+mp-k))*f(k)*f(int(m-mp)+k)*f(int(j-m-k))
        tot = tot + num/den * c**(int(2*j+mp-m-2*k)) * s**(int(m-mp+2*k))
    return pref*tot
def wigner_D(j,m,mp,a,b,g):
    return np.exp(-1j*float(m)*a)*wigner_d(j,m,mp,b)*np.exp(-1j*float(mp)*g)
# compare to sympy
bad=0; n=0
for j2 in (range(0,5) if __name__=="__main__" else []):
    j = sp.Rational(j2,2)
    ms = [j-k for k in range(j2+1)]
    for m in ms:
        for mp in ms:
            for (a,b,g) in [(0.3,1.1,-0.7),(2.0,2.9,0.4)]:
                ref = complex(Rotation.D(j,m,mp,a,b,g).doit().evalf())
                mine = complex(wigner_D(Fraction(int(2*j),2),Fraction(int(2*m),2),Fraction(int(2*mp),2),a,b,g))
                n+=1
                if abs(ref-mine)>1e-12: bad+=1; print(j,m,mp,ref,mine)
print("compared", n, "bad", bad)
