#!/bin/sh
# Runs the repository's pinned baseline suite (guard off) on a tree and prints the
# pass/fail summary. usage: tools/baseline.sh [repo-dir]   (default /repo)
REPO="${1:-/repo}"
cd "$REPO" || exit 2
unset AMPFORM_VERIF
exec /venv/bin/python -m pytest -ra -q -p no:cacheprovider --timeout=900 \
  --continue-on-collection-errors 2>&1 | tail -n "${TAIL:-14}"
