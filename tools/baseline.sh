#!/bin/sh
# Runs the repository's pinned baseline suite (guard off) on a tree and prints the
# pass/fail summary. usage: tools/baseline.sh [repo-dir]   (default /repo)
# For a scratch copy/worktree the copy's own src/ is put first on PYTHONPATH so that
# the tests import the copy and not the editable install of /repo.
REPO="${1:-/repo}"
cd "$REPO" || exit 2
unset AMPFORM_VERIF
PYTHONPATH="$REPO/src"
export PYTHONPATH
/venv/bin/python -c "import ampform,sys; print('testing', ampform.__file__)"
exec /venv/bin/python -m pytest -ra -q -p no:cacheprovider --timeout=900 \
  --continue-on-collection-errors 2>&1 | tail -n "${TAIL:-14}"
