#!/bin/sh
# usage: tools/confirm_seed.sh <worktree> <n> <seed-id> <property>
# Confirms a seeded change in its scratch worktree (baseline still 302 passed with the
# patch, demo fails with / passes without) and stores it under /verif/seeded/<seed-id>/.
WT="$1"; N="$2"; ID="$3"; PROP="$4"
cd "$WT" || exit 2
git checkout -q -- src || exit 2
PYTHONPATH="$WT/src"; export PYTHONPATH
/venv/bin/python out/demo$N.py >/tmp/confirm_demo_clean.txt 2>&1; rc_clean=$?
git apply out/patch$N.diff || { echo "patch does not apply"; exit 2; }
/venv/bin/python out/demo$N.py >/tmp/confirm_demo_patched.txt 2>&1; rc_patched=$?
base=$(/venv/bin/python -m pytest -q -p no:cacheprovider --timeout=900 --continue-on-collection-errors 2>&1 | tail -1 | sed 's/\x1b\[[0-9;]*m//g')
git checkout -q -- src
echo "$ID: demo clean rc=$rc_clean, demo patched rc=$rc_patched, baseline with patch: $base"
case "$base" in *"302 passed"*"8 errors"*) ok=1;; *) ok=0;; esac
if [ "$rc_clean" = 0 ] && [ "$rc_patched" != 0 ] && [ "$ok" = 1 ]; then
  D=/verif/seeded/$ID; mkdir -p "$D"
  cp out/patch$N.diff "$D/patch.diff"; cp out/demo$N.py "$D/demo.py"
  /venv/bin/python - "$D" "$PROP" "$base" "$rc_clean" "$rc_patched" <<'PY'
import json, sys
d, prop, base, rc_clean, rc_patched = sys.argv[1:6]
json.dump({"property": prop, "checks": [prop],
           "baseline_with_patch": base.strip(),
           "demo": {"clean_exit": int(rc_clean), "patched_exit": int(rc_patched)},
           "needs": "", "caught_by": {}}, open(d + "/meta.json", "w"), indent=1)
PY
  echo "  stored in $D"
else
  echo "  NOT confirmed"
fi
