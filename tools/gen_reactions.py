#!/venv/bin/python
"""Generates the committed catalogue of real qrules reactions under /verif/reactions/.

Run once (needs qrules' solver, 1-3 s per reaction): /venv/bin/python tools/gen_reactions.py
The checks only ever *load* the JSON files (qrules.io.load), so the qrules solver is
not part of any exploration loop.
"""
from __future__ import annotations

import logging
import sys
import time
from pathlib import Path

import qrules
from qrules.settings import NumberOfThreads

logging.disable(logging.WARNING)
NumberOfThreads.set(1)
OUT = Path(__file__).resolve().parent.parent / "reactions"

SPECS = {
    # name: (initial, final, resonances, interaction types)
    "jpsi_gpipi_f0f2": (("J/psi(1S)", [-1, 1]), ["gamma", "pi0", "pi0"], ["f(0)(980)", "f(2)(1270)"], ["strong", "EM"]),
    "jpsi_gpipi_f0_1500": (("J/psi(1S)", [-1, 1]), ["gamma", "pi0", "pi0"], ["f(0)(980)", "f(0)(1500)"], ["strong", "EM"]),
    "jpsi_gpipi_omega": (("J/psi(1S)", [-1, 1]), ["gamma", "pi0", "pi0"], ["omega(782)"], ["strong", "EM"]),
    "jpsi_gpipi_f2_full": (("J/psi(1S)", [-1, 0, 1]), ["gamma", "pi0", "pi0"], ["f(2)(1270)"], ["strong", "EM"]),
    "jpsi_3pi_rho": (("J/psi(1S)", [-1, 0, 1]), ["pi0", "pi+", "pi-"], ["rho(770)"], ["strong"]),
    "jpsi_ksp_sigma_n": (("J/psi(1S)", [-1, 1]), ["K0", "Sigma+", "p~"], ["Sigma(1750)", "N(1650)"], ["strong"]),
    "jpsi_ksp_full": (("J/psi(1S)", [-1, 0, 1]), ["K0", "Sigma+", "p~"], ["Sigma(1750)", "N(1650)", "K(2)*(1980)+"], ["strong"]),
    "lc_pkpi": (("Lambda(c)+", [-0.5, 0.5]), ["p", "K-", "pi+"], ["Lambda(1405)", "Delta(1232)++", "K*(892)0"], ["strong", "EM", "weak"]),
    "etac_lamlam": ("eta(c)(1S)", ["Lambda", "Lambda~"], [], ["strong", "EM"]),
    "d0_kkk": ("D0", ["K~0", "K+", "K-"], ["a(0)(980)0", "phi(1020)"], ["strong", "EM", "weak"]),
    "psi4160_ddpi": (("psi(4160)", [-1, 1]), ["D*(2007)~0", "D0", "pi0"], ["D(1)(2420)0", "D(2)*(2460)0", "D*(2007)0"], ["strong"]),
    "jpsi_4body_omega_f0": (("J/psi(1S)", [-1, 1]), ["gamma", "pi0", "pi0", "pi0"], ["omega(782)", "f(0)(980)"], ["strong", "EM"]),
}


def main() -> None:
    only = set(sys.argv[1:])
    for name, spec in SPECS.items():
        if spec is None or (only and name not in only):
            continue
        initial, final, resonances, types = spec
        for formalism in ("helicity", "canonical-helicity"):
            t0 = time.time()
            try:
                reaction = qrules.generate_transitions(
                    initial_state=initial,
                    final_state=final,
                    allowed_intermediate_particles=resonances or None,
                    allowed_interaction_types=types,
                    formalism=formalism,
                )
            except Exception as exc:  # noqa: BLE001
                print(f"{name} {formalism}: FAILED {type(exc).__name__}: {exc}")
                continue
            tag = "hel" if formalism == "helicity" else "can"
            path = OUT / f"{name}.{tag}.json"
            qrules.io.write(reaction, str(path))
            back = qrules.io.load(str(path))
            assert back == reaction, "JSON round trip differs"
            print(f"{name} {formalism}: {len(reaction.transitions)} transitions, {time.time() - t0:.1f}s")


if __name__ == "__main__":
    main()
