#!/venv/bin/python
"""Regenerates /verif/MANIFEST.json from the table below and validates it."""

from __future__ import annotations

import json
from pathlib import Path

ROOT = Path(__file__).resolve().parent.parent

ENGINES = [
    {
        "name": "SHAPE",
        "path": "vp/core.py",
        "kind_free_text": (
            "bounded-exhaustive enumeration of input shapes / configurations, each run on"
            " the real ampform objects and compared with an independent reference model"
        ),
    },
    {
        "name": "SEQ",
        "path": "vp/core.py",
        "kind_free_text": (
            "explicit-state exploration of operation histories on real builder / cache"
            " objects (depth-bounded, with and without state merging)"
        ),
    },
    {
        "name": "SCHED",
        "path": "vp/sched.py",
        "kind_free_text": (
            "stateless exploration of all line-level interleavings (preemption-bounded)"
            " and crash points of perform_cached_doit under a baton scheduler"
        ),
    },
]

# id -> (engine, category, technique, level text, level note)
CHECKS: dict[str, dict] = {
    "C18": {
        "engine": "SHAPE",
        "category": "exploration",
        "technique": (
            "bounded-exhaustive enumeration of pool-sum ASTs x operations against a"
            " lexically scoped reference evaluator"
        ),
        "text": (
            "every sum of a small grammar (0..3/4 indices, 4 pools, nested and shadowed"
            " indices, colliding literals) x every operation of the statement is executed"
            " on the real PoolSum and compared with a plain-Python reference sum"
        ),
        "note": (
            "values compared numerically at one generic rational point with a concrete"
            " stand-in for the undefined function; bound = grammar depth 2 (3 thorough)"
        ),
        "design": "3/C18",
    },
}

CHECKS.update({
    "C19": {
        "engine": "SHAPE", "category": "exploration",
        "technique": "bounded-exhaustive enumeration of index tuples x mass configurations x Dalitz lattice against a four-momentum reference geometry",
        "text": "all 64 zeta triples, all theta-hat / theta_ij pairs, 16 mass configurations (every special role given to every child), interior grid plus geometric boundary approaches; library expressions (doit+lambdify, mpmath where doubles are ill-conditioned) compared with angles computed from explicitly constructed events and with the identities of the statement (81 chain-rule instances)",
        "note": "real numbers off the lattice are not covered; one global orientation sign per angle family is read from the first point (the statement does not fix the orientation)",
        "design": "3/C19",
    },
    "C20": {
        "engine": "SHAPE", "category": "exploration",
        "technique": "bounded-exhaustive enumeration of mass configurations x bounding-box grid x outside values against PDG Dalitz limits; exact-rational grid decides the Kallen identities",
        "text": "events from an independent momentum-triangle construction, 25x25 (120x120) bounding-box grid plus points hugging the PDG boundary from both sides, five outside values, both call paths; Kallen symmetry and factorisation on a 6^3 exact-rational grid that decides the degree-(2,2,2) polynomial identity",
        "note": "points closer to the boundary than the rounding band are not judged (<= vs < is not a violation); crossed-channel regions out of scope as in the statement",
        "design": "3/C20",
    },
})

CHECKS.update({
    "C01": {
        "engine": "SHAPE", "category": "exploration",
        "technique": "bounded-exhaustive enumeration of reactions x builder configurations; set-algebra invariants on the real model plus numeric evaluation from four-momenta",
        "text": "every factory reaction within the spin/size bound (partial helicity sets, identical particles, multi-topology, 2-5 final states) and the qrules catalogue x alignment x dynamics x stable ids x scalar mass x couplings x adapter extras is formulated by the real builder; each model must satisfy parameter-xor-kinematic-variable, no undefined amplitude, momentum-only kinematic variables, and must evaluate to finite numbers from four-momenta",
        "note": "numeric evaluation for two switch combinations per case; bounds: spins <= 1 (3/2 thorough), <= 40 (200) transitions per reaction",
        "design": "3/C01",
    },
    "C02": {
        "engine": "SHAPE", "category": "exploration",
        "technique": "bounded-exhaustive enumeration of synthetic and catalogue reactions x configurations against an independent implementation of the helicity formula (own Wigner-D / Clebsch-Gordan / naming / symmetrisation)",
        "text": "per (reaction, configuration) every A_ component, every amplitude entry, every I_ component and the full intensity are compared with the reference on an angle grid (tensor grid deciding the trigonometric polynomial for one node) and on the polarisation basis of the coefficients (decides the Hermitian form for all complex coefficient values)",
        "note": "angles are free variables here; identical particles with spin are out of scope; multi-node reactions use a rank-1 lattice of 24 angle points; spins <= 1 quick, <= 3 (one node) / 3/2 (two nodes) thorough",
        "design": "3/C02",
    },
    "C08": {
        "engine": "SHAPE", "category": "exploration",
        "technique": "bounded-exhaustive enumeration of matrix classes and chains x code paths x cse x batch size on a direction / beta-gamma / angle lattice against a numpy reference and the algebraic laws of the statement",
        "text": "all boost/rotation classes, named laws and multiplication chains up to length 4, both code paths (doit+lambdify, as_explicit), cse on/off, batch sizes 1/2/5(/17); Lorentz-group laws plus element-wise agreement with an independent numpy implementation",
        "note": "tolerance eps*gamma^2 (rounding) makes the laws weak at beta*gamma >= 1e3; p = 0 excluded",
        "design": "3/C08",
    },
    "C09": {
        "engine": "SHAPE", "category": "exploration",
        "technique": "bounded-exhaustive enumeration of (class, channels, poles, L, phase-space variant, flag) x parameter/s lattice; unitarity, symmetry and agreement with a numpy K(1-i rho K)^-1 reference",
        "text": "n_channels 1-2 (3), n_poles 1-3 (4), L 0-2 (4), three real phase-space variants, T and T-hat; mass sets incl. degenerate poles and a pole below a channel threshold; 12 s points above the highest threshold",
        "note": "parameters substituted before doit (s symbolic); tolerance scaled by cond(1 - i rho K)",
        "design": "3/C09",
    },
    "C10": {
        "engine": "SHAPE", "category": "exploration",
        "technique": "bounded-exhaustive enumeration of P-vector configurations: numeric residual of the K-matrix equation, provenance walk over the expression DAG, documented reductions, and all two-call formulate histories",
        "text": "(i) residual (1-iK)F-P with the library's own parametrisations, (ii) every phase-space class / L / radius occurring anywhere in the result is the one passed (7 protocol implementations), (iii) one-channel-one-pole reductions to the Breit-Wigner functions, (iv) every ordered pair of formulate calls gives the result of the same call in a fresh state",
        "note": "3-channel RelativisticPVector is not explored (its symbolic inverse does not terminate in an hour): reported as cap; mutation of returned matrices by the caller is counted, not judged",
        "design": "3/C10",
    },
    "C11": {
        "engine": "SHAPE", "category": "exploration",
        "technique": "bounded-exhaustive enumeration of the seven phase-space expressions x mass configurations x binding mode x dtype x cse on an s lattice containing every region and boundary the code distinguishes",
        "text": "identities of the statement (Re rho = 2q/sqrt s, rho^c = i rho-hat, rho^eq = rho^CM for equal masses on the whole axis, continuity at threshold, q^2 symmetry and zeros) plus closed-form references; NaN never counts as agreement; ill-conditioned float64 points are re-evaluated with 50-digit arithmetic",
        "note": "a lattice is only a lattice; s = 0 excluded (pole of q^2)",
        "design": "3/C11",
    },
    "C12": {
        "engine": "SHAPE", "category": "exploration",
        "technique": "bounded-exhaustive enumeration of L x code path x phase-space factor x builder flags, plus an operation-history exploration of the Blatt-Weisskopf polynomial cache",
        "text": "B_L^2 normalisation, threshold behaviour and boundedness, polynomial path = Hankel path = scipy for L <= 10 (16), Gamma(m0^2) = Gamma0 for five phase-space factors, builder API = function API for all flag combinations; all short request orders over the lru_cache (eviction exercised in thorough)",
        "note": "below threshold only builder vs library function is compared (no real Hankel reference there)",
        "design": "3/C12",
    },
})

CHECKS.update({
    "C03": {
        "engine": "SHAPE", "category": "exploration",
        "technique": "bounded-exhaustive enumeration of parity assignments x spins x conserving-node subsets x naming flags; all chain pairs per coefficient group checked against eta from the particle table, plus canonical/helicity cross-formalism consistency",
        "text": "for every pair of chains that share their coefficients and differ by reversing daughter helicities at parity-conserving nodes the coupling-factor ratio must be the product of eta over exactly those nodes (both formalisms; in the canonical one this checks the Clebsch-Gordan conventions); the helicity couplings implied by every canonical basis assignment must be single-valued per helicity coefficient",
        "note": "pairs whose sharing is not due to parity coupling (child helicities switched off) are not judged; identical particles with spin out of scope",
        "design": "3/C03",
    },
})

CHECKS.update({
    "C07": {
        "engine": "SHAPE", "category": "exploration",
        "technique": "bounded-exhaustive enumeration of isobar topologies x relabelings x adapters x cse on an event lattice against an independent boost-and-rotate reference and the library's own Dalitz closed form",
        "text": "all 9 isobar shapes with 2-5 final states, every distinct relabeling of final-state ids (5-body: 24 per shape in thorough), both numberings of intermediate edges, adapters with subsets / permuted sets of topologies; every invariant mass and helicity angle is recomputed from four-momenta by a numpy reference following the documented naming convention; within one adapter a name must have one value",
        "note": "events: 7-point lattice per mass configuration (generic, massless, near threshold, boosted frame); azimuth compared modulo 2 pi with 1/sin(theta) scaling",
        "design": "3/C07",
    },
})

CHECKS.update({
    "C04": {
        "engine": "SHAPE", "category": "exploration",
        "technique": "bounded-exhaustive enumeration of reactions with complete helicity sets x alignment; metamorphic oracle over the cube group plus an Euler lattice, on the polarisation basis of the coefficients",
        "text": "kinematic variables are computed from rotated four-momenta by the library's own generated code and fed into the intensity; invariance is required for every single topology and for multi-topology reactions with a spinless final state or a selected alignment; the polarisation basis makes the verdict hold for all coefficient values",
        "note": "4 lattice events x 41 rotations; inside the known region of the angle-convention finding invariance under pure z-rotations is still enforced",
        "design": "3/C04",
    },
    "C05": {
        "engine": "SHAPE", "category": "exploration",
        "technique": "bounded-exhaustive enumeration of single-topology reactions x mass variants x five alignment choices; differential oracle against the unaligned model on the polarisation basis; spin-range helper enumerated for s = 0..5",
        "text": "for every single-topology reaction with complete helicity sets the axis-angle and the three DPD models must reproduce the unaligned intensity at every lattice event for all coefficient values, formulation must not raise, rotation-sum pools of massive particles must be -s..s",
        "note": "quick: three-body with bounded rotation-sum size; four-body and spins up to 5/2 in thorough",
        "design": "3/C05",
    },
})

CHECKS.update({
    "C06": {
        "engine": "SEQ", "category": "model_checking",
        "technique": "explicit enumeration of all operation histories up to depth 3 (4) on real builders, without state merging; differential oracles against a second call, a fresh directly-configured builder and replays in fresh interpreters under other hash seeds",
        "text": "every sequence over {set stable ids / scalar mass / couplings / alignment, toggle naming flags, dynamics.assign, adapter.permutate, register extra topology, formulate} for one builder and for two builders sharing a reaction (all interleavings), from three base configurations and four (six) reactions; digests of all six model attributes incl. dictionary order must not depend on history, on a second call, or on PYTHONHASHSEED",
        "note": "process-global caches are cleared between histories only; srepr digests; depth bound 3 quick / 4 thorough",
        "design": "3/C06",
    },
})

CHECKS.update({
    "C16": {
        "engine": "SCHED", "category": "model_checking",
        "technique": "explicit-state BFS over cache-directory histories (with merging) plus stateless exploration of all line-level interleavings of two callers up to a preemption bound, all crash points and all byte prefixes, on the real function, in three hash-seed modes",
        "text": "perform_cached_doit runs on real temporary directories; operations call / pre-seed (empty, torn, unloadable, colliding partner's pickle) / crash at every scheduling point; two callers under a baton scheduler (sys.settrace line events) with <= 1 (2) preemptions on empty, warm and torn directories; every byte prefix of every file a writer produces as a starting directory; every return value must equal doit() and nothing may raise",
        "note": "threads under a baton stand in for processes; scheduling points are source lines of the two cache modules; bounds: depth 3 (4), 2 callers, 2 preemptions",
        "design": "3/C16",
    },
})

CHECKS.update({
    "C13": {
        "engine": "SEQ", "category": "model_checking",
        "technique": "explicit-state BFS over dynamics-assignment histories on real builders (states merged by selector map), with a plain-dict reference selector, spy builders that expose the variables each node receives, and numeric comparison with the public line-shape functions",
        "text": "all assignment sequences of depth <= 3 (4) over selections by name / Particle / TwoBodyDecay / (transition, node) x {none, BW, BW+ff, analytic, two spy builders} on 26 reaction variants (1-3 resonances, same resonance in several topologies, symmetrised images, canonical L != J, four-body); in every state the real selector map, the exact set and arguments of spy atoms, the numeric chain amplitudes and the parameter defaults must equal the prediction",
        "note": "states merged by selector map (formulate() is a function of it: C06); numeric comparison on a 4-point lattice; components of symmetrised chains (overwritten names) are not judged",
        "design": "3/C13",
    },
    "C17": {
        "engine": "SEQ", "category": "model_checking",
        "technique": "explicit-state BFS over rename histories (states merged by composed rename map) on six models, against a reference renaming of the original attributes plus numeric evaluation from four-momenta",
        "text": "every single-entry and curated two-entry rename map over a sub-alphabet containing every symbol role, sequences of depth 2 (3), given as dict / pairs / iterator; every attribute must equal the original with the composed map applied, in natural order, C01's invariant must hold, assumptions and untouched symbols preserved, the receiver unchanged, warnings exactly for unknown names, intensity from four-momenta unchanged, merged parameters coupled",
        "note": "maps that put two kinematic variables (or a kinematic variable and a parameter) under one name are excluded (no well-defined right-hand side) and counted",
        "design": "3/C17",
    },
})

CHECKS.update({
    "C14": {
        "engine": "SHAPE", "category": "exploration",
        "technique": "bounded-exhaustive enumeration over the class registry found by introspection x argument shapes per field sort (incl. nested unevaluated instances and non-SymPy attributes) x substitution maps x subs/xreplace x cse; algebraic laws checked structurally, else numerically",
        "text": "all 46 sympy.Basic classes defined in the ampform package (35 @unevaluated, 10 helpers; new classes are picked up automatically), 866 (2834) argument shapes, ~12k (60k) substitution maps via subs and xreplace: substitution commutes with unfolding, non-SymPy attributes survive, equality/hash agree with a structural key, rebuilding from args reproduces the instance, code generated from folded and unfolded forms agrees (cse on/off)",
        "note": "nesting one level quick / two levels thorough (large or complex-valued unfolded forms excluded from nesting: reported); only symbols are substituted; bound variables are C18's business",
        "design": "3/C14",
    },
    "C15": {
        "engine": "SHAPE", "category": "exploration",
        "technique": "bounded-exhaustive enumeration of expression instances (C14's pool) and models (C01's space) x pickle protocols 2-5 x {same process, fresh interpreter under another hash seed}; equality, structural digests, key order and numeric values compared",
        "text": "866 (2834) expression instances and 122 (872) models (factory + catalogue reactions x alignment x dynamics, plus re-ordered parameter mappings) are pickled and loaded back in the same process and in a fresh interpreter; every attribute must be equal (==, structural digest incl. non-SymPy attributes, srepr, key order, doit digest) and model intensities identical on lattice events",
        "note": "pickle protocols 0/1 are refused by sympy; models with more than 24 (60) transitions not explored",
        "design": "3/C15",
    },
})

NOT_YET = "check not implemented yet at this commit (planned, see DESIGN.md section 7)"


def main() -> None:
    props = [json.loads(line) for line in (ROOT / "properties.jsonl").read_text().splitlines() if line.strip()]
    checks = []
    for pid, c in CHECKS.items():
        checks.append({
            "property_id": pid,
            "quick_cmd": f"./check {pid} --tier quick",
            "thorough_cmd": f"./check {pid} --tier thorough",
            "evidence_file": f"/verif/evidence/{pid}.json",
            "replay_cmd_template": f"./check {pid} --replay {{path}}",
            "engine": c["engine"],
            "level_claimed": {
                "category": c["category"],
                "text": c["text"],
                "design_ref": f"DESIGN.md section {c['design']}",
            },
            "level_note": c["note"],
            "technique": c["technique"],
        })
    for e in ENGINES:
        e["serves_properties"] = sorted(p for p, c in CHECKS.items() if c["engine"] == e["name"])
    manifest = {
        "version": 1,
        "setup_cmd": "/venv/bin/python -c \"import sys; sys.path.insert(0, '/repo/src'); import ampform, numpy, scipy, sympy, qrules, jsonschema\"",
        "hooks": {
            "guard": "AMPFORM_VERIF",
            "enable": "no source hooks are needed: checks import ampform from /repo/src (editable install) and intercept from outside; ./check exports AMPFORM_VERIF=1 for uniformity",
            "baseline_off_cmd": "cd /repo && /venv/bin/python -m pytest -ra -q -p no:cacheprovider --timeout=900 --continue-on-collection-errors",
            "source_commits": [],
            "add_only": True,
        },
        "engines": ENGINES,
        "checks": checks,
        "not_applicable": [
            {"property_id": p["id"], "reason": NOT_YET}
            for p in props
            if p["id"] not in CHECKS
        ],
        "notes": (
            "All checks are bounded exhaustive explorations (model checking family); known"
            " findings are listed in known_findings.txt, repairs are 'fix:' commits in /repo."
        ),
    }
    out = ROOT / "MANIFEST.json"
    out.write_text(json.dumps(manifest, indent=1) + "\n")
    import jsonschema

    jsonschema.validate(manifest, json.loads(Path("/root/.vp/MANIFEST.schema.json").read_text()))
    print(f"MANIFEST.json: {len(checks)} checks, {len(manifest['not_applicable'])} not_applicable; valid")


if __name__ == "__main__":
    main()
