#!/venv/bin/python
"""Regenerates /verif/MANIFEST.json from the table below and validates it."""

from __future__ import annotations

import json
from pathlib import Path

ROOT = Path(__file__).resolve().parent.parent

ENGINES = [
    {
        "name": "SHAPE",
        "path": "vp/core.py",
        "kind_free_text": (
            "bounded-exhaustive enumeration of input shapes / configurations, each run on"
            " the real ampform objects and compared with an independent reference model"
        ),
    },
    {
        "name": "SEQ",
        "path": "vp/core.py",
        "kind_free_text": (
            "explicit-state exploration of operation histories on real builder / cache"
            " objects (depth-bounded, with and without state merging)"
        ),
    },
    {
        "name": "SCHED",
        "path": "vp/sched.py",
        "kind_free_text": (
            "stateless exploration of all line-level interleavings (preemption-bounded)"
            " and crash points of perform_cached_doit under a baton scheduler"
        ),
    },
]

# id -> (engine, category, technique, level text, level note)
CHECKS: dict[str, dict] = {
    "C18": {
        "engine": "SHAPE",
        "category": "exploration",
        "technique": (
            "bounded-exhaustive enumeration of pool-sum ASTs x operations against a"
            " lexically scoped reference evaluator"
        ),
        "text": (
            "every sum of a small grammar (0..3/4 indices, 4 pools, nested and shadowed"
            " indices, colliding literals) x every operation of the statement is executed"
            " on the real PoolSum and compared with a plain-Python reference sum"
        ),
        "note": (
            "values compared numerically at one generic rational point with a concrete"
            " stand-in for the undefined function; bound = grammar depth 2 (3 thorough)"
        ),
        "design": "3/C18",
    },
}

CHECKS.update({
    "C19": {
        "engine": "SHAPE", "category": "exploration",
        "technique": "bounded-exhaustive enumeration of index tuples x mass configurations x Dalitz lattice against a four-momentum reference geometry",
        "text": "all 64 zeta triples, all theta-hat / theta_ij pairs, 16 mass configurations (every special role given to every child), interior grid plus geometric boundary approaches; library expressions (doit+lambdify, mpmath where doubles are ill-conditioned) compared with angles computed from explicitly constructed events and with the identities of the statement (81 chain-rule instances)",
        "note": "real numbers off the lattice are not covered; one global orientation sign per angle family is read from the first point (the statement does not fix the orientation)",
        "design": "3/C19",
    },
    "C20": {
        "engine": "SHAPE", "category": "exploration",
        "technique": "bounded-exhaustive enumeration of mass configurations x bounding-box grid x outside values against PDG Dalitz limits; exact-rational grid decides the Kallen identities",
        "text": "events from an independent momentum-triangle construction, 25x25 (120x120) bounding-box grid plus points hugging the PDG boundary from both sides, five outside values, both call paths; Kallen symmetry and factorisation on a 6^3 exact-rational grid that decides the degree-(2,2,2) polynomial identity",
        "note": "points closer to the boundary than the rounding band are not judged (<= vs < is not a violation); crossed-channel regions out of scope as in the statement",
        "design": "3/C20",
    },
})

NOT_YET = "check not implemented yet at this commit (planned, see DESIGN.md section 7)"


def main() -> None:
    props = [json.loads(line) for line in (ROOT / "properties.jsonl").read_text().splitlines() if line.strip()]
    checks = []
    for pid, c in CHECKS.items():
        checks.append({
            "property_id": pid,
            "quick_cmd": f"./check {pid} --tier quick",
            "thorough_cmd": f"./check {pid} --tier thorough",
            "evidence_file": f"/verif/evidence/{pid}.json",
            "replay_cmd_template": f"./check {pid} --replay {{path}}",
            "engine": c["engine"],
            "level_claimed": {
                "category": c["category"],
                "text": c["text"],
                "design_ref": f"DESIGN.md section {c['design']}",
            },
            "level_note": c["note"],
            "technique": c["technique"],
        })
    for e in ENGINES:
        e["serves_properties"] = sorted(p for p, c in CHECKS.items() if c["engine"] == e["name"])
    manifest = {
        "version": 1,
        "setup_cmd": "/venv/bin/python -c \"import sys; sys.path.insert(0, '/repo/src'); import ampform, numpy, scipy, sympy, qrules, jsonschema\"",
        "hooks": {
            "guard": "AMPFORM_VERIF",
            "enable": "no source hooks are needed: checks import ampform from /repo/src (editable install) and intercept from outside; ./check exports AMPFORM_VERIF=1 for uniformity",
            "baseline_off_cmd": "cd /repo && /venv/bin/python -m pytest -ra -q -p no:cacheprovider --timeout=900 --continue-on-collection-errors",
            "source_commits": [],
            "add_only": True,
        },
        "engines": ENGINES,
        "checks": checks,
        "not_applicable": [
            {"property_id": p["id"], "reason": NOT_YET}
            for p in props
            if p["id"] not in CHECKS
        ],
        "notes": (
            "All checks are bounded exhaustive explorations (model checking family); known"
            " findings are listed in known_findings.txt, repairs are 'fix:' commits in /repo."
        ),
    }
    out = ROOT / "MANIFEST.json"
    out.write_text(json.dumps(manifest, indent=1) + "\n")
    import jsonschema

    jsonschema.validate(manifest, json.loads(Path("/root/.vp/MANIFEST.schema.json").read_text()))
    print(f"MANIFEST.json: {len(checks)} checks, {len(manifest['not_applicable'])} not_applicable; valid")


if __name__ == "__main__":
    main()
