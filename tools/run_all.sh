#!/bin/sh
# usage: tools/run_all.sh [tier] [ids...]  -> one summary line per check
cd "$(dirname "$0")/.." || exit 2
TIER="${1:-quick}"; shift 2>/dev/null
IDS="${*:-$(/venv/bin/python -c "import json; print(' '.join(c['property_id'] for c in json.load(open('MANIFEST.json'))['checks']))")}"
for id in $IDS; do
  start=$(date +%s)
  out=$(./check "$id" --tier "$TIER" 2>&1); rc=$?
  end=$(date +%s)
  echo "$id rc=$rc $((end-start))s $(echo "$out" | grep -c '^VIOLATION') violations, $(echo "$out" | grep -c '^KNOWN-FINDING') known-finding lines | $(echo "$out" | tail -1 | cut -c1-150)"
done
