#!/venv/bin/python
"""usage: seed_meta.py <seed-id> needs="..." caught="C01:quick,C06:quick" missed="C03:quick(before ...)" note="..." checks="C01 C06" """
import json, sys
d = f"/verif/seeded/{sys.argv[1]}/meta.json"
m = json.load(open(d))
for arg in sys.argv[2:]:
    k, v = arg.split("=", 1)
    if k == "caught":
        m["caught_by"] = {x.split(":")[0]: x.split(":")[1] for x in v.split(",") if x}
    elif k == "checks":
        m["checks"] = v.split()
    else:
        m[k] = v
json.dump(m, open(d, "w"), indent=1)
print(d, "updated")
