#!/venv/bin/python
"""Prints the task text given to a seeding sub-agent: ONLY the property and its own
scratch worktree (nothing from /verif).  usage: seed_prompt.py <property id> <worktree>"""
import json
import sys

pid, wt = sys.argv[1], sys.argv[2]
avoid = sys.argv[3] if len(sys.argv) > 3 else ""
for line in open("/verif/properties.jsonl"):
    p = json.loads(line)
    if p["id"] == pid:
        break
print(f"""You are helping to evaluate a verification harness by SEEDING a realistic defect. You work ONLY inside the scratch git worktree {wt} (a checkout of the Python library ComPWA/ampform: symbolic SymPy amplitude models for particle physics built from qrules transitions). Do NOT read or write anything under /verif or /repo (you know nothing about the harness; that is the point), do not commit, do not touch other /tmp/seed-* directories, never kill processes you did not start and never delete files you did not create.

The library is supposed to satisfy this property:

TITLE: {p['title']}
STATEMENT: {p['statement']}
QUANTIFIER: {p['quantifier']['text']}
WHY THE EXISTING TESTS CANNOT SETTLE IT: {p['why_tests_cant']}
FILES INVOLVED: {', '.join(p['anchors']['files'])}
(The 'why' text describes the ORIGINAL upstream tree; defects it mentions as 'observed on the pinned tree' may already be repaired in your checkout. Check the behaviour of YOUR checkout.)

{("Changes of the following kinds were already contributed by someone else; do something DIFFERENT in mechanism and location: " + avoid + chr(10) + chr(10)) if avoid else ""}Your job: write TWO different, independent, realistic changes to the library source under {wt}/src (each a small patch a tired developer could plausibly make: a refactoring slip, a wrong index, a swapped argument, a cached value that should not be cached, an off-by-one, a sign, a forgotten case, a 'simplification') such that, for EACH change on its own:
 1. the library still imports and the repository's own test suite STILL PASSES exactly as before: run it with
      cd {wt} && PYTHONPATH={wt}/src /venv/bin/python -m pytest -q -p no:cacheprovider --timeout=900 --continue-on-collection-errors 2>&1 | tail -3
    The expected summary with or without your change is `302 passed, 13 skipped, 5 deselected, 8 errors` (the 8 errors are pre-existing fixture errors). It takes ~1 minute. Check first that `PYTHONPATH={wt}/src /venv/bin/python -c "import ampform; print(ampform.__file__)"` prints a path under {wt}.
 2. the property above is genuinely BROKEN by the change (not merely something adjacent to it), and
 3. the breakage needs something SPECIFIC to manifest — a particular spin combination, topology, configuration, unusual input, multi-step sequence of operations, a particular interleaving / crash point, or two cooperating sites that each look fine alone — NOT something that ordinary use or the simplest example would expose at once. Prefer subtle over blatant; prefer changes in different files/mechanisms for the two patches.

For each change write a small standalone demonstration program that exits 0 (prints PASS) on the unmodified library and exits 1 (prints FAIL and what it observed) with the change applied. Run it as `PYTHONPATH={wt}/src /venv/bin/python demoN.py`. The demo must test the PROPERTY (the behaviour), not the presence of your edit. qrules is installed (reactions can be generated with qrules.generate_transitions; it takes a few seconds) and numpy/scipy/sympy are available; no network.

Deliverables, in {wt}/out/ (create it):
  patch1.diff, demo1.py, patch2.diff, demo2.py  — each patch produced with `git -C {wt} diff > out/patchN.diff` from a tree that contains ONLY that change (use `git -C {wt} checkout -- src` between the two), and
  notes.md — for each change: what it breaks, what it needs in order to manifest, the exact commands you ran with their outcomes (test-suite summary line with the patch applied; demo result with and without the patch).
Leave the worktree source tree clean (no change applied) when you finish. If you cannot find a second change that passes the test suite, deliver one and say so. Final reply: a 10-line summary of the two changes and confirmation of the three conditions for each.""")
