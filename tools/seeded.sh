#!/bin/sh
# usage: tools/seeded.sh seeded/<id> [tier] [check ids...]
# Runs checks against a seeded change.  Default: on a scratch copy of /repo's working
# tree (VERIF_REPO), so that background runs against /repo are not disturbed; with
# SEEDED_INPLACE=1 the patch is applied to /repo itself (git -C /repo apply) and ALWAYS
# undone afterwards (git -C /repo checkout -- .).
cd "$(dirname "$0")/.." || exit 2
DIR="$1"; TIER="${2:-quick}"; shift 2 2>/dev/null
IDS="$*"
[ -f "$DIR/patch.diff" ] || { echo "no patch in $DIR"; exit 2; }
[ -z "$IDS" ] && IDS=$(/venv/bin/python -c "import json,sys; print(' '.join(json.load(open('$DIR/meta.json')).get('checks', [json.load(open('$DIR/meta.json'))['property']])))")
if [ -n "$SEEDED_INPLACE" ]; then
  [ -n "$(git -C /repo status --porcelain)" ] && { echo "/repo is not clean"; exit 2; }
  git -C /repo apply "$(pwd)/$DIR/patch.diff" || exit 2
  trap 'git -C /repo checkout -- . ; git -C /repo clean -fdq src' EXIT INT TERM
  TARGET=/repo
else
  TARGET=$(mktemp -d /tmp/seedrun.XXXXXX)
  trap 'rm -rf "$TARGET"' EXIT INT TERM
  git -C /repo archive HEAD src | tar -x -C "$TARGET" || exit 2
  (cd "$TARGET" && git init -q . && git apply "/verif/$DIR/patch.diff") || { echo "patch does not apply"; exit 2; }
fi
for id in $IDS; do
  out=$(VERIF_REPO="$TARGET" ./check "$id" --tier "$TIER" 2>&1); rc=$?
  echo "$DIR $id rc=$rc $(echo "$out" | grep -c '^VIOLATION') VIOLATION lines | $(echo "$out" | grep -A1 '^VIOLATION' | sed -n 2p | cut -c1-200)"
done
