#!/bin/sh
# usage: tools/seeded.sh seeded/<id> [tier] [check ids...]
# Applies the seeded patch to /repo, runs the checks, and ALWAYS undoes the patch.
cd "$(dirname "$0")/.." || exit 2
DIR="$1"; TIER="${2:-quick}"; shift 2 2>/dev/null
IDS="$*"
[ -f "$DIR/patch.diff" ] || { echo "no patch in $DIR"; exit 2; }
[ -n "$(git -C /repo status --porcelain)" ] && { echo "/repo is not clean"; exit 2; }
[ -z "$IDS" ] && IDS=$(/venv/bin/python -c "import json,sys; print(' '.join(json.load(open('$DIR/meta.json')).get('checks', [json.load(open('$DIR/meta.json'))['property']])))")
git -C /repo apply "$(pwd)/$DIR/patch.diff" || exit 2
trap 'git -C /repo checkout -- . ; git -C /repo clean -fdq src' EXIT INT TERM
for id in $IDS; do
  out=$(./check "$id" --tier "$TIER" 2>&1); rc=$?
  echo "$DIR $id rc=$rc $(echo "$out" | grep -c '^VIOLATION') VIOLATION lines | $(echo "$out" | grep -A1 '^VIOLATION' | sed -n 2p | cut -c1-200)"
done
