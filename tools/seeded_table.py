#!/venv/bin/python
"""Prints the markdown table of seeded changes (from seeded/*/meta.json) for DESIGN.md section 8."""
import json
from pathlib import Path

rows = []
for d in sorted(Path("/verif/seeded").iterdir()):
    m = d / "meta.json"
    if not m.exists():
        continue
    meta = json.loads(m.read_text())
    caught = ", ".join(f"{k} ({v})" for k, v in meta.get("caught_by", {}).items()) or "—"
    rows.append(f"| `{d.name}` | {meta['property']} | {meta.get('needs', '')} | {caught} | {meta.get('note', '')} |")
print("| seeded change | breaks | needs in order to manifest | caught by | note |")
print("|---|---|---|---|---|")
print("\n".join(rows))
