#!/bin/sh
# Every registered check must stay silent (exit 0, no VIOLATION line) on the unchanged
# tree for several VERIF_SEED values, each from a fresh process.
# usage: tools/seeds_silence.sh [tier] [seeds...]      (default: quick, seeds 0..5)
cd "$(dirname "$0")/.." || exit 2
TIER="${1:-quick}"; shift 2>/dev/null
SEEDS="${*:-0 1 2 3 4 5}"
IDS=$(/venv/bin/python -c "import json; print(' '.join(c['property_id'] for c in json.load(open('MANIFEST.json'))['checks']))")
bad=0
for seed in $SEEDS; do
  for id in $IDS; do
    out=$(VERIF_SEED=$seed ./check "$id" --tier "$TIER" 2>&1); rc=$?
    nv=$(echo "$out" | grep -c '^VIOLATION')
    if [ "$rc" != 0 ] || [ "$nv" != 0 ]; then bad=1; echo "seed=$seed $id rc=$rc violations=$nv  <-- NOT SILENT"; else echo "seed=$seed $id ok"; fi
  done
done
exit $bad
