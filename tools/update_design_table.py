#!/venv/bin/python
"""Replaces the table of seeded changes in DESIGN.md §8 by the output of seeded_table.py."""
import re
import subprocess

table = subprocess.run(["/verif/tools/seeded_table.py"], capture_output=True, text=True, check=True).stdout.strip()
src = open("/verif/DESIGN.md").read()
start = src.index("| seeded change | breaks |")
end = src.index("\nEvery confirmed seeded change (")
n = table.count("\n") - 1
new = src[:start] + table + "\n" + src[end:]
new = re.sub(r"Every confirmed seeded change \(\d+\)", f"Every confirmed seeded change ({n})", new)
open("/verif/DESIGN.md", "w").write(new)
print("seeds:", n)
