"""Worker of check C16: runs the engines SEQ, SCHED, CRASH, PAIRS in ONE hash-seed mode.

Started by vp/checks/c16.py as ``python -m vp.c16_worker`` with PYTHONHASHSEED unset, "0"
or "1" in the environment; reads one JSON job from stdin, prints one line
``C16-RESULT <json>``.  Inside, a fork pool spreads states / configurations over
``procs`` processes (forked children share the interpreter's hash seed, so hash() and
with it the cache keys agree in all of them).

Everything the harness knows about the implementation is *learnt by observation*:

* the traced source files come from the imported modules (vp.sched.traced_files);
* the "entry file(s)" of an expression are whatever a solo call on an empty directory
  leaves behind (no knowledge of the key function, of the suffix, or of how the file is
  written);
* scheduling / crash points are whatever source lines get executed.
"""

from __future__ import annotations

import collections
import hashlib
import json
import multiprocessing as mp
import os
import pickle
import shutil
import sys
import tempfile
import traceback

from vp import core
from vp.core import HarnessError
from vp.sched import Baton, crash_points, explore, traced_files

W = None  # the per-process world (set before the pool forks)

JUNK = {
    "junk": b"this is not a pickle\n",
    # well-formed pickle streams that cannot be loaded (class moved / module gone, as
    # after an upgrade): raise ModuleNotFoundError / AttributeError, not UnpicklingError
    "junk-import": b"cno_such_module_c16\nNoSuchClass\n.",
    "junk-attr": b"csympy\nNoSuchNameC16\n.",
    # well-formed streams whose reconstruction fails with an arbitrary exception (a class
    # whose constructor changed its signature, a corrupted argument): ValueError / TypeError
    "junk-value": b"cbuiltins\nint\n(S'notanint'\ntR.",
    "junk-type": b"cbuiltins\nint\n(I1\nI2\nI3\ntR.",
}
# contents of pre-seeded entry files in SEQ (both tiers; every byte prefix is enumerated
# by CRASH, the second kind of unloadable pickle is a start directory of SCHED/CRASH)
SEED_KINDS = ["empty", "torn:half", "junk-import", "junk-value"]
DEPTH = {"quick": 3, "thorough": 4}
BOUND = {"quick": 1, "thorough": 2}
START_KINDS = {
    "quick": ["empty", "warm", "torn"],
    "thorough": ["empty", "warm", "torn", "unloadable"],
}
REPLAY_SAMPLE_EVERY = 10


# ======================================================================= world
class World:
    def __init__(self, mode: str, tier: str, seed: int) -> None:
        import sympy as sp  # noqa: PLC0415

        import ampform.sympy as asp  # noqa: PLC0415
        from vp.checks.c16 import build_alphabet, build_extras  # noqa: PLC0415

        env = os.environ.get("PYTHONHASHSEED")
        if (mode == "unset") != (env is None) or (env is not None and env != mode):
            msg = f"worker for hash-seed mode {mode!r} runs with PYTHONHASHSEED={env!r}"
            raise HarnessError(msg)
        self.mode, self.tier, self.seed = mode, tier, seed
        self.sp = sp
        self.fn = asp.perform_cached_doit
        alphabet = build_alphabet()
        self.n_core = len(alphabet)  # e1..e6: all engines; the extras: engine PAIRS only
        alphabet = alphabet + build_extras()
        self.names = [n for n, _ in alphabet]
        self.index = {n: i for i, n in enumerate(self.names)}
        self.exprs = [e for _, e in alphabet]
        self.strs = [str(e) for e in self.exprs]
        self.ref = [e.doit() for e in self.exprs]  # the oracle: unfolding WITHOUT the cache
        self.ref_srepr = [sp.srepr(r) for r in self.ref]
        self.partner: dict[int, int] = {}
        for k, e in enumerate(self.exprs):
            for j, f in enumerate(self.exprs):
                if j != k and self.strs[j] == self.strs[k] and e != f:
                    self.partner[k] = j
        # different expressions with the same Python hash (only meaningful when the seed
        # is fixed; evaluated by the harness on the inputs)
        self.same_hash: dict[int, list[int]] = {
            k: [j for j, f in enumerate(self.exprs) if j != k and e != f and hash(e) == hash(f)]
            for k, e in enumerate(self.exprs)
        }
        # the alphabet must be what RULE says it is (else the exploration is vacuous)
        if {k: j for k, j in self.partner.items() if k < self.n_core} != {0: 1, 1: 0, 2: 3, 3: 2}:
            msg = f"alphabet has no longer the intended colliding pairs: {self.partner}"
            raise HarnessError(msg)
        for k, j in self.partner.items():
            if self.ref[k] == self.ref[j]:
                msg = f"{self.names[k]} and {self.names[j]} unfold to the same expression"
                raise HarnessError(msg)
        self.files = traced_files()
        self.base = tempfile.mkdtemp(prefix="c16-", dir=_scratch_root())
        self.entry: list[dict[str, bytes]] = []
        self.entry_names: set[str] = set()
        self._unreadable: dict[str, bool] = {}
        self._srepr: dict[bytes, str] = {}

    # -- directories ------------------------------------------------------------
    def fresh(self, state: dict) -> str:
        d = tempfile.mkdtemp(dir=self.base)
        for name, content in state.items():
            path = os.path.join(d, name)
            if os.sep in name:
                os.makedirs(os.path.dirname(path), exist_ok=True)
            with open(path, "wb") as f:
                f.write(content)
        return d

    @staticmethod
    def snapshot(d: str) -> dict:
        """The directory as the operating system sees it right now."""
        out = {}
        stack = [d]
        while stack:
            cur = stack.pop()
            try:
                entries = list(os.scandir(cur))
            except FileNotFoundError:
                continue
            for ent in entries:
                if ent.is_dir(follow_symlinks=False):
                    stack.append(ent.path)
                    continue
                try:
                    with open(ent.path, "rb") as f:
                        out[os.path.relpath(ent.path, d)] = f.read()
                except FileNotFoundError:
                    pass  # renamed away between scandir and open (cannot happen when parked)
        return out

    @staticmethod
    def remove(d: str) -> None:
        shutil.rmtree(d, ignore_errors=True)

    # -- the operation under test -----------------------------------------------
    def call(self, k: int, d: str):
        try:
            return ("ok", self.fn(self.exprs[k], d))
        except Exception as exc:  # noqa: BLE001  (judged: nothing may escape)
            return ("exc", exc)

    def learn(self) -> None:
        """Entry files of every expression + warm-up of warn-once caches."""
        for k in range(len(self.exprs)):
            d = self.fresh({})
            self.call(k, d)
            listing = self.snapshot(d)
            self.call(k, d)  # warm read path
            self.remove(d)
            self.entry.append(listing)
            self.entry_names.update(listing)

    def same_key(self, a: int, b: int) -> bool:
        return bool(set(self.entry[a]) & set(self.entry[b]))

    # -- canonical state --------------------------------------------------------
    def canon(self, state: dict) -> str:
        # Equal listings have equal futures: perform_cached_doit reads nothing but the
        # expression, the hash-seed mode (fixed per worker) and the directory (names and
        # bytes); it keeps no state of its own between calls (the functools.cache in
        # _cache.py only suppresses a repeated log message, SymPy's cache is semantically
        # transparent).  Files whose name is not an entry name of the alphabet (temporary
        # files of a crashed writer, whatever naming scheme a repair uses: pid, random,
        # counter) are kept with their content digest but without their name, so that the
        # number of states does not depend on such a scheme.
        items = sorted(
            (name if name in self.entry_names else "*", _digest(content))
            for name, content in state.items()
        )
        return hashlib.blake2b(repr(items).encode(), digest_size=12).hexdigest()

    def unreadable(self, content: bytes) -> bool:
        """Harness-side witness predicate: not a complete loadable pickle."""
        key = _digest(content) + str(len(content))
        hit = self._unreadable.get(key)
        if hit is None:
            try:
                pickle.loads(content)  # noqa: S301  (our own bytes)
                hit = False
            except Exception:  # noqa: BLE001
                hit = True
            self._unreadable[key] = hit
        return hit

    def describe(self, state: dict) -> list:
        out = []
        for name in sorted(state):
            content = state[name]
            owners = [self.names[k] for k in range(len(self.exprs)) if name in self.entry[k]]
            valid_of = [
                self.names[k] for k in range(len(self.exprs))
                if self.entry[k].get(name) == content
            ]
            out.append({
                "file": name if name in self.entry_names else "<other>",
                "entry_of": owners,
                "bytes": len(content),
                "content": (
                    f"valid pickle of {'/'.join(valid_of)}" if valid_of
                    else "unreadable" if self.unreadable(content) else "loadable"
                ),
            })
        return out

    # -- oracle -------------------------------------------------------------------
    def judge(self, k: int, res) -> dict | None:
        kind, val = res
        if kind == "exc":
            tb = traceback.extract_tb(val.__traceback__)
            lib = [f for f in tb if f.filename in self.files]
            where = lib[-1] if lib else (tb[-1] if tb else None)
            return {
                "symptom": f"exception:{type(val).__name__}",
                "text": f"raised {type(val).__name__}: {_scrub(str(val))[:120]}",
                "where": (
                    f"{os.path.basename(where.filename)}:{where.lineno} in {where.name}"
                    if where else "?"
                ),
            }
        try:
            ok = bool(val == self.ref[k]) and self.srepr(val) == self.ref_srepr[k]
        except Exception:  # noqa: BLE001
            ok = False
        if ok:
            return None
        j = self.partner.get(k)
        if val is None:
            symptom = "wrong:None"
        elif j is not None and val == self.ref[j] and self.srepr(val) == self.ref_srepr[j]:
            symptom = "wrong:partner-unfolding"
        elif val == self.exprs[k]:
            symptom = "wrong:not-unfolded"
        else:
            symptom = "wrong:other"
            for i, r in enumerate(self.ref):
                if i != k and val == r and self.srepr(val) == self.ref_srepr[i]:
                    symptom = f"wrong:unfolding-of-{self.names[i]}"
                    break
        return {
            "symptom": symptom,
            "text": f"returned {str(val)[:90]} [{type(val).__name__}], expected {str(self.ref[k])[:90]}",
            "where": "return value",
        }

    def srepr(self, val) -> str:
        """srepr, memoised on the pickle of the value (identical bytes, identical object)."""
        try:
            key = pickle.dumps(val)
        except Exception:  # noqa: BLE001
            return self.sp.srepr(val)
        hit = self._srepr.get(key)
        if hit is None:
            hit = self._srepr[key] = self.sp.srepr(val)
        return hit

    def tags(self, k, symptom, start_state, earlier_exprs, crash_same_key, preempt_in_window):
        """Witness predicates over the failing INPUT (mode, history/schedule, directory)."""
        tags = []
        j = self.partner.get(k)
        # (a) hash-seed unset AND the history/schedule contains the other expression with
        # the same str; restricted to the symptom "the partner's unfolding is served" so
        # that nothing else is hidden in that region
        if (
            self.mode == "unset" and j is not None and j in earlier_exprs
            and symptom == "wrong:partner-unfolding"
        ):
            tags.append("str-hash-collision")
            # finer predicate (what the two expressions differ in), should only one kind
            # of collision be repaired: e1/e2 symbol assumptions, e3/e4 non-SymPy attribute
            tags.append(
                "str-hash-collision:symbol-assumptions" if k in (0, 1)
                else "str-hash-collision:non-sympy-attribute"
            )
        # (d) fixed hash seed AND the history contains a different expression with the same
        # Python hash, whose unfolding is what came back
        if self.mode != "unset":
            for i in self.same_hash.get(k, []):
                if i in earlier_exprs and symptom == f"wrong:unfolding-of-{self.names[i]}":
                    tags.append("python-hash-collision")
                    break
        # (b) the directory the failing call started from holds an entry file for this
        # expression that is not a complete loadable pickle
        bad = any(
            name in start_state and self.unreadable(start_state[name])
            for name in self.entry[k]
        )
        if bad:
            tags.append("unreadable-cache-file")
        # (c) same-key callers with a preemption while the entry file is incomplete, or a
        # crash snapshot (same key) that left such a file
        if preempt_in_window or (bad and crash_same_key):
            tags.append("concurrent-partial-file")
        return tags

    def seed_content(self, k: int, name: str, kind: str) -> bytes:
        valid = self.entry[k][name]
        if kind == "empty":
            return b""
        if kind.startswith("torn:"):
            n = {"1": 1, "half": len(valid) // 2, "last": len(valid) - 1}[kind[5:]]
            return valid[:n]
        if kind == "partner":
            return self.entry[self.partner[k]][name]
        return JUNK[kind]


def _scratch_root() -> str | None:
    """Where the per-execution directories live: a memory-backed file system if there is
    one (directory creation/removal on a journalled disk costs milliseconds and
    serialises the workers), else the default of tempfile.  Both are real kernel file
    systems; VERIF_C16_TMP overrides."""
    override = os.environ.get("VERIF_C16_TMP")
    if override:
        return override
    shm = "/dev/shm"
    if os.path.isdir(shm) and os.access(shm, os.W_OK | os.X_OK):
        return shm
    return None


def _digest(content: bytes) -> str:
    return hashlib.blake2b(content, digest_size=8).hexdigest()


def _scrub(text: str) -> str:
    base = W.base if W is not None else None
    if base and base in text:
        head, _, tail = text.partition(base)
        rest = tail.split("/", 2)
        text = head + "<dir>/" + (rest[2] if len(rest) > 2 else "")
    return text


def _violation(engine, k, verdict, tags, case, how, detail):
    msg = (
        f"[hash-seed {W.mode}] {engine}: perform_cached_doit({W.names[k]}) {verdict['text']}"
        f" ({how})"
    )
    det = {"where": verdict["where"], "symptom": verdict["symptom"], "expr": W.strs[k]}
    det.update(detail)
    return {
        "msg": msg, "tags": tags, "detail": det, "case": case,
        "sig": json.dumps([engine, tags, W.names[k], verdict["symptom"]]),
    }


class Tally:
    """Counters of one task (all plain ints / Counters, merged in a fixed order)."""

    def __init__(self) -> None:
        self.c: collections.Counter = collections.Counter()
        self.outcomes: collections.Counter = collections.Counter()
        self.violations: list = []
        self.samples: list = []

    def verdict(self, verdict) -> None:
        self.c["evaluations"] += 1
        self.outcomes["ok" if verdict is None else verdict["symptom"]] += 1

    def export(self) -> dict:
        """Violations leave a task already grouped by signature (first witness + count)."""
        grouped: dict = {}
        for v in self.violations:
            hit = grouped.get(v["sig"])
            if hit is None:
                grouped[v["sig"]] = dict(v, count=v.get("count", 1))
            else:
                hit["count"] += v.get("count", 1)
        return {"c": dict(self.c), "outcomes": dict(self.outcomes),
                "violations": list(grouped.values()), "samples": self.samples}


# ================================================================== engine SEQ
def _op_exprs(op) -> set:
    """Expressions (indices) that an operation brings into the history."""
    k = W.index[op[1]]
    if op[0] == "seed":
        return {W.partner[k]} if op[3] == "partner" else set()
    return {k}


def _history_info(history):
    exprs, crashed = set(), []
    for op in history:
        exprs |= _op_exprs(op)
        if op[0] == "crash":
            crashed.append(W.index[op[1]])
    return exprs, crashed


def _fmt_history(history) -> str:
    def one(op):
        if op[0] == "seed":
            return f"seed({op[1]},{op[3]})"
        if op[0] == "crash":
            return f"crash({op[1]}@{op[2]})"
        return f"call({op[1]})"

    return "[" + ", ".join(one(op) for op in history) + "]"


def seq_note(tally, k, res, state, history, op, traced, engine="SEQ"):
    verdict = W.judge(k, res)
    tally.verdict(verdict)
    if state and not traced:
        tally.c["nontrivial"] += 1
    if verdict is None:
        return "ok"
    exprs, crashed = _history_info(history)
    tags = W.tags(
        k, verdict["symptom"], state, exprs,
        any(W.same_key(c, k) for c in crashed), False,
    )
    full = [*history, op]
    used = {o[1] for o in full}
    tally.violations.append(_violation(
        engine, k, verdict, tags,
        {"engine": "seq", "mode": W.mode, "history": full,
         "expressions": {n: s for n, s in zip(W.names, W.strs) if n in used}},
        f"last operation of history {_fmt_history(full)}",
        {"directory_before_failing_call": W.describe(state)},
    ))
    return verdict["symptom"]


def seq_ops_seed(tier):
    ops = []
    for k, name_k in enumerate(W.names[: W.n_core]):
        for fi, fname in enumerate(sorted(W.entry[k])):
            kinds = list(SEED_KINDS)
            j = W.partner.get(k)
            # a valid pickle of ANOTHER expression under this key: only where a real
            # collision produces it (same entry file name in this hash-seed mode)
            if j is not None and fname in W.entry[j]:
                kinds.append("partner")
            for kind in kinds:
                ops.append((["seed", name_k, fi, kind], k, fname))
    return ops


def seq_expand(task):
    """All operations from one state (a pool task)."""
    state, history, closing = task
    tally = Tally()
    succ: dict = {}

    def add(op, new_state):
        # successors travel back to the parent as deltas against `state` (None for a
        # pre-seed: the parent recomputes the content from the operation)
        tally.c["seq_transitions"] += 1
        key = W.canon(new_state)
        if key not in succ:
            if op[0] == "seed":
                succ[key] = (op, None)
            else:
                changed = {n: c for n, c in new_state.items() if state.get(n) != c}
                removed = [n for n in state if n not in new_state]
                succ[key] = (op, (changed, removed))

    n = W.n_core
    plain = []
    for k in range(n):
        d = W.fresh(state)
        res = W.call(k, d)
        after = W.snapshot(d)
        W.remove(d)
        tally.c["executions"] += 1
        op = ["call", W.names[k]]
        plain.append((seq_note(tally, k, res, state, history, op, False), W.canon(after)))
        if closing:
            tally.c["seq_transitions"] += 1
        else:
            add(op, after)
    if closing:
        return tally.export(), []
    seeds = seq_ops_seed(W.tier)
    for op, k, fname in seeds:
        new_state = dict(state)
        new_state[fname] = W.seed_content(k, fname, op[3])
        add(op, new_state)
    tally.c["foreign_valid_pickle_preseeds_not_judged"] += n * (n - 1) - sum(
        1 for op, _, _ in seeds if op[3] == "partner"
    )
    for k in range(n):
        d = W.fresh(state)
        ex, snaps = crash_points(lambda k=k, d=d: W.fn(W.exprs[k], d), W.files,
                                 lambda d=d: W.snapshot(d))
        final = W.snapshot(d)
        W.remove(d)
        tally.c["executions"] += 1
        tally.c["seq_crash_points"] += len(snaps)
        res = ex.results[0]
        res = res if res[0] == "ok" or isinstance(res[1], Exception) else _reraise(res[1])
        traced = seq_note(tally, k, res, state, history, ["call", W.names[k]], True)
        # the same call with and without the trace hook must be indistinguishable
        if (traced, W.canon(final)) != plain[k]:
            msg = (
                f"tracing changes the behaviour of call({W.names[k]}) after"
                f" {_fmt_history(history)}: {plain[k]} untraced, {(traced, W.canon(final))} traced"
            )
            raise HarnessError(msg)
        for p, snap in enumerate(snaps):
            add(["crash", W.names[k], p], snap)
    if len(tally.samples) == 0 and len(history) == 2:
        tally.samples.append({
            "engine": "SEQ", "hash_seed": W.mode, "history": _fmt_history(history),
            "state": W.describe(state), "successor_states": len(succ),
        })
    return tally.export(), [(key, op, delta) for key, (op, delta) in succ.items()]


def seq_apply_delta(state, op, delta):
    new_state = dict(state)
    if delta is None:
        k = W.index[op[1]]
        fname = sorted(W.entry[k])[op[2]]
        new_state[fname] = W.seed_content(k, fname, op[3])
    else:
        changed, removed = delta
        new_state.update(changed)
        for n in removed:
            del new_state[n]
    return new_state


def _reraise(exc):
    raise exc  # BaseException that is not an Exception (KeyboardInterrupt, SystemExit)


def run_seq(pool, tally_total, summary):
    depth_bound = DEPTH[W.tier]
    root: dict = {}
    seen = {W.canon(root)}
    frontier = [(root, [])]
    states = 1
    transitions = 0
    per_depth = []
    for depth in range(depth_bound + 1):
        closing = depth == depth_bound
        tasks = [(st, hist, closing) for st, hist in frontier]
        chunk = max(1, min(64, len(tasks) // (pool_size() * 6) or 1))
        nxt = []
        for (st, hist, _), (res, succ) in zip(tasks, _imap(pool, seq_expand, tasks, chunk)):
            merge(tally_total, res)
            for key, op, delta in succ:
                if key not in seen:
                    seen.add(key)
                    nxt.append((seq_apply_delta(st, op, delta), [*hist, op]))
        per_depth.append(len(frontier))
        _phase(f"seq depth {depth}: {len(frontier)} states expanded")
        if not closing:
            states += len(nxt)
        frontier = nxt
    transitions = tally_total.c["seq_transitions"]
    summary["seq"] = {
        "depth": depth_bound, "states": states, "states_per_depth": per_depth,
        "transitions": transitions,
        "crash_points_as_transitions": tally_total.c["seq_crash_points"],
    }
    return states, transitions


# ================================================================ engine PAIRS
def pairs_task(a):
    """Histories [call a, call b, call a] on an empty directory, for every b != a of the
    extended catalogue (replayable as SEQ histories)."""
    tally = Tally()
    for b in range(len(W.exprs)):
        if b == a:
            continue
        d = W.fresh({})
        history: list = []
        try:
            for q in (a, b, a):
                before = W.snapshot(d)
                res = W.call(q, d)
                op = ["call", W.names[q]]
                seq_note(tally, q, res, before, history, op, False, "PAIRS")
                history.append(op)
                tally.c["executions"] += 1
                tally.c["pairs_transitions"] += 1
        finally:
            W.remove(d)
        tally.c["pairs_histories"] += 1
    if a == len(W.exprs) - 3:
        tally.samples.append({
            "engine": "PAIRS", "hash_seed": W.mode,
            "history": _fmt_history([["call", W.names[a]], ["call", W.names[a + 1]],
                                     ["call", W.names[a]]]),
            "expressions": {W.names[a]: W.strs[a], W.names[a + 1]: W.strs[a + 1]},
            "equal_python_hash": (a + 1) in W.same_hash[a],
        })
    return tally.export()


# ================================================================ engine TEMP
TEMP_INSTANCES = 300
TEMP_ATTEMPTS = 3000


def _fresh_instance(k: int):
    """A new object equal to expression k (no SymPy constructor cache is involved for the
    library's classes; Rotation.D etc. may hand back the cached object, which is fine)."""
    return pickle.loads(pickle.dumps(W.exprs[k]))  # noqa: S301


def temp_pair(tally, a: int, b: int) -> None:
    """One history over TEMPORARY objects: TEMP_INSTANCES separately built instances of
    expression a are passed to perform_cached_doit and dropped; expression b is then built
    until CPython hands out the address of a collected instance (the environment answer a
    long-lived session produces sooner or later) and passed in, followed by a fresh b and
    a fresh a.  Every call must return the unfolding of ITS expression."""
    import gc  # noqa: PLC0415

    case = {"engine": "temp", "mode": W.mode, "pair": [W.names[a], W.names[b]]}
    d = W.fresh({})

    def call(k, obj, label):
        before = W.snapshot(d)
        try:
            res = ("ok", W.fn(obj, d))
        except Exception as exc:  # noqa: BLE001
            res = ("exc", exc)
        verdict = W.judge(k, res)
        tally.verdict(verdict)
        tally.c["executions"] += 1
        tally.c["nontrivial"] += 1
        tally.c["temp_transitions"] += 1
        if verdict is not None:
            earlier = {a, b} - {k}
            tags = W.tags(k, verdict["symptom"], before, earlier, False, False)
            tally.violations.append(_violation(
                "TEMP", k, verdict, [*tags, "temporary-objects"], case,
                f"{label} in history [{TEMP_INSTANCES} x call(temporary {W.names[a]}), collect,"
                f" call(temporary {W.names[b]} at a re-used address), call(temporary {W.names[b]}),"
                f" call(temporary {W.names[a]})]",
                {"directory_before_failing_call": W.describe(before)}))

    try:
        instances = [_fresh_instance(a) for _ in range(TEMP_INSTANCES)]
        addresses = {id(x) for x in instances}
        for n, x in enumerate(instances):
            call(a, x, f"call {n + 1} with an instance of {W.names[a]}")
        del instances, x
        gc.collect()
        rejected = []
        reused = False
        for _ in range(TEMP_ATTEMPTS):
            y = _fresh_instance(b)
            if id(y) in addresses:
                reused = True
                break
            rejected.append(y)
        del rejected
        tally.outcomes["TEMP:address-reused" if reused else "TEMP:no-address-reuse(inconclusive)"] += 1
        call(b, y, f"call with {W.names[b]} at the address of a collected {W.names[a]}")
        call(b, _fresh_instance(b), f"second call with {W.names[b]}")
        call(a, _fresh_instance(a), f"last call with {W.names[a]}")
        del y
    finally:
        W.remove(d)
    tally.c["temp_histories"] += 1


def temp_task(a):
    tally = Tally()
    for b in range(W.n_core):
        if b != a:
            temp_pair(tally, a, b)
    return tally.export()


# ================================================================ engine SCHED
def start_state(kind: str, a: int, b: int) -> dict:
    if kind == "empty":
        return {}
    if kind == "warm":  # what solo calls of a, then b leave behind (executed, not assumed)
        d = W.fresh({})
        W.call(a, d)
        W.call(b, d)
        st = W.snapshot(d)
        W.remove(d)
        return st
    if kind == "torn":  # the entry of the first caller is a torn write
        return {name: content[: len(content) // 2] for name, content in W.entry[a].items()}
    if kind == "unloadable":  # ... is a well-formed pickle whose class no longer exists
        return {name: JUNK["junk-attr"] for name in W.entry[a]}
    raise HarnessError(kind)


def sched_run(a, b, start, choices, observe):
    d = W.fresh(start)
    obs = None
    if observe:
        names = set(W.entry[a]) | set(W.entry[b])

        def obs(step, nxt):  # noqa: ARG001
            # entry files that are incomplete right now BECAUSE OF THIS EXECUTION (a file
            # that was already unreadable in the start directory is not a write window)
            snap = W.snapshot(d)
            return sorted(
                n for n in names
                if n in snap and snap[n] != start.get(n) and W.unreadable(snap[n])
            )

    bodies = [lambda: W.fn(W.exprs[a], d), lambda: W.fn(W.exprs[b], d)]
    try:
        ex = Baton(bodies, choices, W.files, observe=obs).run()
        ex.final = W.snapshot(d)
    finally:
        W.remove(d)
    for r in ex.results:
        if r[0] == "exc" and not isinstance(r[1], Exception):
            raise r[1]
    return ex


def sched_observation(a, b, ex) -> str:
    """What must be identical when a schedule is executed again."""
    verdicts = []
    for k, r in zip((a, b), ex.results):
        v = W.judge(k, r)
        verdicts.append("ok" if v is None else v["symptom"])
    blob = repr((ex.events, ex.threads, verdicts, W.canon(ex.final)))
    return hashlib.sha256(blob.encode()).hexdigest()[:16]


def sched_judge(tally, a, b, kind, start, ex):
    """Oracle on one execution; failing schedules are re-executed twice with observation."""
    verdicts = [W.judge(k, r) for k, r in zip((a, b), ex.results)]
    for v in verdicts:
        tally.verdict(v)
    if ex.preemptions or start:
        tally.c["nontrivial"] += 2
    if all(v is None for v in verdicts):
        return
    first = sched_observation(a, b, ex)
    replays = [sched_run(a, b, start, ex.choices, True) for _ in range(2)]
    tally.c["sched_replays_of_failing_schedules"] += 2
    for rep in replays:
        if sched_observation(a, b, rep) != first:
            msg = (
                f"schedule {ex.choices} of ({W.names[a]},{W.names[b]}) on {kind} directory is"
                " not reproducible: observations differ between two executions"
            )
            raise HarnessError(msg)
    rep = replays[0]
    for t, (k, v) in enumerate(zip((a, b), verdicts)):
        if v is None:
            continue
        mine = set(W.entry[k])
        in_window = W.same_key(a, b) and any(
            pre and (mine & set(unread))
            for pre, unread in zip(rep.preemptive, rep.observations)
        )
        other = b if t == 0 else a
        tags = W.tags(k, v["symptom"], start, {other}, False, in_window)
        switches = [i for i, p in enumerate(rep.preemptive) if p]
        case = {
            "engine": "sched", "mode": W.mode, "pair": [W.names[a], W.names[b]],
            "start": kind, "choices": list(ex.choices),
            "expressions": {W.names[a]: W.strs[a], W.names[b]: W.strs[b]},
        }
        tally.violations.append(_violation(
            "SCHED", k, v, tags, case,
            f"caller {t} of ({W.names[a]} || {W.names[b]}) on {kind} directory,"
            f" {rep.preemptions} preemption(s) at step(s) {switches} of {len(rep.choices)}",
            {
                "preempted_before": [list(rep.events[i - 1]) if i else None for i in switches],
                "incomplete_entry_files_at_preemptions": [rep.observations[i] for i in switches],
                "directory_at_start": W.describe(start),
            },
        ))


def sched_config(task):
    a, b, kind, bound, part, parts = task
    tally = Tally()
    start = start_state(kind, a, b)
    schedules = []
    longest = 0
    for _idx, ex in explore(lambda ch: sched_run(a, b, start, ch, False), bound, part, parts):
        tally.c["executions"] += 1
        tally.c["sched_executions"] += 1
        tally.c["sched_steps"] += len(ex.events)
        tally.c[f"sched_executions_{ex.preemptions}_preemptions"] += 1
        longest = max(longest, len(ex.events))
        schedules.append((list(ex.choices), sched_observation(a, b, ex)))
        sched_judge(tally, a, b, kind, start, ex)
    # replay-determinism self-check on a seed-selected sample (same size for every seed)
    n = len(schedules)
    every = REPLAY_SAMPLE_EVERY
    picks = (
        [i for i in range(n - n % every) if i % every == W.seed % every] if n >= every
        else [W.seed % n] if n else []
    )
    for i in picks:
        choices, first = schedules[i]
        for _ in range(2):
            rep = sched_run(a, b, start, choices, False)
            tally.c["sched_replay_selfchecks"] += 1
            if sched_observation(a, b, rep) != first:
                msg = (
                    f"schedule #{i} {choices} of ({W.names[a]},{W.names[b]}) on {kind}"
                    " directory is not reproducible"
                )
                raise HarnessError(msg)
    if kind == "empty" and a == b and part == 0:
        ch, _ = schedules[min(3, n - 1)]
        tally.samples.append({
            "engine": "SCHED", "hash_seed": W.mode, "callers": [W.names[a], W.names[b]],
            "directory": kind, "steps": len(ch),
            "schedule": "choice per step (index into [running thread, others by id]); "
                        "non-zero choices at steps " + str([i for i, c in enumerate(ch) if c]),
        })
    out = tally.export()
    out["config"] = {"pair": [W.names[a], W.names[b]], "start": kind, "bound": bound,
                     "schedules": n, "longest_schedule_steps": longest, "slices": parts}
    return out


def sched_tasks():
    pairs = [(0, 0), (2, 2), (0, 1), (2, 3), (0, 4), (2, 5)]
    bound = BOUND[W.tier]
    # the same-expression pair (e1 || e1) gets one preemption more than the tier's bound
    # in quick (races that need two switches, e.g. both callers discarding a torn entry)
    tasks = []
    for a, b in pairs:
        for kind in START_KINDS[W.tier]:
            bd = max(bound, 2) if (a, b) == (0, 0) else bound
            # a bound-2 tree has thousands of executions: cut it into slices for the pool
            parts = (8 if W.tier == "quick" else 4) if bd >= 2 else 1
            tasks.extend((a, b, kind, bd, part, parts) for part in range(parts))
    tasks.sort(key=lambda t: -t[3])  # big trees first (stable: otherwise in the order above)
    return tasks


# ================================================================ engine CRASH
def followup_sequences(k: int):
    j = W.partner.get(k)
    return [[k, j, k], [j, k]] if j is not None else [[k, k]]


def run_followups(tally, state, seq, k_writer, origin, case, crash_origin):
    d = W.fresh(state)
    try:
        before = state
        for i, q in enumerate(seq):
            res = W.call(q, d)
            tally.c["executions"] += 1
            tally.c["crash_followup_calls"] += 1
            verdict = W.judge(q, res)
            tally.verdict(verdict)
            tally.c["nontrivial"] += 1 if before else 0
            if verdict is not None:
                tags = W.tags(
                    q, verdict["symptom"], before, {k_writer, *seq[:i]},
                    crash_origin and W.same_key(k_writer, q), False,
                )
                full_case = dict(case)
                full_case["followups"] = [W.names[x] for x in seq[: i + 1]]
                tally.violations.append(_violation(
                    "CRASH", q, verdict, tags, full_case,
                    f"follow-up {i + 1} of {[W.names[x] for x in seq]} after {origin}",
                    {"directory_before_failing_call": W.describe(before)},
                ))
            before = W.snapshot(d)
    finally:
        W.remove(d)


def written_files(start, snaps, final):
    """Files the writer created or changed, with the longest content seen per file."""
    longest: dict = {}
    for snap in [*snaps, final]:
        for name, content in snap.items():
            if start.get(name) == content:
                continue
            if name not in longest or len(content) > len(longest[name]):
                longest[name] = content
    # entry files first, then others; names of temporaries may be random, contents not
    return sorted(longest.items(), key=lambda it: (it[0] not in W.entry_names, _digest(it[1]), it[0]))


def crash_run_writer(k, start):
    d = W.fresh(start)
    try:
        ex, snaps = crash_points(lambda: W.fn(W.exprs[k], d), W.files, lambda: W.snapshot(d))
        final = W.snapshot(d)
    finally:
        W.remove(d)
    res = ex.results[0]
    if res[0] == "exc" and not isinstance(res[1], Exception):
        raise res[1]
    return ex, snaps, final


PREFIX_CHUNKS = 4


def crash_task(task):
    k, kind, part = task  # part: "points" | prefix chunk number
    tally = Tally()
    start = start_state(kind, k, k)
    ex, snaps, final = crash_run_writer(k, start)
    tally.c["executions"] += 1
    base_case = {
        "engine": "crash", "mode": W.mode, "writer": W.names[k], "start": kind,
        "expressions": {n: s for n, s in zip(W.names, W.strs)},
    }
    verdict = W.judge(k, ex.results[0]) if part == "points" else None
    if part == "points":
        tally.verdict(verdict)
    if verdict is not None:
        tags = W.tags(k, verdict["symptom"], start, set(), False, False)
        case = dict(base_case, point=None, followups=[])
        tally.violations.append(_violation(
            "CRASH", k, verdict, tags, case, f"the traced writer itself on {kind} directory",
            {"directory_before_failing_call": W.describe(start)},
        ))
    seqs = followup_sequences(k)
    window = 0
    for p, snap in enumerate(snaps if part == "points" else []):
        tally.c["crash_points"] += 1
        if any(n in snap and W.unreadable(snap[n]) for n in W.entry[k]):
            window += 1
        where = ex.events[p - 1] if p else ("start",)
        origin = f"a crash of the {W.names[k]}-writer on {kind} directory at point {p} (after {where[2:] if p else 'start'})"
        for seq in seqs:
            run_followups(tally, snap, seq, k, origin, dict(base_case, point=p), True)
    tally.c["crash_points_with_incomplete_entry_file"] += window
    # every byte prefix of every file the writer produced
    # (spread over PREFIX_CHUNKS pool tasks: prefix number i goes to chunk i mod chunks)
    files = written_files(start, snaps, final) if part != "points" else []
    n_prefixes = 0
    running = -1
    for fi, (name, content) in enumerate(files):
        for n in range(len(content) + 1):
            running += 1
            if running % PREFIX_CHUNKS != part:
                continue
            n_prefixes += 1
            tally.c["byte_prefixes"] += 1
            state = dict(start)
            state[name] = content[:n]
            shown = (name[:10] + "..." + name[-4:]) if name in W.entry_names else "<other file>"
            origin = f"a torn write: first {n} of {len(content)} bytes of {shown} ({W.names[k]}-writer, {kind} directory)"
            # (one sequence per torn write: same, colliding, same again; the sequence that
            # starts with the colliding expression is run at the crash points only)
            run_followups(tally, state, seqs[0], k, origin,
                          dict(base_case, prefix=[fi, n]), False)
    if part == 0:
        tally.samples.append({
            "engine": "CRASH", "hash_seed": W.mode, "writer": W.names[k], "directory": kind,
            "scheduling_points": len(snaps),
            "files_written": [{"file": n if n in W.entry_names else "<other>", "bytes": len(c)}
                              for n, c in files],
            "byte_prefixes_enumerated": sum(len(c) + 1 for _, c in files),
            "followups_per_prefix": [W.names[x] for x in seqs[0]],
            "followups_per_crash_point": [[W.names[x] for x in s] for s in seqs],
        })
    out = tally.export()
    if part == "points":
        out["config"] = {"writer": W.names[k], "start": kind, "points": len(snaps),
                         "points_with_incomplete_entry_file": window}
    else:
        out["config"] = {"writer": W.names[k], "start": kind, "prefix_chunk": part,
                         "byte_prefixes": n_prefixes}
    return out


def crash_tasks():
    """Byte prefixes (heavy, empty start only: what is written does not depend on the
    start directory) first, then the crash points of every (writer, start directory)."""
    n = W.n_core
    tasks = [(k, "empty", c) for k in range(n) for c in range(PREFIX_CHUNKS)]
    tasks += [(k, kind, "points") for k in range(n) for kind in START_KINDS[W.tier]]
    return tasks


# ====================================================================== replay
def replay(case) -> list:
    tally = Tally()
    engine = case["engine"]
    if engine == "seq":
        state: dict = {}
        history = []
        for op in case["history"]:
            k = W.index[op[1]]
            if op[0] == "call":
                d = W.fresh(state)
                res = W.call(k, d)
                after = W.snapshot(d)
                W.remove(d)
                seq_note(tally, k, res, state, history, op, False)
                state = after
            elif op[0] == "seed":
                fname = sorted(W.entry[k])[op[2]]
                state = dict(state)
                state[fname] = W.seed_content(k, fname, op[3])
            elif op[0] == "crash":
                ex, snaps, _final = crash_run_writer(k, state)
                seq_note(tally, k, ex.results[0], state, history, ["call", op[1]], True)
                if op[2] >= len(snaps):
                    msg = f"crash point {op[2]} does not exist any more ({len(snaps)} points)"
                    raise HarnessError(msg)
                state = snaps[op[2]]
            else:
                raise HarnessError(f"unknown operation {op}")
            history.append(op)
    elif engine == "sched":
        a, b = (W.index[n] for n in case["pair"])
        start = start_state(case["start"], a, b)
        ex = sched_run(a, b, start, case["choices"], False)
        if ex.choices != list(case["choices"]) + [0] * (len(ex.choices) - len(case["choices"])):
            raise HarnessError("recorded schedule could not be followed")
        sched_judge(tally, a, b, case["start"], start, ex)
    elif engine == "crash":
        k = W.index[case["writer"]]
        start = start_state(case["start"], k, k)
        ex, snaps, final = crash_run_writer(k, start)
        seq = [W.index[n] for n in case.get("followups", [])]
        if case.get("prefix") is not None:
            fi, n = case["prefix"]
            files = written_files(start, snaps, final)
            name, content = files[fi]
            state = dict(start)
            state[name] = content[:n]
            run_followups(tally, state, seq, k, f"torn write {n}/{len(content)} bytes", case, False)
        elif case.get("point") is not None:
            p = case["point"]
            if p >= len(snaps):
                msg = f"crash point {p} does not exist any more ({len(snaps)} points)"
                raise HarnessError(msg)
            run_followups(tally, snaps[p], seq, k, f"crash at point {p}", case, True)
        else:
            verdict = W.judge(k, ex.results[0])
            if verdict is not None:
                tags = W.tags(k, verdict["symptom"], start, set(), False, False)
                tally.violations.append(_violation("CRASH", k, verdict, tags, case,
                                                   "the traced writer itself", {}))
    elif engine == "temp":
        a, b = (W.index[n] for n in case["pair"])
        temp_pair(tally, a, b)
    else:
        raise HarnessError(f"unknown engine {engine}")
    return tally.violations


# ====================================================================== driver
_POOL_SIZE = 1


def pool_size() -> int:
    return _POOL_SIZE


def _guard(fn, task):
    try:
        return ("ok", fn(task))
    except HarnessError:
        return ("harness", traceback.format_exc())
    except BaseException:  # noqa: BLE001
        return ("harness", traceback.format_exc())


def _seq_expand_guarded(task):
    return _guard(seq_expand, task)


def _sched_guarded(task):
    return _guard(sched_config, task)


def _crash_guarded(task):
    return _guard(crash_task, task)


def _temp_guarded(task):
    return _guard(temp_task, task)


def _pairs_guarded(task):
    return _guard(pairs_task, task)


_GUARDED = {seq_expand: _seq_expand_guarded, sched_config: _sched_guarded,
            crash_task: _crash_guarded, pairs_task: _pairs_guarded, temp_task: _temp_guarded}


def _submit(pool, fn, tasks, chunk=1):
    """Queue the tasks now (results are consumed later, in task order)."""
    guarded = _GUARDED[fn]
    return map(guarded, tasks) if pool is None else pool.imap(guarded, tasks, chunksize=chunk)


def _imap(pool, fn, tasks, chunk=1):
    return _consume(_submit(pool, fn, tasks, chunk))


def _consume(it):
    for status, payload in it:
        if status != "ok":
            raise HarnessError("worker task failed:\n" + payload)
        yield payload


_T0 = [None]


def _phase(what: str) -> None:
    if os.environ.get("VERIF_PROFILE"):
        import time  # noqa: PLC0415

        now = time.time()
        _T0[0] = _T0[0] or now
        sys.stderr.write(f"[c16 {W.mode}] +{now - _T0[0]:.1f}s {what}\n")


def merge(total: Tally, res: dict) -> None:
    for key, val in res["c"].items():
        total.c[key] += val
    for key, val in res["outcomes"].items():
        total.outcomes[key] += val
    total.violations.extend(res["violations"])
    for s in res["samples"]:
        total.samples.append(s)


def main_job(job: dict) -> dict:
    global W, _POOL_SIZE  # noqa: PLW0603
    core.ensure_repo_import()
    W = World(job["mode"], job["tier"], int(job["seed"]))
    try:
        _phase("start")
        W.learn()
        if job.get("replay") is not None:
            viols = replay(job["replay"])
            for v in viols:
                v.pop("sig", None)
            return {"violations": viols}
        _POOL_SIZE = max(1, int(job.get("procs", 1)))
        total = Tally()
        summary: dict = {
            "entry_files": {n: sorted(
                (f"{name[:24]}..." if len(name) > 27 else name, len(c)) for name, c in e.items()
            ) for n, e in zip(W.names, W.entry)},
            "keys_shared_by": sorted(
                [W.names[a], W.names[b]] for a in range(len(W.exprs))
                for b in range(a + 1, len(W.exprs)) if W.same_key(a, b)
            ),
        }
        pool = None
        if _POOL_SIZE > 1 and not os.environ.get("VERIF_SERIAL"):
            pool = mp.get_context("fork").Pool(_POOL_SIZE)
        try:
            states, transitions = run_seq(pool, total, summary)
            # longest tasks first for the pool, results consumed in task order
            st = sched_tasks()
            ct = crash_tasks()
            crash_it = _submit(pool, crash_task, ct)
            sched_it = _submit(pool, sched_config, st)
            crash_res = list(_consume(crash_it))
            _phase("crash done")
            sched_res = list(_consume(sched_it))
            _phase("sched done")
            # last, and only after everything else is finished: unfolding the extra
            # expressions (Wigner D) churns SymPy's LRU cache, which changes object sharing
            # - and with it the byte length of later pickles, i.e. the number of prefixes
            pairs_it = _submit(pool, pairs_task, list(range(len(W.exprs))))
            for res in _consume(pairs_it):
                merge(total, res)
            _phase("pairs done")
            temp_it = _submit(pool, temp_task, list(range(W.n_core)))
            for res in _consume(temp_it):
                merge(total, res)
            _phase("temp done")
        finally:
            if pool is not None:
                pool.close()
                pool.join()
        summary["sched"] = {"preemption_bound": BOUND[W.tier], "configs": []}
        merged: dict = {}
        for res in sched_res:
            merge(total, res)
            cfg = res["config"]
            key = (tuple(cfg["pair"]), cfg["start"])
            if key not in merged:
                merged[key] = dict(cfg)
            else:
                merged[key]["schedules"] += cfg["schedules"]
                merged[key]["longest_schedule_steps"] = max(
                    merged[key]["longest_schedule_steps"], cfg["longest_schedule_steps"])
        summary["sched"]["configs"] = list(merged.values())
        summary["sched"]["executions"] = total.c["sched_executions"]
        summary["crash"] = {"configs": []}
        for res in crash_res:
            merge(total, res)
            summary["crash"]["configs"].append(res["config"])
        summary["crash"]["crash_points"] = total.c["crash_points"]
        summary["crash"]["byte_prefixes"] = total.c["byte_prefixes"]
        # states: merged SEQ states + every directory a crash point / torn write leaves
        # behind (each is the start of follow-up calls); transitions: SEQ operations +
        # follow-up calls + every scheduler step of every interleaving (one atomic step of
        # the two-caller system, executed by the implementation)
        crash_states = total.c["crash_points"] + total.c["byte_prefixes"]
        extra_transitions = (
            total.c["sched_steps"] + total.c["crash_followup_calls"] + total.c["pairs_transitions"]
            + total.c["temp_transitions"]
        )
        summary["temporaries"] = {
            "histories": total.c["temp_histories"], "instances_per_history": TEMP_INSTANCES,
            "address_reused": total.outcomes.get("TEMP:address-reused", 0),
            "inconclusive": total.outcomes.get("TEMP:no-address-reuse(inconclusive)", 0),
        }
        summary["pairs"] = {
            "histories": total.c["pairs_histories"],
            "expressions_with_equal_python_hash": sorted(
                [W.names[k], W.names[j]] for k, js in W.same_hash.items() for j in js if k < j
            ),
        }
        # dedupe violations by signature, keep the first (shortest history) witness
        by_sig: dict = {}
        tag_exec: collections.Counter = collections.Counter()
        for v in total.violations:
            n = v.get("count", 1)
            for t in v["tags"] or ["<untagged>"]:
                tag_exec[t] += n
            if v["sig"] not in by_sig:
                by_sig[v["sig"]] = dict(v, count=0)
            by_sig[v["sig"]]["count"] += n
        viols = []
        for v in by_sig.values():
            v = dict(v)
            v.pop("sig")
            n = v.pop("count")
            v["detail"]["failing_executions_with_this_signature"] = n
            viols.append(v)
        counters = {k: v for k, v in total.c.items()
                    if k not in {"evaluations", "nontrivial", "seq_transitions"}}
        for t, n in sorted(tag_exec.items()):
            counters[f"failing_executions[{t}]"] = n
        summary["failing_executions_by_tag"] = dict(sorted(tag_exec.items()))
        summary["executions"] = total.c["executions"]
        samples = _pick_samples(total.samples)
        return {
            "evaluations": total.c["evaluations"],
            "nontrivial": total.c["nontrivial"],
            "outcomes": dict(total.outcomes),
            "states": states + crash_states,
            "transitions": transitions + extra_transitions,
            "traces": total.c["executions"],
            "counters": counters,
            "caps": [],
            "samples": samples,
            "violations": viols,
            "summary": summary,
        }
    finally:
        shutil.rmtree(W.base, ignore_errors=True)


def _pick_samples(samples):
    out, seen = [], set()
    for s in samples:
        if s["engine"] not in seen:
            seen.add(s["engine"])
            out.append(s)
    return out


def main() -> int:
    job = json.loads(sys.stdin.read())
    try:
        result = main_job(job)
    except HarnessError:
        result = {"harness_error": traceback.format_exc()}
    except Exception:  # noqa: BLE001
        result = {"harness_error": "unexpected exception in worker\n" + traceback.format_exc()}
    sys.stdout.write("C16-RESULT " + json.dumps(core._jsonable(result)) + "\n")  # noqa: SLF001
    sys.stdout.flush()
    return 0


if __name__ == "__main__":
    sys.exit(main())
