"""C01 - every symbol of a model is defined: parameter xor kinematic variable.

Engine SHAPE: factory reactions (1-3 nodes, partial helicity sets of every kind,
identical particles, several topologies, massless particles) and the qrules catalogue
x alignment x dynamics x the product of the cheap configuration switches (stable ids,
scalar initial mass, helicity couplings, adapter extras).  Oracles are set algebra on the
real model plus one numeric evaluation from four-momenta per case (catches cycles).
"""

from __future__ import annotations

import itertools
import math
from fractions import Fraction

import numpy as np

from vp import reactions as R

PROPERTY = "C01"
LEVEL = "exploration"
RULE = (
    "factory reactions (A->BC; A->B R(->CD) for every spectator; 2-3 topologies; 4-body"
    " cascade and two-resonance; spins {0,1/2,1} (thorough: +3/2); helicity sets full /"
    " initial +-J only / one outer combination dropped; identical spin-0 and spin-1/2"
    " particles; massless) and catalogue reactions x alignment {none, axis-angle, DPD 1-3}"
    " x dynamics {none, BW, BW+ff, analytic} x {stable ids None/{}/one/all} x scalar mass x"
    " couplings x adapter extras {none, permutate, extra topology}; non-trivial = model"
    " with >= 2 amplitudes and >= 1 kinematic variable; distinct = distinct (reaction,"
    " alignment, dynamics, switches); size bounds: quick <= 40 transitions (axis-angle <= 16,"
    " <= 40 with several topologies; DPD <= 24), thorough <= 200 transitions (axis-angle: <= 24,"
    " <= 3 final-state particles, product of (2s+1) over the final state <= 6, or several topologies with <= 40 transitions; DPD 1: <= 48,"
    " DPD 2/3: <= 16); aligned models: six switch"
    " combinations, dynamics {none, BW+ff}"
)
ASSUMPTIONS = [
    "numeric evaluation (oracle iv) is done for the first and the last switch combination"
    " of each case only; set algebra (i-iii) for all",
    "BW+ff / analytic dynamics are only assigned where the decay defines L (documented"
    " ValueError otherwise)",
]


def _consistent(*spins) -> bool:
    return sum(Fraction(s) for s in spins).denominator == 1


def factory_specs(tier: str) -> list[dict]:
    specs = []
    spins = ["0", "1/2", "1"] if tier == "quick" else ["0", "1/2", "1", "3/2"]
    for JA, sB, sC in itertools.product(spins, repeat=3):
        if not _consistent(JA, sB, sC):
            continue
        for formalism in ("helicity", "canonical-helicity"):
            for pc in (False, True):
                specs.append(R.one_node_spec(JA, sB, sC, pA=-1, formalism=formalism, pc=pc))
                if Fraction(JA) > 0:
                    specs.append(R.one_node_spec(JA, sB, sC, pA=-1, formalism=formalism, pc=pc, init="pm"))
    # identical daughters (spin 0 and spin 1/2, 1) and massless daughter
    for formalism in ("helicity", "canonical-helicity"):
        specs.append(R.one_node_spec(2, 0, 0, formalism=formalism, same=True, pc=True))
        specs.append(R.one_node_spec(1, "1/2", "1/2", formalism=formalism, same=True))
        specs.append(R.one_node_spec(2, 1, 1, formalism=formalism, same=True, masses=(3.0, 0.0, 0.0)))
        specs.append(R.one_node_spec(1, 1, 0, formalism=formalism, masses=(3.0, 0.0, 0.5)))
    two = ["0", "1/2", "1"]
    for JA, s0, s1, s2, sR in itertools.product(two, repeat=5):
        n_spin = sum(Fraction(x) > 0 for x in (s0, s1, s2))
        if n_spin > (1 if tier == "quick" else 2):
            continue
        for spectator in (0, 1, 2):
            sp_spin = (s0, s1, s2)[spectator]
            pair = [s for i, s in enumerate((s0, s1, s2)) if i != spectator]
            if not (_consistent(JA, sp_spin, sR) and _consistent(sR, *pair)):
                continue
            if tier == "quick" and spectator != 0 and (JA, sR) != ("1", "1"):
                continue
            for formalism in ("helicity", "canonical-helicity"):
                for pc in (False, True):
                    res = R.P("R1", sR, 1.2, -1)
                    for init in ("full", "pm"):
                        if init == "pm" and Fraction(JA) < 1:
                            continue
                        specs.append(R.three_body_spec(
                            JA, s0, s1, s2, [(spectator, res, pc, pc)],
                            parities=(-1, 1, -1, -1), formalism=formalism, init=init))
    for formalism in ("helicity", "canonical-helicity"):
        r1, r2, r3 = R.P("R1", 1, 1.2, -1), R.P("R2", 0, 1.0, 1), R.P("R3", 1, 1.4, -1)
        specs.append(R.three_body_spec(1, 0, 0, 0, [(0, r1, True, True), (0, r2, True, True)],
                                       parities=(-1, -1, -1, -1), formalism=formalism))
        specs.append(R.three_body_spec(1, 0, 0, 0, [(0, r1, False, False), (1, r3, False, False)],
                                       parities=(-1, -1, -1, -1), formalism=formalism))
        specs.append(R.three_body_spec(1, 0, 0, 0, [(0, r1, True, True), (1, r1, True, True), (2, r1, True, True)],
                                       parities=(-1, -1, -1, -1), formalism=formalism))
        specs.append(R.three_body_spec(1, "1/2", "1/2", 0, [(0, R.P("R4", "1/2", 1.2, 1), True, True),
                                                            (1, R.P("R5", "1/2", 1.5, -1), True, True)],
                                       parities=(-1, 1, -1, -1), formalism=formalism))
        # a helicity combination that exists in one topology only: R(J=0) -> B C forces
        # lambda_B = lambda_C, the other topology allows all combinations
        for sR in ("0", "1"):
            specs.append(R.three_body_spec(
                1, "1/2", "1/2", 0,
                [(2, R.P("R8", sR, 1.6, -1), False, False), (0, R.P("R4", "1/2", 1.2, 1), False, False)],
                parities=(-1, 1, -1, -1), formalism=formalism))
        # one outer helicity combination without any transition
        spec = R.three_body_spec(1, "1/2", "1/2", 0, [(0, R.P("R4", "1/2", 1.2, 1), False, False)],
                                 parities=(-1, 1, -1, -1), formalism=formalism)
        spec["drop_outer"] = [["1", "1/2", "-1/2", "0"]]
        specs.append(spec)
        # identical particles: spectator + decay product (image lives in another topology)
        for s_id, name in (("0", "R6"), ("1/2", "R7")):
            sres = "1" if s_id == "0" else "1/2"
            spec = R.three_body_spec(1, 1 if s_id == "0" else "1/2", s_id, s_id,
                                     [(1, R.P(name, sres, 0.8, -1), False, False)],
                                     parities=(-1, -1, -1, -1), formalism=formalism,
                                     masses=(3.0, 0.0 if s_id == "0" else 0.3, 0.14, 0.14))
            spec["outer"]["2"] = spec["outer"]["1"]
            try:
                R.build_reaction(spec)
                specs.append(spec)
            except ValueError:
                pass
        for topo in (0, 1):
            outer = {"-1": R.P("A", 1, 4.0, -1), "0": R.P("B", 0, 0.2, -1), "1": R.P("C", 0, 0.3, -1),
                     "2": R.P("D", 0, 0.4, -1), "3": R.P("E", 0, 0.5, -1)}
            tp = R.isobar_topologies(4)[topo]
            inter = sorted(tp.intermediate_edge_ids)
            res = {str(inter[0]): R.P("R1", 1, 1.5, -1), str(inter[1]): R.P("R2", 1, 1.1, -1)}
            specs.append({"formalism": formalism, "init": "full", "outer": outer,
                          "chains": [{"n": 4, "topo": topo, "perm": [0, 1, 2, 3], "res": res,
                                      "pc": {"0": False, "1": False, "2": False}}]})
    if tier == "thorough":
        for topo in range(5):
            outer = {"-1": R.P("A", 1, 5.0, -1)}
            for i in range(5):
                outer[str(i)] = R.P("BCDEF"[i], 0, 0.2 + 0.1 * i, -1)
            tp = R.isobar_topologies(5)[topo]
            res = {str(e): R.P(f"R{k + 1}", 1 if k == 0 else 0, 1.0 + 0.3 * k, -1)
                   for k, e in enumerate(sorted(tp.intermediate_edge_ids))}
            try:
                spec = {"formalism": "helicity", "init": "full", "outer": outer,
                        "chains": [{"n": 5, "topo": topo, "perm": [0, 1, 2, 3, 4], "res": res,
                                    "pc": {str(n): False for n in tp.nodes}}]}
                R.build_reaction(spec)
                specs.append(spec)
            except ValueError:
                pass
    return specs


CATALOGUE_QUICK = ["jpsi_gpipi_f0f2", "jpsi_ksp_sigma_n", "jpsi_gpipi_omega", "lc_pkpi",
                   "etac_lamlam", "jpsi_3pi_rho", "d0_kkk"]
MAX_TRANSITIONS = {"quick": 40, "thorough": 200}


def alignments_for(n_final: int, tier: str) -> list[str]:
    out = ["none", "aa"]
    if n_final == 3:
        out += ["dpd1"] if tier == "quick" else ["dpd1", "dpd2", "dpd3"]
    return out


def cases(tier, seed):
    out = []
    entries = []
    for spec in factory_specs(tier):
        try:
            r = R.build_reaction(spec)
        except ValueError:
            continue
        if len(r.transitions) > MAX_TRANSITIONS[tier]:
            continue
        entries.append(({"spec": spec}, len(r.final_state), r))
    for name in R.catalogue_names():
        if tier == "quick" and name.rsplit(".", 1)[0] not in CATALOGUE_QUICK:
            continue
        r = R.load_catalogue(name)
        if len(r.transitions) > MAX_TRANSITIONS[tier]:
            continue
        entries.append(({"catalogue": name}, len(r.final_state), r))
    for rdesc, n_final, r in entries:
        heavy = len(r.transitions) > 24
        for align in alignments_for(n_final, tier):
            n_topologies = len({t.topology for t in r.transitions})
            if tier == "quick" and align == "aa" and (
                    len(r.transitions) > (40 if n_topologies > 1 else 16) or n_final > 3):
                continue  # left to the thorough tier (cost of unfolding the rotation sums)
            if tier == "quick" and align.startswith("dpd") and len(r.transitions) > 24:
                continue
            # thorough: size bounds for aligned models (unfolding the rotation sums of an
            # axis-angle model with > 48 transitions takes tens of minutes per model)
            spin_weight = math.prod(int(2 * p.spin + 1) for p in r.final_state.values())
            multi_ok = n_topologies > 1 and len(r.transitions) <= 40 and n_final <= 3 and spin_weight <= 9
            if tier != "quick" and align == "aa" and not multi_ok and (
                    len(r.transitions) > 24 or n_final > 3 or spin_weight > 6):
                continue
            if tier != "quick" and align == "dpd1" and len(r.transitions) > 48:
                continue
            if tier != "quick" and align in {"dpd2", "dpd3"} and len(r.transitions) > 16:
                continue
            if n_final == 2 and align == "aa" and tier == "quick" and "spec" in rdesc and rdesc["spec"].get("init") == "pm":
                continue
            dyns = ["none", "bw"] if tier == "quick" else ["none", "bw", "bwff", "analytic"]
            if tier != "quick" and align != "none":
                dyns = ["none", "bwff"] if len(r.transitions) <= 24 else ["none"]
            if tier == "quick" and align == "none":
                dyns = ["none", "bw", "bwff"]
            if align != "none" and (heavy or tier == "quick"):
                dyns = ["none"] if tier == "quick" else ["none", "bw"]
                if align.startswith("dpd") and len(r.transitions) <= 16:
                    dyns = ["none", "bwff"]  # daughter masses enter the expression
            for dyn in dyns:
                out.append({"reaction": rdesc, "align": align, "dyn": dyn, "seed": seed, "tier": tier})
    return out


# --------------------------------------------------------------------- evaluation
def features(reaction) -> list[str]:
    from vp.ref import helicity as H  # noqa: PLC0415

    tags = []
    pools = H.projection_pools(reaction)
    have = {H.outer_tuple(t) for t in reaction.transitions}
    if len(have) < math.prod(len(v) for v in pools.values()):
        tags.append("outer-helicity-combination-without-transition")
    final = reaction.final_state
    names = [p.name for p in final.values()]
    if any(names.count(p.name) > 1 and p.spin > 0 for p in final.values()):
        tags.append("identical-final-state-particles-with-spin")
    topos = {t.topology for t in reaction.transitions}
    for t in reaction.transitions:
        if any(g.topology not in topos for g in H.permuted_graphs(t)):
            tags.append("symmetrisation-image-in-unregistered-topology")
            break
    return tags


def massless_decay_product(reaction) -> bool:
    """Some massless final-state particle is not a direct daughter of the initial state
    (in a topology of the reaction or of a symmetrisation image)."""
    from vp.ref import helicity as H  # noqa: PLC0415

    for t in reaction.transitions:
        for g in H.permuted_graphs(t):
            topo = g.topology
            root = next(iter(topo.incoming_edge_ids))
            first = set(topo.get_edge_ids_outgoing_from_node(topo.edges[root].ending_node_id))
            for i in topo.outgoing_edge_ids:
                if g.states[i].particle.mass == 0.0 and i not in first:
                    return True
    return False


def make_builder(reaction, align: str, dyn: str):
    import ampform  # noqa: PLC0415
    from ampform.dynamics.builder import (  # noqa: PLC0415
        create_analytic_breit_wigner,
        create_relativistic_breit_wigner,
        create_relativistic_breit_wigner_with_ff,
    )
    from ampform.helicity.align.axisangle import AxisAngleAlignment  # noqa: PLC0415
    from ampform.helicity.align.dpd import DalitzPlotDecomposition, relabel_edge_ids  # noqa: PLC0415

    if align.startswith("dpd"):
        reaction = relabel_edge_ids(reaction)
    builder = ampform.get_builder(reaction)
    if align == "aa":
        builder.config.spin_alignment = AxisAngleAlignment()
    elif align.startswith("dpd"):
        builder.config.spin_alignment = DalitzPlotDecomposition(int(align[3]))
    if dyn != "none":
        fn = {"bw": create_relativistic_breit_wigner, "bwff": create_relativistic_breit_wigner_with_ff,
              "analytic": create_analytic_breit_wigner}[dyn]
        canonical = reaction.formalism != "helicity"
        for p in reaction.get_intermediate_particles():
            if dyn != "bw" and not canonical and not float(p.spin).is_integer():
                continue
            builder.dynamics.assign(p.name, fn)
    return builder, reaction


def switch_product(final_ids: list[int], tier: str = "thorough", aligned: bool = False):
    """(stable ids, scalar mass, couplings, adapter extra); the first and the entry at
    index EVAL_LAST are also evaluated numerically."""
    ids = list(final_ids)
    if tier == "quick" and aligned:
        return [(None, False, False, "none"), (ids, True, True, "none"),
                ([ids[0]], False, True, "none"), (None, False, False, "permutate")]
    if tier == "quick":
        return [(None, False, False, "none"), (ids, True, True, "none"),
                (None, True, True, "none"), ([], False, True, "none"),
                ([ids[0]], True, False, "none"), (ids, False, False, "none"),
                (None, False, False, "permutate"), (None, False, False, "extra")]
    if aligned:
        # unfolding an aligned model costs seconds: six combinations instead of nineteen
        return [(None, False, False, "none"), (ids, True, True, "none"),
                ([ids[0]], False, True, "none"), ([], True, False, "none"),
                (None, False, False, "permutate"), (None, False, False, "extra")]
    combos = [(None, False, False, "none"), (ids, True, True, "none")]
    for stable in (None, [], [ids[0]], ids):
        for scalar in (False, True):
            for couplings in (False, True):
                c = (stable, scalar, couplings, "none")
                if c not in combos:
                    combos.append(c)
    combos.append((None, False, False, "permutate"))
    combos.append((ids, True, True, "permutate"))
    combos.append((None, False, False, "extra"))
    return combos


def eval_case(case):
    import sympy as sp  # noqa: PLC0415
    from sympy.tensor.array.expressions.array_expressions import ArraySymbol  # noqa: PLC0415

    from vp.interp import Kinematics, MultiEvaluator  # noqa: PLC0415
    from vp.ref import frames  # noqa: PLC0415

    reaction0 = R.reaction_from(case["reaction"])
    feats = features(reaction0)
    align, dyn, seed = case["align"], case["dyn"], case.get("seed", 0)
    viol, n_eval, nontrivial, outcomes = [], 0, [], {}
    desc = _describe(case)

    if align == "aa" and massless_decay_product(reaction0):
        feats = [*feats, "axis-angle-massless-decay-product"]

    def bad(kind, msg, cfg, extra_tags=()):
        viol.append({"msg": f"{kind}: {msg} [{desc} | {cfg}]",
                     "tags": [kind, *feats, *extra_tags, f"align:{align}",
                              *[f"{kind}+{f}" for f in feats]],
                     "detail": {"config": str(cfg)}})

    combos = None
    last_index = None
    builder, reaction = make_builder(reaction0, align, dyn)
    final_ids = sorted(reaction.final_state)
    combos = switch_product(final_ids, case.get("tier", "thorough"), align != "none")
    # pass 1: a fresh builder per switch combination; pass 2 ("live"): ONE builder that
    # is re-configured and re-formulated through the combinations forwards and backwards
    # (a model must not depend on what the builder formulated before)
    plain = [c for c in combos if c[3] == "none"]
    live_order = [*plain, *reversed(plain[:-1]), *[c for c in combos if c[3] != "none"]]
    if case.get("tier") != "thorough":
        live_order = [*plain, plain[0], *[c for c in combos if c[3] == "permutate"]]
    schedule = [(ci, c, False) for ci, c in enumerate(combos)]
    thorough_live = case.get("tier") == "thorough" and (align == "none" or dyn == "none")
    if dyn in {"none", "bw"} and (thorough_live or (dyn == "none" and align in {"none", "dpd1"})):
        schedule += [(100 + k, c, True) for k, c in enumerate(live_order)]
    live_builder = None
    for ci, (stable, scalar, couplings, extra), live in schedule:
        if live:
            if live_builder is None:
                live_builder, reaction = make_builder(reaction0, align, dyn)
            builder = live_builder
        else:
            builder, reaction = make_builder(reaction0, align, dyn)
        builder.config.stable_final_state_ids = stable
        builder.config.scalar_initial_state_mass = scalar
        builder.config.use_helicity_couplings = couplings
        if extra == "permutate":
            builder.adapter.permutate_registered_topologies()
        elif extra == "extra":
            n = len(final_ids)
            if n >= 3:
                used = builder.adapter.registered_topologies
                some = next(iter(used))
                for tp in R.isobar_topologies(n):
                    cand = tp.relabel_edges({e: e + 1 for e in tp.edges}) if min(some.edges) == 0 else tp
                    for perm in itertools.permutations(sorted(cand.outgoing_edge_ids)):
                        c2 = cand.relabel_edges(dict(zip(sorted(cand.outgoing_edge_ids), perm)))
                        if c2 not in used:
                            builder.adapter.register_topology(c2)
                            break
                    else:
                        continue
                    break
        cfg = f"stable={stable} scalar={scalar} couplings={couplings} adapter={extra}" + (" (live builder)" if live else "")
        model = builder.formulate()
        n_eval += 1
        expr = model.expression
        params = set(model.parameter_defaults)
        kin = set(model.kinematic_variables)
        free = set(expr.free_symbols)
        # (ii) amplitude symbols
        leftovers = sorted(expr.atoms(sp.Indexed), key=str)
        if leftovers:
            bad("undefined-amplitude", f"{len(leftovers)} amplitude symbols without definition, e.g. {leftovers[:3]}", cfg)
        free_syms = {s for s in free if not isinstance(s, sp.Indexed)
                     and not any(s == a.base.label for a in leftovers)}
        # (i) parameter xor kinematic variable
        both = sorted((s for s in free_syms if s in params and s in kin), key=str)
        neither = sorted((s for s in free_syms if s not in params and s not in kin), key=str)
        if both:
            bad("symbol-in-both-maps", f"{both[:6]}", cfg)
        if neither:
            bad("undefined-symbol", f"{len(neither)} free symbols neither parameter nor kinematic variable, e.g. {neither[:6]}", cfg)
        # (iii) kinematic variables depend on four-momenta only
        momenta_ok = {f"p{i}" for i in final_ids}
        for var, e in model.kinematic_variables.items():
            e2 = e.xreplace(dict(model.parameter_defaults))
            bad_syms = []
            for s in e2.free_symbols:
                name = getattr(s, "name", str(s))
                if name in momenta_ok:
                    continue
                bad_syms.append(s)
            arr = {str(a) for a in e2.atoms(ArraySymbol)}
            if not arr <= momenta_ok:
                bad_syms.append(sorted(arr - momenta_ok))
            if bad_syms:
                bad("kinematic-variable-not-closed", f"{var} depends on {bad_syms[:5]}", cfg)
                break
        key = f"{'ok' if not (leftovers or both or neither) else 'open'}"
        outcomes[key] = outcomes.get(key, 0) + 1
        if len(model.amplitudes) >= 2 and kin:
            nontrivial.append([desc, cfg])
        # (iv) the model really evaluates from four-momenta and parameter values
        if ci in (0, 1) and not (leftovers or both or neither) and not viol:
            masses = [reaction.final_state[i].mass for i in final_ids]
            M = next(iter(reaction.initial_state.values())).mass
            if M > sum(masses):
                ev0 = frames.lattice_events(M, masses, 3, seed, salt=7)
                ev = {final_ids[k]: ev0[k] for k in range(len(final_ids))}
                evaluator = MultiEvaluator({"I": expr}, dict(model.parameter_defaults))
                needed = {s.name for s in evaluator.free}
                kfn = Kinematics(model.kinematic_variables, wanted=needed,
                                 fixed=dict(model.parameter_defaults))
                kv = kfn(ev)
                missing = needed - set(kv)
                if missing:
                    bad("evaluation", f"cannot evaluate: no value for {sorted(missing)[:5]}", cfg)
                else:
                    val = np.asarray(evaluator(kv)["I"])
                    n_eval += 1
                    if not np.all(np.isfinite(val)):
                        bad("evaluation-nonfinite", f"intensity {val}", cfg)
                    elif np.max(np.abs(val.imag)) > 1e-9 * max(1.0, float(np.max(np.abs(val)))):
                        bad("evaluation-complex", f"intensity {val}", cfg)
                    outcomes["evaluated"] = outcomes.get("evaluated", 0) + 1
    return {
        "violations": viol,
        "evaluations": n_eval,
        "nontrivial": nontrivial,
        "outcomes": outcomes,
        "sample": {"case": desc, "switch_combinations": len(combos), "features": feats},
    }


def exception_tags(case, exc):
    try:
        feats = features(R.reaction_from(case["reaction"]))
    except Exception:  # noqa: BLE001
        feats = []
    return [*feats, f"align:{case.get('align')}", *[f"exception+{f}" for f in feats]]


def _describe(case) -> str:
    r = case["reaction"]
    if "catalogue" in r:
        name = r["catalogue"]
    else:
        s = r["spec"]
        outer = " ".join(f"{k}:{v[0]}({v[1]},m={v[2]})" for k, v in s["outer"].items())
        chains = ";".join(
            f"n{c['n']}t{c['topo']}p{''.join(map(str, c['perm']))}"
            + "".join(f" {e}:{p[0]}({p[1]})" for e, p in c.get("res", {}).items())
            + " pc=" + "".join("1" if v else "0" for v in c.get("pc", {}).values())
            for c in s["chains"])
        name = f"{s['formalism'][:3]} init={s.get('init')} drop={s.get('drop_outer', [])} {outer} | {chains}"
    return f"{name} | align={case['align']} dyn={case['dyn']}"
