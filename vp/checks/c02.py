"""C02 - model intensity equals the helicity formula evaluated on the transitions.

Engine SHAPE: every synthetic reaction of the factory within the spin bound (1-3 decay
nodes, both formalisms, with/without parity conservation, identical spin-0 particles,
several resonances / topologies) plus the catalogue of real qrules reactions, x builder
configuration (coefficient vs helicity-coupling mode, naming flags, dynamics none/BW).
Oracle: `vp.ref.helicity` computes the formula from `reaction.transitions` alone; it is
compared with every A_ component, every I_ component, every entry of `amplitudes` and
the full intensity on an angle grid and on the polarisation basis of the coefficients.
"""

from __future__ import annotations

import itertools
import math
from fractions import Fraction

import numpy as np

from vp import reactions as R
from vp.util import irr

PROPERTY = "C02"
LEVEL = "exploration"
RULE = (
    "all factory reactions with spins from {0,1/2,1} (thorough: up to 3 for one node, 3/2"
    " for 2 nodes) x both formalisms x parity conservation on/off per node x identical"
    " spin-0 pairs x 1-2 resonances x 1-3 topologies, plus the qrules catalogue; x"
    " {coefficients, helicity couplings} x naming flags x dynamics {none, BW} (couplings x BW included); one case ="
    " one (reaction, configuration); non-trivial = the model has >= 2 chains whose"
    " reference value is non-zero on the grid; distinct = distinct (reaction, config);"
    " size bound: reactions with more than 40 (quick) / 160 (thorough) transitions are"
    " left to the other tier / not explored"
)
ASSUMPTIONS = [
    "angles are free variables here (kinematics is C07/C04's business)",
    "one-node reactions use the full (8J+1)^2 tensor grid in (phi, theta) which decides a"
    " trigonometric polynomial of the input's degree; multi-node reactions use a rank-1"
    " lattice of 24 points (a lattice is only a lattice)",
    "coefficient space: polarisation basis {e_i, e_i+e_j, e_i+i e_j} (decides the Hermitian"
    " form for all complex values) when <= 14 coefficients, else e_i, neighbouring pairs"
    " and 8 dense vectors (reported as cap)",
    "identical final-state particles with non-zero spin are out of scope ('symmetrised' is"
    " ambiguous for them: helicity exchange and fermion sign)",
    "per-chain sign relative to the reference product is taken from the model (+-1 is"
    " enforced here, which sign is C03's business)",
]


# ------------------------------------------------------------------ case space
def _consistent(*spins) -> bool:
    return sum(Fraction(s) for s in spins).denominator == 1


def factory_specs(tier: str) -> list[dict]:
    specs = []
    quick = tier == "quick"
    one_node_spins = ["0", "1/2", "1"] if quick else ["0", "1/2", "1", "3/2", "2", "5/2", "3"]
    # --- one node: A -> B C
    for JA, sB, sC in itertools.product(one_node_spins, repeat=3):
        if not _consistent(JA, sB, sC):
            continue
        if Fraction(JA) > 1 and (Fraction(sB) > 1 or Fraction(sC) > 1) and quick:
            continue
        if not quick and Fraction(sB) + Fraction(sC) > 4:
            continue
        for formalism in ("helicity", "canonical-helicity"):
            for pc in (False, True):
                for pA in ((1, -1) if pc else (1,)):
                    specs.append(R.one_node_spec(JA, sB, sC, pA=pA, formalism=formalism, pc=pc))
    # massless daughter, identical spin-0 daughters
    for formalism in ("helicity", "canonical-helicity"):
        specs.append(R.one_node_spec(1, 1, 0, formalism=formalism, masses=(3.0, 0.0, 0.5)))
        specs.append(R.one_node_spec(2, 0, 0, formalism=formalism, same=True, pc=True))
    # --- two nodes: A -> s, R(-> a b), all three spectator choices
    two_node_spins = ["0", "1/2", "1"] if quick else ["0", "1/2", "1", "3/2"]
    for JA, s0, s1, s2, sR in itertools.product(two_node_spins, repeat=5):
        if quick and sum(Fraction(x) > 0 for x in (s0, s1, s2)) > 2:
            continue
        if not quick and sum(Fraction(x) for x in (JA, s0, s1, s2, sR)) > 5:
            continue
        for spectator in (0, 1, 2):
            sp_spin = (s0, s1, s2)[spectator]
            pair = [s for i, s in enumerate((s0, s1, s2)) if i != spectator]
            if not (_consistent(JA, sp_spin, sR) and _consistent(sR, *pair)):
                continue
            if quick and spectator != 0 and (Fraction(JA), Fraction(sR)) != (1, 1):
                continue  # relabelings for one spin pattern only in the quick tier
            high = any(Fraction(x) > 1 for x in (JA, s0, s1, s2, sR))
            if high and spectator != 0:
                continue  # spins 3/2: canonical labelling only
            for formalism in ("helicity", "canonical-helicity"):
                for pc0, pc1 in ((False, False), (True, True), (True, False)):
                    if (quick or high) and (pc0, pc1) == (True, False) and Fraction(JA) != 1:
                        continue
                    res = R.P("R1", sR, 1.2, -1)
                    specs.append(R.three_body_spec(
                        JA, s0, s1, s2, [(spectator, res, pc0, pc1)],
                        parities=(-1, 1, -1, -1), formalism=formalism))
    # --- several resonances and several topologies in one reaction (spin <= 1)
    for formalism in ("helicity", "canonical-helicity"):
        r1, r2, r3 = R.P("R1", 1, 1.2, -1), R.P("R2", 0, 1.0, 1), R.P("R3", 1, 1.4, -1)
        specs.append(R.three_body_spec(1, 0, 0, 0, [(0, r1, True, True), (0, r2, True, True)],
                                       parities=(-1, -1, -1, -1), formalism=formalism))
        specs.append(R.three_body_spec(1, 0, 0, 0, [(0, r1, False, False), (1, r3, False, False)],
                                       parities=(-1, -1, -1, -1), formalism=formalism))
        specs.append(R.three_body_spec(1, 0, 0, 0, [(0, r1, True, True), (1, r1, True, True), (2, r1, True, True)],
                                       parities=(-1, -1, -1, -1), formalism=formalism))
        specs.append(R.three_body_spec(1, "1/2", "1/2", 0, [(0, R.P("R4", "1/2", 1.2, 1), True, True),
                                                            (1, R.P("R5", "1/2", 1.5, -1), True, True)],
                                       parities=(-1, 1, -1, -1), formalism=formalism))
        # identical spin-0 particles: pair from one node / spectator + decay product
        spec = R.three_body_spec(1, 1, 0, 0, [(0, R.P("R2", 2, 1.2, 1), True, True)],
                                 parities=(-1, -1, -1, -1), formalism=formalism,
                                 masses=(3.0, 0.0, 0.14, 0.14))
        spec["outer"]["2"] = spec["outer"]["1"]
        specs.append(spec)
        spec = R.three_body_spec(1, 1, 0, 0, [(1, R.P("R6", 1, 0.8, -1), True, True)],
                                 parities=(-1, -1, -1, -1), formalism=formalism,
                                 masses=(3.0, 0.0, 0.14, 0.14))
        spec["outer"]["2"] = spec["outer"]["1"]
        specs.append(spec)
    # --- three identical spin-0 final-state particles (eta -> 3 pi0-like)
    for formalism in ("helicity", "canonical-helicity"):
        spec = R.three_body_spec(1, 0, 0, 0, [(0, R.P("R1", 1, 1.2, -1), False, False)],
                                 parities=(-1, -1, -1, -1), formalism=formalism,
                                 masses=(3.0, 0.14, 0.14, 0.14))
        spec["outer"]["1"] = spec["outer"]["0"]
        spec["outer"]["2"] = spec["outer"]["0"]
        specs.append(spec)
    # --- three nodes (four-body): cascade and two-resonance topology
    for formalism in ("helicity", "canonical-helicity"):
        for topo in (0, 1):
            for JA, sX in (("1", "1"), ("0", "1")) if quick else (("1", "1"), ("0", "1"), ("1", "0"), ("2", "1")):
                outer = {"-1": R.P("A", JA, 4.0, -1), "0": R.P("B", 0, 0.2, -1), "1": R.P("C", 0, 0.3, -1),
                         "2": R.P("D", 0, 0.4, -1), "3": R.P("E", 0, 0.5, -1)}
                tp = R.isobar_topologies(4)[topo]
                inter = sorted(tp.intermediate_edge_ids)
                res = {str(inter[0]): R.P("R1", sX, 1.5, -1), str(inter[1]): R.P("R2", 1 if sX == "1" else 0, 1.1, -1)}
                specs.append({"formalism": formalism, "init": "full", "outer": outer,
                              "chains": [{"n": 4, "topo": topo, "perm": [0, 1, 2, 3], "res": res,
                                          "pc": {"0": False, "1": False, "2": False}}]})
    return specs


def configs(tier: str, formalism: str, heavy: bool = False) -> list[dict]:
    out = [{"couplings": False, "flags": {}, "dyn": "none"}]
    out.append({"couplings": True, "flags": {}, "dyn": "none"})
    out.append({"couplings": False, "flags": {"insert_parent_helicities": True}, "dyn": "bw"})
    out.append({"couplings": True, "flags": {}, "dyn": "bw"})
    if formalism != "helicity" or tier == "thorough":
        # L-dependent lineshape (form factor + energy-dependent width) on every resonance
        # whose decay defines L (canonical: always; helicity: integer-spin resonances)
        out.append({"couplings": False, "flags": {}, "dyn": "bwff"})
    if tier == "thorough" and not heavy:
        out.append({"couplings": False, "flags": {"insert_child_helicities": False}, "dyn": "none"})
        if formalism != "helicity":
            out.append({"couplings": False, "flags": {"insert_ls_combinations": False}, "dyn": "none"})
            out.append({"couplings": False, "flags": {"insert_child_helicities": True}, "dyn": "none"})
    return out


CATALOGUE_QUICK = ["jpsi_gpipi_f0f2", "jpsi_ksp_sigma_n", "jpsi_gpipi_omega", "lc_pkpi", "etac_lamlam"]


MAX_TRANSITIONS = {"quick": 40, "thorough": 160}


def cases(tier, seed):
    out = [{"selftest": True}]
    for spec in factory_specs(tier):
        try:
            reaction = R.build_reaction(spec)
        except ValueError:
            continue
        if len(reaction.transitions) > MAX_TRANSITIONS[tier]:
            continue  # outside this tier's size bound (stated in RULE)
        heavy = len(reaction.transitions) > 40
        for cfg in configs(tier, spec["formalism"], heavy):
            if heavy and cfg["couplings"]:
                continue
            out.append({"reaction": {"spec": spec}, "config": cfg, "seed": seed})
    names = R.catalogue_names()
    for name in names:
        base = name.rsplit(".", 1)[0]
        if tier == "quick" and base not in CATALOGUE_QUICK:
            continue
        formalism = "helicity" if name.endswith(".hel") else "canonical-helicity"
        for cfg in configs(tier, formalism):
            if tier == "quick" and cfg["flags"]:
                continue
            out.append({"reaction": {"catalogue": name}, "config": cfg, "seed": seed})
    return out


# ------------------------------------------------------------------ evaluation
def _identical_with_spin(reaction) -> bool:
    final = list(reaction.final_state.values())
    names = [p.name for p in final]
    return any(names.count(p.name) > 1 and p.spin > 0 for p in final)


def configure(builder, cfg, reaction):
    from ampform.dynamics.builder import create_relativistic_breit_wigner  # noqa: PLC0415

    builder.config.use_helicity_couplings = bool(cfg.get("couplings"))
    for flag, value in cfg.get("flags", {}).items():
        if hasattr(builder.naming, flag):
            setattr(builder.naming, flag, value)
    if cfg.get("dyn") == "bw":
        for name in reaction.get_intermediate_particles().names:
            builder.dynamics.assign(name, create_relativistic_breit_wigner)
    if cfg.get("dyn") == "bwff":
        from ampform.dynamics.builder import create_relativistic_breit_wigner_with_ff  # noqa: PLC0415

        for p in reaction.get_intermediate_particles():
            if _ff_defined(reaction, p):
                builder.dynamics.assign(p.name, create_relativistic_breit_wigner_with_ff)


def _ff_defined(reaction, particle) -> bool:
    """The decay of this resonance defines L: canonical formalism, or integer spin."""
    return reaction.formalism != "helicity" or float(particle.spin).is_integer()


def coefficient_vectors(n: int):
    vecs = []
    if n == 0:
        return np.zeros((1, 0), dtype=complex), False
    capped = n > 14
    for i in range(n):
        v = np.zeros(n, dtype=complex)
        v[i] = 1
        vecs.append(v)
    pairs = itertools.combinations(range(n), 2) if not capped else (
        (i, j) for i in range(n) for j in (i + 1, i + 2) if j < n)
    for i, j in pairs:
        v = np.zeros(n, dtype=complex)
        v[i] = v[j] = 1
        vecs.append(v)
        w = np.zeros(n, dtype=complex)
        w[i], w[j] = 1, 1j
        vecs.append(w)
    if capped:
        for k in range(8):
            vecs.append(np.array([np.exp(1j * (1.3 * k + 2.1 * i * i)) * (0.5 + (i * 7 + k) % 5 / 4)
                                  for i in range(n)]))
    return np.array(vecs), capped


def angle_grid(names: list[str], max_two_j: int, seed: int):
    """dict name -> 1-d array (G,)."""
    phis = [n for n in names if n.startswith("phi")]
    thetas = [n for n in names if n.startswith("theta")]
    if len(phis) <= 1 and len(thetas) <= 1:
        npt = 4 * max_two_j + 1
        npt = max(npt, 5)
        off = irr(seed, 3)
        ph = -math.pi + (np.arange(npt) + off) * 2 * math.pi / npt
        th = (np.arange(npt) + 0.5 * off + 0.25) * math.pi / npt
        P, T = np.meshgrid(ph, th, indexing="ij")
        out = {}
        for n in phis:
            out[n] = P.ravel()
        for n in thetas:
            out[n] = T.ravel()
        return out, "tensor-grid"
    G = 24
    out = {}
    for k, n in enumerate(sorted(names)):
        alpha = math.sqrt(2 + 3 * k) % 1 or 0.37
        x = ((np.arange(G) + 1) * alpha + irr(seed, k)) % 1.0
        out[n] = (-math.pi + 2 * math.pi * x) if n.startswith("phi") else (0.05 + (math.pi - 0.1) * x)
    return out, "rank1-lattice"


def eval_case(case):
    if case.get("selftest"):
        from vp.ref import spin  # noqa: PLC0415

        n = spin.self_test(2)
        return {"evaluations": n, "outcome": "selftest-ok", "nontrivial": [],
                "sample": {"selftest": f"{n} Wigner-D / Clebsch-Gordan values agree with SymPy"}}
    import ampform  # noqa: PLC0415
    import sympy as sp  # noqa: PLC0415
    from ampform.helicity.naming import create_amplitude_symbol, generate_transition_label  # noqa: PLC0415

    from vp.interp import MultiEvaluator  # noqa: PLC0415
    from vp.ref import helicity as H  # noqa: PLC0415

    reaction = R.reaction_from(case["reaction"])
    cfg = case["config"]
    seed = case.get("seed", 0)
    if _identical_with_spin(reaction):
        return {"outcome": "skipped-identical-with-spin", "evaluations": 0}
    canonical = reaction.formalism != "helicity"
    builder = ampform.get_builder(reaction)
    configure(builder, cfg, reaction)
    model = builder.formulate()
    viol = []
    counters = {}
    tags_in = []
    final_names = [p.name for p in reaction.final_state.values()]
    if any(final_names.count(n) >= 3 for n in final_names):
        tags_in.append("three-or-more-identical-final-state-particles")
    pools = H.projection_pools(reaction)
    have = {H.outer_tuple(t) for t in reaction.transitions}
    if len(have) < math.prod(len(v) for v in pools.values()):
        tags_in.append("outer-helicity-combination-without-transition")
    topos = {t.topology for t in reaction.transitions}

    def bad(what, msg, **detail):
        viol.append({"msg": f"{what}: {msg} [{_describe(case)}]",
                     "tags": [what, *tags_in, *[f"{what}+{t}" for t in tags_in]],
                     "detail": detail})

    coeff_syms = sorted(
        (s for s in model.parameter_defaults if str(s).startswith(("C_", "H_"))),
        key=str,
    )
    cnames = [s.name for s in coeff_syms]
    fixed = {s: v for s, v in model.parameter_defaults.items() if s not in coeff_syms}
    expr_full = model.expression
    leftovers = sorted(expr_full.atoms(sp.Indexed), key=str)
    if leftovers:
        # a coherent sum over no transitions is zero in the formula (definedness is C01's)
        counters["undefined_amplitude_symbols_set_to_zero"] = len(leftovers)
        expr_full = expr_full.xreplace({a: 0 for a in leftovers})
    # ---- everything the library provides, in one generated function
    exprs = {("full",): expr_full}
    chain_names = {}
    for idx, t in enumerate(reaction.transitions):
        name = "A_{" + builder.naming.generate_amplitude_name(t) + "}"
        chain_names[idx] = name
        if name not in model.components:
            bad("component-missing", f"no component {name}")
        else:
            exprs[("A", name)] = model.components[name]
    groups = {}
    for t in reaction.transitions:
        groups.setdefault((H.outer_tuple(t), t.topology), t)
    first_of_tau = {}
    for (tau, _topo), t in groups.items():
        first_of_tau.setdefault(tau, t)
    amp_syms = {key: create_amplitude_symbol(t) for key, t in groups.items()}
    for key, sym in amp_syms.items():
        if sym not in model.amplitudes:
            bad("amplitude-missing", f"no amplitude {sym}")
        else:
            exprs[("amp", str(sym))] = model.amplitudes[sym]
    # entries for outer combinations without any transition must be the empty sum, 0
    extra = [a for a in model.amplitudes if a not in set(amp_syms.values())]
    for a in extra:
        exprs[("extra", str(a))] = model.amplitudes[a]
    int_names = {tau: "I_{" + generate_transition_label(t) + "}" for tau, t in first_of_tau.items()}
    for tau, name in int_names.items():
        if name not in model.components:
            bad("component-missing", f"no component {name}")
        else:
            exprs[("I", name)] = model.components[name]
    if viol:
        return _result(case, viol, 0, 0, counters, "none", False)
    ev = MultiEvaluator(exprs, fixed)
    # ---- grids: angles and masses needed by the model or by the reference
    graphs = {}
    ref_names = set()
    for idx, t in enumerate(reaction.transitions):
        graphs[idx] = H.permuted_graphs(t)
        for g in graphs[idx]:
            ref_names |= set(H.angle_names(g.topology))
            if cfg.get("dyn") in {"bw", "bwff"}:
                ref_names |= {H.mass_name(g.topology, e) for e in g.topology.intermediate_edge_ids}
            if cfg.get("dyn") == "bwff":
                ref_names |= {H.mass_name(g.topology, e) for e in g.topology.outgoing_edge_ids}
    lib_names = {s.name for s in ev.free if s.name not in cnames}
    all_names = sorted(lib_names | ref_names)
    unknown = [n for n in all_names if not n.startswith(("phi", "theta", "m_"))]
    if unknown:
        bad("free-symbols", f"model depends on symbols that are neither angles, masses nor parameters: {unknown}")
        return _result(case, viol, 0, 0, counters, "none", False)
    angle_names = [n for n in all_names if n.startswith(("phi", "theta"))]
    mass_names = [n for n in all_names if n.startswith("m_")]
    max_two_j = int(2 * max(Fraction(s.particle.spin).limit_denominator(2)
                            for t in reaction.transitions for s in t.states.values()))
    grid, grid_kind = angle_grid(angle_names, max_two_j, seed)
    G = len(next(iter(grid.values()))) if grid else 1
    values = {n: v[None, :] for n, v in grid.items()}
    base_by_size = {1: 0.10, 2: 0.80, 3: 1.90, 4: 3.40, 5: 5.00}
    for k, n in enumerate(mass_names):
        size = len(n) - 2  # "m_012" -> 3 final-state ids
        values[n] = ((base_by_size.get(size, 6.0) + 0.03 * k + 0.05 * irr(seed, 40 + k))
                     + 0.04 * np.linspace(0, 1, G))[None, :]
    cvecs, capped = coefficient_vectors(len(cnames))
    K = len(cvecs)
    cvals = {n: cvecs[:, i][:, None] for i, n in enumerate(cnames)}
    ones = {n: np.ones((1, 1), dtype=complex) for n in cnames}

    def shaped(x, k):
        return np.broadcast_to(np.asarray(x, dtype=complex), (k, G))

    lib_ones = ev({**values, **ones})
    lib_vals = ev({**values, **cvals})

    # reference lineshape (BW on resonances, assigned by name)
    def lineshape(t, node):
        if cfg.get("dyn") not in {"bw", "bwff"}:
            return 1.0
        topo = t.topology
        par, c1, c2 = H.node_edges(topo, node)
        if par in topo.incoming_edge_ids:
            return 1.0
        part = t.states[par].particle
        s = values[H.mass_name(topo, par)][0] ** 2
        if cfg.get("dyn") == "bw":
            return part.width * part.mass / (part.mass**2 - s - 1j * part.width * part.mass)
        if not _ff_defined(reaction, part):
            return 1.0
        from vp.ref import dyn as refdyn  # noqa: PLC0415

        ell = t.interactions[node].l_magnitude
        if ell is None:
            ell = int(part.spin)  # documented fallback when the transition has no L
        m1 = np.broadcast_to(values[H.mass_name(topo, c1)][0], s.shape)
        m2 = np.broadcast_to(values[H.mass_name(topo, c2)][0], s.shape)
        return np.array([
            complex(refdyn.breit_wigner_energy_dependent(float(si), part.mass, part.width, float(a), float(b),
                                                         int(ell), 1.0, "PhaseSpaceFactor", True))
            for si, a, b in zip(s, m1, m2)])

    ang1 = dict(grid)
    n_eval = 0
    # ---- (a) per-chain components
    chain_info = {}
    nonzero_chains = 0
    for idx, t in enumerate(reaction.transitions):
        name = chain_names[idx]
        comp = model.components[name]
        csyms = sorted((s for s in comp.free_symbols if s in coeff_syms), key=str)
        got = shaped(lib_ones[("A", name)], 1)[0]
        n_eval += 1
        refs = [H.chain_value(g, ang1, canonical, lineshape) for g in graphs[idx]]
        refs = [np.broadcast_to(np.asarray(r, dtype=complex), (G,)) for r in refs]
        sign = None
        for ref in refs:
            scale = np.max(np.abs(ref))
            if scale < 1e-13:
                if np.max(np.abs(got)) < 1e-12:
                    sign = 0
                continue
            for sg in (1, -1):
                if np.max(np.abs(got - sg * ref)) <= 1e-9 * max(scale, 1.0):
                    sign = sg
            if sign:
                break
        if sign is None:
            feats = []
            if len(refs) > 1 and cfg.get("dyn") in {"bw", "bwff"}:
                feats.append("symmetrised-chain-with-dynamics")
            viol.append({
                "msg": f"chain-amplitude: {name} is not +-(reference product) for any permutation image;"
                       f" max|lib|={np.max(np.abs(got)):.3g} max|ref|={max(np.max(np.abs(r)) for r in refs):.3g}"
                       f" [{_describe(case)}]",
                "tags": ["chain-amplitude", *feats, *tags_in], "detail": {"transition": idx}})
            continue
        if sign != 0:
            nonzero_chains += 1
        chain_info[idx] = (csyms, sign or 1, sum(refs))
    if viol:
        return _result(case, viol, n_eval, nonzero_chains, counters, grid_kind, capped)
    # ---- reference amplitudes per (outer tuple, topology of the transition)
    ref_amp = {}
    for idx, t in enumerate(reaction.transitions):
        csyms, sign, total = chain_info[idx]
        coeff = np.ones((K, 1), dtype=complex)
        for sy in csyms:
            coeff = coeff * cvals[sy.name]
        key = (H.outer_tuple(t), t.topology)
        ref_amp[key] = ref_amp.get(key, 0) + coeff * sign * total[None, :]
    # ---- (c) amplitudes
    for key, sym in amp_syms.items():
        got = shaped(lib_vals[("amp", str(sym))], K)
        n_eval += 1
        if not _close(got, ref_amp[key]):
            bad("amplitude-sum", f"{sym}: max dev {np.max(np.abs(got - ref_amp[key])):.3g}", symbol=str(sym))
    for a in extra:
        got = shaped(lib_vals[("extra", str(a))], K)
        n_eval += 1
        if not _close(got, np.zeros((K, G))):
            bad("amplitude-extra", f"{a} has no transition but is not zero (max {np.max(np.abs(got)):.3g})")
    # ---- (b) I components
    by_tau = {}
    for (tau, _topo), amp in ref_amp.items():
        by_tau[tau] = by_tau.get(tau, 0) + amp
    for tau, name in int_names.items():
        got = shaped(lib_vals[("I", name)], K)
        n_eval += 1
        ref = np.abs(by_tau[tau]) ** 2
        if not _close(got, ref):
            bad("intensity-component", f"{name}: max dev {np.max(np.abs(got - ref)):.3g}")
    # ---- (d) full intensity: incoherent sum over the product of projection pools
    ids = H.outer_ids(reaction.transitions[0].topology)
    ref_I = np.zeros((K, G))
    for combo in itertools.product(*[pools[i] for i in ids]):
        if combo in by_tau:
            ref_I = ref_I + np.abs(by_tau[combo]) ** 2
    got = shaped(lib_vals[("full",)], K)
    n_eval += 1
    if not _close(got, ref_I):
        bad("intensity", f"max dev {np.max(np.abs(got - ref_I)):.3g} (max |I| {np.max(np.abs(ref_I)):.3g})")
    counters["grid_points"] = G * K
    return _result(case, viol, n_eval, nonzero_chains, counters, grid_kind, capped,
                   sample={"reaction": _describe(case), "chains": len(reaction.transitions),
                           "topologies": len(topos), "coefficients": len(cnames),
                           "grid": f"{grid_kind} {G} angle points x {K} coefficient vectors",
                           "max_intensity": float(np.max(np.abs(ref_I)))})


def _close(a, b) -> bool:
    a, b = np.asarray(a), np.asarray(b)
    if np.any(np.isnan(a)) or np.any(np.isnan(b)):
        return False
    scale = max(float(np.max(np.abs(b))), 1.0)
    return bool(np.max(np.abs(a - b)) <= 1e-9 * scale)


def _describe(case) -> str:
    r = case["reaction"]
    if "catalogue" in r:
        name = r["catalogue"]
    else:
        s = r["spec"]
        outer = " ".join(f"{k}:{v[0]}({v[1]})" for k, v in s["outer"].items())
        chains = ";".join(
            f"n{c['n']}t{c['topo']}p{''.join(map(str, c['perm']))}"
            + "".join(f" {e}:{p[0]}({p[1]})" for e, p in c.get("res", {}).items())
            + " pc=" + "".join("1" if v else "0" for v in c.get("pc", {}).values())
            for c in s["chains"])
        name = f"{s['formalism'][:3]} {outer} | {chains}"
    cfg = case["config"]
    return f"{name} | couplings={cfg.get('couplings')} flags={cfg.get('flags')} dyn={cfg.get('dyn')}"


def _result(case, viol, n_eval, nonzero_chains, counters, grid_kind, capped, sample=None):
    res = {
        "violations": viol,
        "evaluations": n_eval,
        "nontrivial": [_describe(case)] if nonzero_chains >= 2 else [],
        "outcome": "violation" if viol else f"ok-{grid_kind}",
        "counters": counters,
        "caps": ["coefficient basis reduced (more than 14 coefficients)"] if capped else [],
    }
    if sample:
        res["sample"] = sample
    return res
