"""C03 - parity partners carry exactly the parity sign of the flipped nodes.

Engine SHAPE over reactions with 1-3 parity-conserving nodes: all eta sign patterns (all
parity assignments), mixed conserving / violating nodes, the naming flags that change
which chains share a coefficient, both formalisms, plus the qrules catalogue.

Oracle 1 (sign law): for every pair of chains that share their coefficient(s) and differ
only by reversing both daughter helicities at a set F of parity-conserving nodes, the
ratio of their coupling factors (component / product of conj Wigner-D, coefficient = 1)
is prod_{n in F} eta_n with eta = P P1 P2 (-1)^(J-s1-s2) from the particle table.
Oracle 2 (canonical equivalence): the same reaction in the canonical formalism; for every
canonical basis assignment the helicity couplings implied by the Clebsch-Gordan
expansion must be the same for all chains behind one helicity-model coefficient, and
with those values both intensities agree on the angle grid.
"""

from __future__ import annotations

import itertools
from fractions import Fraction

import numpy as np

from vp import reactions as R
from vp.checks import c02

PROPERTY = "C03"
LEVEL = "exploration"
RULE = (
    "factory reactions A->BC and A->B R(->CD) (every spectator) and 4-body cascades with"
    " parity conservation at every subset of nodes x all parity assignments of the"
    " particles (all eta patterns) x spins {0,1/2,1} (thorough: +3/2) x naming flags, in"
    " both formalisms, plus catalogue pairs (.hel/.can); all pairs of chains in every"
    " coefficient group are examined; non-trivial = a reaction with >= 1 judged partner"
    " pair with F non-empty; distinct = distinct (reaction, flags)"
)
ASSUMPTIONS = [
    "pairs are judged only if they share all coefficients, differ by reversal at"
    " parity-conserving nodes only, and the sharing is due to parity coupling (helicity"
    " formalism with child helicities in the names) or to LS coefficients (canonical)",
    "eta is computed from the particle table (parities, spins), not from the"
    " parity_prefactor stored in the transition",
]


def _consistent(*spins) -> bool:
    return sum(Fraction(s) for s in spins).denominator == 1


def factory_specs(tier: str) -> list[dict]:
    specs = []
    spins = ["0", "1/2", "1"] if tier == "quick" else ["0", "1/2", "1", "3/2"]
    for JA, sB, sC in itertools.product(spins, repeat=3):
        if not _consistent(JA, sB, sC):
            continue
        for pA, pB in itertools.product((1, -1), repeat=2):
            specs.append(R.one_node_spec(JA, sB, sC, pA=pA, pB=pB, pC=1, pc=True))
    two = ["0", "1/2", "1"] if tier == "quick" else ["0", "1/2", "1", "3/2"]
    for JA, s0, s1, s2, sR in itertools.product(two, repeat=5):
        n_spin = sum(Fraction(x) > 0 for x in (s0, s1, s2))
        if n_spin == 0 or n_spin > 2:
            continue
        if tier == "quick" and sum(Fraction(x) for x in (s0, s1, s2)) > Fraction(3, 2):
            continue
        high = any(Fraction(x) > 1 for x in (JA, s0, s1, s2, sR))
        for spectator in ((0,) if (tier == "quick" or high) else (0, 1, 2)):
            sp_spin = (s0, s1, s2)[spectator]
            pair = [s for i, s in enumerate((s0, s1, s2)) if i != spectator]
            if not (_consistent(JA, sp_spin, sR) and _consistent(sR, *pair)):
                continue
            # parity assignments: A and R vary -> all four (eta0, eta1) patterns occur
            for pA, pR, pc in itertools.product((1, -1), (1, -1), ((True, True), (True, False), (False, True))):
                res = R.P("R1", sR, 1.2, pR)
                specs.append(R.three_body_spec(
                    JA, s0, s1, s2, [(spectator, res, pc[0], pc[1])],
                    parities=(pA, 1, 1, 1)))
    # two resonances in one topology and two topologies, unlike eta
    for pA, p4, p5 in itertools.product((1, -1), repeat=3):
        specs.append(R.three_body_spec(
            1, "1/2", "1/2", 0,
            [(0, R.P("R4", "1/2", 1.2, p4), True, True), (1, R.P("R5", "1/2", 1.5, p5), True, True)],
            parities=(pA, 1, -1, -1)))
    # four-body cascade with three conserving nodes
    for topo in (0, 1):
        for pA, p1, p2 in itertools.product((1, -1), repeat=3):
            outer = {"-1": R.P("A", 1, 4.0, pA), "0": R.P("B", "1/2", 0.2, 1), "1": R.P("C", "1/2", 0.3, 1),
                     "2": R.P("D", 0, 0.4, -1), "3": R.P("E", 0, 0.5, -1)}
            tp = R.isobar_topologies(4)[topo]
            inter = sorted(tp.intermediate_edge_ids)
            for sa, sb in (("1/2", "1"), ("1", "1/2"), ("1/2", "0"), ("0", "1/2"), ("1", "1"), ("1/2", "1/2")):
                res = {str(inter[0]): R.P("R1", sa, 1.5, p1), str(inter[1]): R.P("R2", sb, 1.1, p2)}
                specs.append({"formalism": "helicity", "init": "full", "outer": outer,
                              "chains": [{"n": 4, "topo": topo, "perm": [0, 1, 2, 3], "res": res,
                                          "pc": {"0": True, "1": True, "2": True}}]})
    # X -> R R with identical resonances decaying identically (identical spinning final
    # particles): both nodes have the same name; sign law on the chain components only
    tp = R.isobar_topologies(4)[1]
    inter = sorted(tp.intermediate_edge_ids)
    for pA, pR, sC in itertools.product((1, -1), (1, -1), ("1", "1/2")):
        C = R.P("C", sC, 0.3, -1 if sC == "1" else 1)
        D = R.P("D", 0, 0.4, -1) if sC == "1" else R.P("D", "1/2", 0.4, 1)
        Rp = R.P("R1", 1, 1.5, pR)
        outer = {"-1": R.P("A", 0, 4.0, pA), "0": C, "1": D, "2": C, "3": D}
        specs.append({"formalism": "helicity", "init": "full", "outer": outer,
                      "chains": [{"n": 4, "topo": 1, "perm": [0, 1, 2, 3],
                                  "res": {str(inter[0]): Rp, str(inter[1]): Rp},
                                  "pc": {"0": True, "1": True, "2": True}}]})
    return specs


FLAGS_HEL = [{}, {"insert_parent_helicities": True}, {"insert_child_helicities": False}]
MAX_TRANSITIONS = {"quick": 48, "thorough": 160}
CATALOGUE = ["jpsi_ksp_sigma_n", "jpsi_gpipi_f0f2", "lc_pkpi", "jpsi_3pi_rho", "etac_lamlam",
             "jpsi_gpipi_omega", "jpsi_ksp_full", "psi4160_ddpi", "jpsi_gpipi_f2_full", "d0_kkk",
             "jpsi_4body_omega_f0"]


def cases(tier, seed):
    out = []
    for spec in factory_specs(tier):
        try:
            rh = R.build_reaction(spec)
        except ValueError:
            continue
        if len(rh.transitions) > MAX_TRANSITIONS[tier]:
            continue
        for flags in FLAGS_HEL:
            out.append({"reaction": {"spec": spec}, "flags": flags, "seed": seed})
    # live-builder sequences of flag changes (a model must not depend on what the
    # builder formulated before) for reactions with several conserving nodes
    live_specs = [sp_ for sp_ in factory_specs(tier)
                  if len(sp_["chains"]) == 1 and sp_["chains"][0]["n"] == 3
                  and all(sp_["chains"][0]["pc"].values())
                  and (sp_["outer"]["-1"][1], sp_["outer"]["0"][1], sp_["outer"]["1"][1]) == ("1", "1/2", "1/2")]
    n_live = 0
    for spec in live_specs:
        if n_live >= (4 if tier == "quick" else 40):
            break
        try:
            if len(R.build_reaction(spec).transitions) > MAX_TRANSITIONS[tier]:
                continue
        except ValueError:
            continue
        n_live += 1
        out.append({"reaction": {"spec": spec}, "flags": {}, "live": True, "seed": seed})
    out.append({"reaction": {"catalogue": "jpsi_ksp_sigma_n"}, "flags": {}, "live": True, "seed": seed})
    for base in CATALOGUE:
        if tier == "quick" and base in {"jpsi_ksp_full", "psi4160_ddpi", "jpsi_gpipi_f2_full", "jpsi_4body_omega_f0"}:
            continue
        for flags in FLAGS_HEL[: (1 if tier == "quick" else 3)]:
            out.append({"reaction": {"catalogue": base}, "flags": flags, "seed": seed})
    return out


# ------------------------------------------------------------------ helpers
def _eta_of_node(t, node):
    from vp.ref import helicity as H  # noqa: PLC0415

    par, c1, c2 = H.node_edges(t.topology, node)
    return R.eta(t.states[par].particle, t.states[c1].particle, t.states[c2].particle)


def _node_hel(t, node):
    from vp.ref import helicity as H  # noqa: PLC0415
    from vp.ref.spin import F  # noqa: PLC0415

    par, c1, c2 = H.node_edges(t.topology, node)
    return (F(t.states[c1].spin_projection), F(t.states[c2].spin_projection))


def _state_key(t):
    from vp.ref.spin import F  # noqa: PLC0415

    return (t.topology, tuple(sorted((i, s.particle.name, F(s.spin_projection)) for i, s in t.states.items())))


def _formulate(reaction, flags, builder=None):
    import ampform  # noqa: PLC0415

    if builder is None:
        builder = ampform.get_builder(reaction)
    for flag, value in flags.items():
        if hasattr(builder.naming, flag):
            setattr(builder.naming, flag, value)
    return builder, builder.formulate()


def _coupling_factors(reaction, builder, model, grid, coeff_syms):
    """chain index -> (coefficient symbols, a_t array over the grid) with
    a_t = component(coefficients = 1) / prod conj D."""
    from vp.interp import MultiEvaluator  # noqa: PLC0415
    from vp.ref import helicity as H  # noqa: PLC0415

    exprs = {}
    names = {}
    for idx, t in enumerate(reaction.transitions):
        name = "A_{" + builder.naming.generate_amplitude_name(t) + "}"
        names[idx] = name
        exprs[name] = model.components[name]
    fixed = {s: v for s, v in model.parameter_defaults.items() if s not in coeff_syms}
    ev = MultiEvaluator(exprs, fixed)
    G = len(next(iter(grid.values())))
    values = {n: v for n, v in grid.items()}
    values.update({s.name: np.ones(1) for s in coeff_syms})
    missing = [s.name for s in ev.free if s.name not in values]
    if missing:
        return None, missing
    out_vals = ev(values)
    result = {}
    for idx, t in enumerate(reaction.transitions):
        comp = model.components[names[idx]]
        csyms = tuple(sorted((s.name for s in comp.free_symbols if s in coeff_syms)))
        got = np.broadcast_to(np.asarray(out_vals[names[idx]], dtype=complex), (G,))
        # images under identical-particle exchange share the name; the component holds
        # the last image: compare with each image's D product
        best = None
        for g in H.permuted_graphs(t):
            d = np.broadcast_to(np.asarray(H.chain_value(g, grid, canonical=False), dtype=complex), (G,))
            mask = np.abs(d) > 1e-6
            if not mask.any():
                continue
            ratio = got[mask] / d[mask]
            if np.max(np.abs(ratio - ratio[0])) <= 1e-9 * max(1.0, abs(ratio[0])):
                best = complex(ratio[0])
                break
        result[idx] = (csyms, best)
    return result, []


def eval_case(case):
    from vp.ref import helicity as H  # noqa: PLC0415
    from vp.ref.spin import F, clebsch_gordan  # noqa: PLC0415

    seed = case.get("seed", 0)
    flags = case["flags"]
    rd = case["reaction"]
    if "catalogue" in rd:
        rh = R.load_catalogue(rd["catalogue"] + ".hel")
        rc = R.load_catalogue(rd["catalogue"] + ".can")
        desc = rd["catalogue"]
    else:
        spec_h = dict(rd["spec"], formalism="helicity")
        spec_c = dict(rd["spec"], formalism="canonical-helicity")
        rh = R.build_reaction(spec_h)
        try:
            rc = R.build_reaction(spec_c)
        except ValueError:
            rc = None
        desc = c02._describe({"reaction": {"spec": spec_h}, "config": {}})  # noqa: SLF001
    desc = f"{desc} | flags={flags}"
    # identical spinning final-state particles: the sign law on the chain components is
    # still well defined (oracle 1); the cross-formalism oracle 2 is skipped for them
    identical_spin = c02._identical_with_spin(rh)  # noqa: SLF001
    viol, outcomes = [], {}
    n_eval = 0
    judged_pairs = 0
    feats = []

    def note(k):
        outcomes[k] = outcomes.get(k, 0) + 1

    def bad(kind, msg, tags=(), **detail):
        viol.append({"msg": f"{kind}: {msg} [{desc}]", "tags": [kind, *feats, *tags], "detail": detail})

    # ---------------- oracle 1: sign law, in both formalisms
    max_two_j = int(2 * max(Fraction(s.particle.spin).limit_denominator(2)
                            for t in rh.transitions for s in t.states.values()))
    live_builders = {}
    steps = [flags]
    if case.get("live"):
        steps = [{}, {"insert_parent_helicities": True}, {"insert_parent_helicities": False},
                 {"insert_child_helicities": False}, {"insert_child_helicities": True},
                 {"insert_parent_helicities": True}, {"insert_parent_helicities": False}]
    for flags in steps:
        for label, reaction in (("helicity", rh), ("canonical", rc)):
            if reaction is None:
                continue
            fl = flags if label == "helicity" else {k: v for k, v in flags.items() if k != "insert_child_helicities"}
            if case.get("live"):
                # ONE builder per formalism is re-configured and re-formulated step by step
                builder, model = _formulate(reaction, fl, live_builders.get(label))
                live_builders[label] = builder
            else:
                builder, model = _formulate(reaction, fl)
            coeff_syms = [s for s in model.parameter_defaults if str(s).startswith("C_")]
            names = set()
            for t in reaction.transitions:
                for g in H.permuted_graphs(t):
                    names |= set(H.angle_names(g.topology))
            grid, _ = c02.angle_grid(sorted(names), 1, seed) if len(names) > 2 else c02.angle_grid(sorted(names), max_two_j, seed)
            factors, missing = _coupling_factors(reaction, builder, model, grid, coeff_syms)
            if factors is None:
                bad("component-free-symbols", f"{label}: components depend on undefined {missing}")
                continue
            child_hel = getattr(builder.naming, "insert_child_helicities", True)
            groups = {}
            for idx, (csyms, a) in factors.items():
                groups.setdefault(csyms, []).append(idx)
            for csyms, members in groups.items():
                for i, j in itertools.combinations(members, 2):
                    ti, tj = reaction.transitions[i], reaction.transitions[j]
                    if ti.topology != tj.topology:
                        continue
                    if any(ti.states[e].particle.name != tj.states[e].particle.name for e in ti.states):
                        continue
                    nodes = sorted(ti.topology.nodes)
                    if label == "canonical" and any(
                        (ti.interactions[n].l_magnitude, ti.interactions[n].s_magnitude)
                        != (tj.interactions[n].l_magnitude, tj.interactions[n].s_magnitude) for n in nodes):
                        continue
                    flipped, ok = [], True
                    for n in nodes:
                        hi, hj = _node_hel(ti, n), _node_hel(tj, n)
                        if hi == hj:
                            continue
                        if hj == (-hi[0], -hi[1]):
                            flipped.append(n)
                        else:
                            ok = False
                            break
                    if not ok or not flipped:
                        continue
                    # outer helicities other than through flipped nodes must agree: the
                    # parent helicity of a non-flipped node may differ (it is the daughter of
                    # a flipped one) - fine; the initial-state projection must be equal
                    init = next(iter(ti.topology.incoming_edge_ids))
                    if F(ti.states[init].spin_projection) != F(tj.states[init].spin_projection):
                        continue
                    if any(ti.interactions[n].parity_prefactor is None for n in flipped):
                        note(f"{label}:pair-not-judged(non-conserving node flipped)")
                        continue
                    if label == "helicity" and not child_hel:
                        note("helicity:pair-not-judged(sharing not due to parity coupling)")
                        continue
                    ai, aj = factors[i][1], factors[j][1]
                    if ai is None or aj is None:
                        bad("chain-not-proportional", f"{label}: component of chain {i if ai is None else j} is not"
                            " a constant multiple of the Wigner-D product", chain=i if ai is None else j)
                        continue
                    want = 1
                    for n in flipped:
                        want *= _eta_of_node(ti, n)
                    n_eval += 1
                    judged_pairs += 1
                    if abs(ai) < 1e-12 and abs(aj) < 1e-12:
                        note(f"{label}:pair-both-zero")
                        continue
                    if abs(aj - want * ai) > 1e-9 * max(abs(ai), abs(aj)):
                        etas = {n: _eta_of_node(ti, n) for n in nodes}
                        tags = []
                        if label == "helicity" and len([n for n in nodes if ti.interactions[n].parity_prefactor is not None]) >= 2:
                            tags.append("several-parity-conserving-nodes")
                        bad("parity-sign", f"{label}: chains {i},{j} share {csyms} and differ by reversal at nodes"
                            f" {flipped}: coupling-factor ratio {aj / ai if abs(ai) > 0 else 'inf'} but prod eta = {want}"
                            f" (eta per node {etas})", tags, chains=[i, j], flipped=flipped)
                    else:
                        note(f"{label}:pair-ok(|F|={len(flipped)},prod-eta={want})")
    # ---------------- oracle 2: canonical equivalence
    if rc is not None and not viol and flags.get("insert_child_helicities", True) and not identical_spin \
            and not case.get("live"):
        fl_h = flags
        bh, mh = _formulate(rh, fl_h)
        bc, mc = _formulate(rc, {})
        ch_syms = [s for s in mh.parameter_defaults if str(s).startswith("C_")]
        cc_syms = sorted((s for s in mc.parameter_defaults if str(s).startswith("C_")), key=str)
        names = set()
        for t in rh.transitions:
            for g in H.permuted_graphs(t):
                names |= set(H.angle_names(g.topology))
        grid, _ = c02.angle_grid(sorted(names), max_two_j if len(names) <= 2 else 1, seed)
        fh, _ = _coupling_factors(rh, bh, mh, grid, ch_syms)
        fc, _ = _coupling_factors(rc, bc, mc, grid, cc_syms)
        if fh is not None and fc is not None and all(v[1] is not None for v in fh.values()) \
                and all(v[1] is not None for v in fc.values()):
            by_state = {}
            for k, t in enumerate(rc.transitions):
                by_state.setdefault(_state_key(t), []).append(k)
            cc_names = [s.name for s in cc_syms]
            cvecs, _capped = c02.coefficient_vectors(len(cc_names))
            cvecs = cvecs[: min(len(cvecs), 3 * len(cc_names) + 12)]
            # implied helicity coupling of chain t_h for canonical coefficient vector v:
            #   h(t_h) = sum_{t_c with the same states} prod(a[c]) * a_{t_c}
            implied = {}
            comparable = {}
            for idx, t in enumerate(rh.transitions):
                tot = np.zeros(len(cvecs), dtype=complex)
                pattern = tuple(t.interactions[n].parity_prefactor is None for n in sorted(t.topology.nodes))
                # "generated under the same parity-conserving interactions": every canonical
                # transition behind this chain must conserve parity at the same nodes
                comparable[idx] = all(
                    tuple(rc.transitions[k].interactions[n].parity_prefactor is None
                          for n in sorted(t.topology.nodes)) == pattern
                    for k in by_state.get(_state_key(t), []))
                for k in by_state.get(_state_key(t), []):
                    csyms, a = fc[k]
                    term = np.full(len(cvecs), a, dtype=complex)
                    for name in csyms:
                        term = term * cvecs[:, cc_names.index(name)]
                    tot = tot + term
                implied[idx] = tot
            groups = {}
            for idx, (csyms, a) in fh.items():
                groups.setdefault(csyms, []).append(idx)
            single = all(len(c) == 1 for c in groups)
            for csyms, members in groups.items():
                if len(csyms) != 1:
                    continue
                vals = []
                if not all(comparable[idx] for idx in members):
                    note("equivalence:group-not-comparable(different parity conservation in the canonical reaction)")
                    continue
                for idx in members:
                    a = fh[idx][1]
                    if abs(a) < 1e-12:
                        continue
                    vals.append((idx, implied[idx] / a))
                for (i0, v0), (i1, v1) in itertools.combinations(vals, 2):
                    n_eval += 1
                    if np.max(np.abs(v0 - v1)) > 1e-9 * max(1.0, float(np.max(np.abs(v0)))):
                        bad("canonical-equivalence", f"chains {i0},{i1} share {csyms} but the canonical expansion"
                            f" implies different coefficient values (e.g. {v0[np.argmax(np.abs(v0 - v1))]:.4g} vs"
                            f" {v1[np.argmax(np.abs(v0 - v1))]:.4g})",
                            ["several-parity-conserving-nodes"] if sum(
                                1 for n in rh.transitions[i0].topology.nodes
                                if rh.transitions[i0].interactions[n].parity_prefactor is not None) >= 2 else [],
                            chains=[i0, i1])
                        break
                    note("equivalence:group-consistent")
            _ = single
        else:
            note("equivalence:skipped(non-proportional component)")
    return {
        "violations": viol,
        "evaluations": n_eval,
        "nontrivial": [desc] if judged_pairs else [],
        "outcomes": outcomes or {"no-judged-pair": 1},
        "sample": {"reaction": desc, "judged_pairs": judged_pairs, "chains": len(rh.transitions)},
    }
