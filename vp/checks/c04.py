"""C04 - the unpolarised intensity is invariant under a global rotation of the event.

Engine SHAPE with kinematics from four-momenta: reactions with complete helicity sets
(every single topology with 2-4 (5) final states, every subset of the three 3-body
topologies, 4-body cascade + two-resonance pairs), spinless final states without
alignment and spinning final states with each alignment choice; events on a lattice;
rotations = the 24 proper rotations of the cube + an Euler-angle lattice (incl. pure z-
and pure y-rotations).  Metamorphic oracle I(kin(R p)) = I(kin(p)) on the polarisation
basis of the coefficients (hence for all coefficient values); no reference model.
"""

from __future__ import annotations

import itertools
import math
from fractions import Fraction

import numpy as np

from vp import reactions as R
from vp.util import irr

PROPERTY = "C04"
LEVEL = "exploration"
RULE = (
    "reactions with complete helicity sets: A->BC, A->B R(->CD) for every spectator, 4-body"
    " cascade / two-resonance (5-body thorough), every subset of >= 2 of the three 3-body"
    " topologies and 4-body topology pairs; spins {0,1/2,1}; alignment none for single"
    " topologies and spinless final states, axis-angle / DPD(1-3) for spinning final"
    " states; x 4 lattice events x 50 rotations x polarisation basis; non-trivial = the"
    " intensity really varies over the events (non-constant) for some basis vector;"
    " distinct = distinct (reaction, alignment)"
)
ASSUMPTIONS = [
    "rotations act on all final-state momenta in the initial-state rest frame",
    "events keep every polar angle >= ~1e-2 away from 0 and pi (phi is ill-conditioned there)",
    "axis-angle models with a massless decay product of a resonance evaluate to NaN (C01"
    " known finding) and are not judged here",
]


def _consistent(*spins) -> bool:
    return sum(Fraction(s) for s in spins).denominator == 1


def _rot(axis, angle):
    from vp.ref import frames  # noqa: PLC0415

    return {"x": frames.rot_x, "y": frames.rot_y, "z": frames.rot_z}[axis](angle)


def rotations(seed):
    """[(label, 4x4, is_pure_z)]"""
    out = []
    # 24 proper rotations of the cube as products of quarter turns
    seen = []
    gens = [("x", math.pi / 2), ("y", math.pi / 2), ("z", math.pi / 2)]
    frontier = [("id", np.eye(4))]
    mats = [("id", np.eye(4))]
    while frontier:
        new = []
        for lab, M in frontier:
            for ax, a in gens:
                M2 = _rot(ax, a) @ M
                if not any(np.allclose(M2, m) for _, m in mats):
                    mats.append((f"{ax}90*{lab}", M2))
                    new.append((f"{ax}90*{lab}", M2))
        frontier = new
    for lab, M in mats[1:]:
        pure_z = np.allclose(M[3, 1:4], [0, 0, 1]) and np.allclose(M[1:4, 3], [0, 0, 1])
        out.append((f"cube:{lab}", M, bool(pure_z)))
    _ = seen
    # pure z and pure y rotations, Euler lattice z-y-z
    for k in range(1, 6):
        a = 2 * math.pi * (k + irr(seed, k)) / 6.5
        out.append((f"z:{a:.4f}", _rot("z", a), True))
    for k in range(1, 6):
        b = math.pi * (k + irr(seed, 10 + k)) / 6.5
        out.append((f"y:{b:.4f}", _rot("y", b), False))
    for k, (i, j, l) in enumerate(itertools.product(range(2), range(2, 4), range(2))):
        a = 2 * math.pi * (i + 0.37 + irr(seed, 20 + k)) / 2.7
        b = math.pi * (j - 1.4 + 0.5 * irr(seed, 30 + k)) / 2.9
        g = 2 * math.pi * (l + 0.21 + irr(seed, 40 + k)) / 3.1
        out.append((f"zyz:{a:.3f},{b:.3f},{g:.3f}", _rot("z", a) @ _rot("y", b) @ _rot("z", g), False))
    return out


def factory_cases(tier):
    """[(spec, [alignments])]"""
    out = []
    spins = ["0", "1/2", "1"] if tier == "quick" else ["0", "1/2", "1", "3/2"]
    for JA, sB, sC in itertools.product(spins, repeat=3):
        if _consistent(JA, sB, sC) and Fraction(JA) > 0:
            spinning = Fraction(sB) > 0 or Fraction(sC) > 0
            out.append((R.one_node_spec(JA, sB, sC), ["none", "aa"] if spinning else ["none"]))
    two = ["0", "1/2", "1"]
    for JA, s0, s1, s2, sR in itertools.product(two, repeat=5):
        n_spin = sum(Fraction(x) > 0 for x in (s0, s1, s2))
        if n_spin > (1 if tier == "quick" else 2) or Fraction(sR) == 0 and Fraction(JA) == 0:
            continue
        for spectator in (0, 1, 2):
            sp_spin = (s0, s1, s2)[spectator]
            pair = [s for i, s in enumerate((s0, s1, s2)) if i != spectator]
            if not (_consistent(JA, sp_spin, sR) and _consistent(sR, *pair)):
                continue
            if tier == "quick" and spectator != 0 and (JA, sR) not in {("1", "1"), ("1/2", "1/2")}:
                continue
            spec = R.three_body_spec(JA, s0, s1, s2, [(spectator, R.P("R1", sR, 1.2, -1), False, False)],
                                     parities=(-1, 1, -1, -1))
            aligns = ["none"]
            if n_spin:
                aligns += ["aa", "dpd1"] if tier == "quick" else ["aa", "dpd1", "dpd2", "dpd3"]
            out.append((spec, aligns))
    # multi-topology, spinless final state: every subset of >= 2 topologies
    r_by_spect = {0: R.P("R1", 1, 1.2, -1), 1: R.P("R2", 1, 1.4, -1), 2: R.P("R3", 1, 1.0, -1)}
    for k in (2, 3):
        for subset in itertools.combinations((0, 1, 2), k):
            for JA in ("1", "0") if tier == "quick" else ("1", "0", "2"):
                chains = [(s, r_by_spect[s], False, False) for s in subset]
                if JA == "0":
                    chains = [(s, R.P(f"S{s}", 0, 1.1 + 0.1 * s, 1), False, False) for s in subset]
                out.append((R.three_body_spec(JA, 0, 0, 0, chains, parities=(-1, -1, -1, -1)), ["none"]))
    # multi-topology, spinning final state: alignment required
    for subset in ((1, 2), (0, 1), (0, 2), (0, 1, 2)):
        chains = [(s, R.P(f"R{4 + s}", "1/2", 1.2 + 0.15 * s, 1), False, False) for s in subset]
        # spectator must be consistent: A(1) -> s(1/2 or 0) R(1/2): use final spins (1/2,1/2,0) where possible
        for fs in (("1/2", "1/2", "0"), ("1/2", "0", "1/2"), ("0", "1/2", "1/2")):
            ok = True
            for s in subset:
                sp_spin = fs[s]
                pair = [x for i, x in enumerate(fs) if i != s]
                sR = "1/2" if Fraction(sp_spin) == Fraction(1, 2) else "1"
                if not (_consistent(1, sp_spin, sR) and _consistent(sR, *pair)):
                    ok = False
            if not ok:
                continue
            chains = []
            for s in subset:
                sR = "1/2" if Fraction(fs[s]) == Fraction(1, 2) else "1"
                chains.append((s, R.P(f"R{4 + s}", sR, 1.2 + 0.15 * s, 1), False, False))
            aligns = ["aa", "dpd1"] if tier == "quick" else ["aa", "dpd1", "dpd2", "dpd3"]
            out.append((R.three_body_spec(1, *fs, chains, parities=(-1, 1, 1, -1)), aligns))
    # multi-topology with integer-spin final-state particles: axis-angle must work
    for fs in (("0", "1", "0"), ("0", "0", "1"), ("1", "0", "0"), ("1", "1", "0")):
        for subset in ((1, 2), (0, 1), (0, 2), (0, 1, 2)):
            for JA in ("1", "0"):
                chains, ok = [], True
                for sp_ in subset:
                    pair = [x for i, x in enumerate(fs) if i != sp_]
                    if not (_consistent(JA, fs[sp_], "1") and _consistent("1", *pair)):
                        ok = False
                        break
                    chains.append((sp_, R.P(f"R{4 + sp_}", 1, 1.2 + 0.15 * sp_, 1), False, False))
                if not ok:
                    continue
                if tier == "quick" and (subset not in ((1, 2), (0, 1)) or (JA == "0" and fs != ("0", "1", "0"))):
                    continue
                out.append((R.three_body_spec(JA, *fs, chains, parities=(-1, 1, 1, -1)), ["aa"]))
    # four-body: cascade, two-resonance, and both together (spinless final state)
    def four(topos, sA="1", s1="1", s2="1", final_spin=None):
        outer = {"-1": R.P("A", sA, 4.0, -1), "0": R.P("B", 0, 0.2, -1), "1": R.P("C", 0, 0.3, -1),
                 "2": R.P("D", 0, 0.4, -1), "3": R.P("E", 0, 0.5, -1)}
        if final_spin:
            for k, v in final_spin.items():
                outer[k][1] = v
        chains = []
        for ti, perm in topos:
            tp = R.isobar_topologies(4)[ti]
            inter = sorted(tp.intermediate_edge_ids)
            res = {str(inter[0]): R.P(f"X{ti}", s1, 1.6, -1), str(inter[1]): R.P(f"Y{ti}", s2, 1.0, -1)}
            chains.append({"n": 4, "topo": ti, "perm": perm, "res": res, "pc": {"0": False, "1": False, "2": False}})
        return {"formalism": "helicity", "init": "full", "outer": outer, "chains": chains}

    out.append((four([(0, [0, 1, 2, 3])]), ["none"]))
    out.append((four([(1, [0, 1, 2, 3])]), ["none"]))
    out.append((four([(0, [0, 1, 2, 3])], s1="1", s2="0"), ["none"]))
    out.append((four([(0, [0, 1, 2, 3]), (1, [0, 1, 2, 3])]), ["none"]))
    out.append((four([(1, [0, 1, 2, 3]), (1, [0, 2, 1, 3])]), ["none"]))
    if tier == "thorough":
        out.append((four([(0, [0, 1, 2, 3]), (0, [1, 0, 2, 3])]), ["none"]))
        out.append((four([(0, [3, 2, 1, 0])]), ["none"]))
        out.append((four([(1, [0, 3, 1, 2])], sA="2"), ["none"]))
        for topo in range(5):
            outer = {"-1": R.P("A", 1, 5.0, -1)}
            for i in range(5):
                outer[str(i)] = R.P("BCDEF"[i], 0, 0.2 + 0.1 * i, -1)
            tp = R.isobar_topologies(5)[topo]
            res = {str(e): R.P(f"R{k + 1}", 1, 1.0 + 0.3 * k, -1)
                   for k, e in enumerate(sorted(tp.intermediate_edge_ids))}
            out.append(({"formalism": "helicity", "init": "full", "outer": outer,
                         "chains": [{"n": 5, "topo": topo, "perm": [0, 1, 2, 3, 4], "res": res,
                                     "pc": {str(n): False for n in tp.nodes}}]}, ["none"]))
    return out


CATALOGUE = {"jpsi_3pi_rho.hel": ["none"], "jpsi_gpipi_f2_full.hel": ["none"],
             "jpsi_gpipi_f2_full.can": ["none"], "jpsi_3pi_rho.can": ["none"]}
MAX_TRANSITIONS = {"quick": 60, "thorough": 200}


def cases(tier, seed):
    out = []
    for spec, aligns in factory_cases(tier):
        try:
            r = R.build_reaction(spec)
        except ValueError:
            continue
        if len(r.transitions) > MAX_TRANSITIONS[tier]:
            continue
        n_topologies = len({t.topology for t in r.transitions})
        for al in aligns:
            if al == "aa" and tier == "quick" and len(r.transitions) > 24 and not (
                    n_topologies == 2 and len(r.transitions) <= 60):
                continue
            out.append({"reaction": {"spec": spec}, "align": al, "seed": seed})
    for name, aligns in CATALOGUE.items():
        for al in aligns:
            out.append({"reaction": {"catalogue": name}, "align": al, "seed": seed})
    return out


def known_region(reaction) -> list[str]:
    """Witness predicate of the known finding (evaluated on the input)."""
    from vp.ref import helicity as H  # noqa: PLC0415

    topos = {t.topology for t in reaction.transitions}
    if len(topos) < 2:
        return []
    for topo in topos:
        for node in topo.nodes:
            _par, c1, c2 = H.node_edges(topo, node)
            d1 = topo.edges[c1].ending_node_id is not None
            d2 = topo.edges[c2].ending_node_id is not None
            if d2 and not d1:  # the decaying child is the opposite-helicity child
                return ["multi-topology-with-opposite-helicity-resonance"]
            if d1 and d2:
                return ["multi-topology-with-opposite-helicity-resonance"]
    return []


def complete_helicity_sets(reaction) -> bool:
    """Every spin projection of the initial state and of each final-state particle occurs
    (massless particles: +-s)."""
    from vp.ref import helicity as H  # noqa: PLC0415
    from vp.ref.spin import F  # noqa: PLC0415

    pools = H.projection_pools(reaction)
    t0 = reaction.transitions[0]
    for i, have in pools.items():
        p = t0.states[i].particle
        want = R.spin_range(F(p.spin), massless=(p.mass == 0.0))
        if sorted(have) != sorted(want):
            return False
    return True


def eval_case(case):
    from vp.checks.c01 import _describe, make_builder, massless_decay_product  # noqa: PLC0415
    from vp.modeleval import ModelRunner, polarisation_basis  # noqa: PLC0415
    from vp.ref import frames  # noqa: PLC0415

    seed = case.get("seed", 0)
    reaction0 = R.reaction_from(case["reaction"])
    align = case["align"]
    desc = _describe({**case, "dyn": "none"})
    if align == "aa" and massless_decay_product(reaction0):
        return {"outcome": "not-judged(axis-angle NaN for massless decay product, C01 finding)", "evaluations": 0}
    if not complete_helicity_sets(reaction0):
        return {"outcome": "not-judged(helicity set incomplete: precondition of the statement)", "evaluations": 0}
    region = known_region(reaction0)
    if align.startswith("dpd") and len({t.topology for t in reaction0.transitions}) > 1:
        region = [*region, "dpd-alignment-with-several-topologies"]
    if align == "aa" and len({t.topology for t in reaction0.transitions}) > 1 and any(
            float(p.spin) % 1 == 0.5 for p in reaction0.final_state.values()):
        # (for integer-spin final states the axis-angle method IS invariant, and enforced)
        region = [*region, "axis-angle-alignment-with-several-topologies-and-half-integer-spin"]
    builder, reaction = make_builder(reaction0, align, "none")
    model = builder.formulate()
    runner = ModelRunner(model)
    if runner.missing:
        return {"violations": [{"msg": f"model depends on undefined {sorted(runner.missing)[:5]} [{desc}]",
                                "tags": ["undefined-symbols"], "detail": {}}], "outcome": "undefined"}
    final_ids = sorted(reaction.final_state)
    masses = [reaction.final_state[i].mass for i in final_ids]
    M = next(iter(reaction.initial_state.values())).mass
    ev0 = frames.lattice_events(M, masses, 4, seed, salt=3, margin=0.08)
    cvecs, capped = polarisation_basis(len(runner.cnames))
    base = runner.intensity({final_ids[k]: ev0[k] for k in range(len(final_ids))}, cvecs)
    viol, outcomes = [], {}
    n_eval = 0
    if not np.all(np.isfinite(base)):
        return {"violations": [{"msg": f"intensity not finite on the unrotated events [{desc}]",
                                "tags": ["nonfinite"], "detail": {}}], "outcome": "nonfinite"}
    scale = np.maximum(np.max(np.abs(base), axis=1, keepdims=True), 1e-12)
    varies = bool(np.any(np.max(np.abs(base - base[:, :1]), axis=1) > 1e-6 * scale[:, 0]))
    worst = 0.0
    for label, Rm, pure_z in rotations(seed):
        ev = {final_ids[k]: ev0[k] @ Rm.T for k in range(len(final_ids))}
        got = runner.intensity(ev, cvecs)
        n_eval += got.size
        dev = np.abs(got - base) / scale
        dev = np.where(np.isfinite(dev), dev, np.inf)
        d = float(np.max(dev))
        worst = max(worst, d if np.isfinite(d) else 1e9)
        if d > 1e-7:
            k, e = np.unravel_index(int(np.argmax(dev)), dev.shape)
            tags = ["rotation-invariance"]
            for tag in region:
                # inside the known region invariance under pure z-rotations is still
                # enforced for the angle-convention finding (it holds there)
                if tag in {"dpd-alignment-with-several-topologies",
                           "axis-angle-alignment-with-several-topologies-and-half-integer-spin"} or not pure_z:
                    tags.append(tag)
            viol.append({
                "msg": f"rotation {label}: I = {got[k, e]:.8g} vs {base[k, e]:.8g} unrotated (rel. dev {d:.3g},"
                       f" coefficient vector {k}, event {e}) [{desc}]",
                "tags": tags, "detail": {"rotation": label, "pure_z": pure_z}})
            outcomes["violated:" + ("pure-z" if pure_z else "general")] = outcomes.get(
                "violated:" + ("pure-z" if pure_z else "general"), 0) + 1
        else:
            key = "invariant(dev<=1e-12)" if d <= 1e-12 else "invariant(dev<=1e-7)"
            outcomes[key] = outcomes.get(key, 0) + 1
    # keep one witness per (pure_z) class to bound the output
    seen, kept = set(), []
    for v in viol:
        k = (v["detail"]["pure_z"], tuple(v["tags"]))
        if k not in seen:
            seen.add(k)
            kept.append(v)
    return {
        "violations": kept,
        "evaluations": n_eval,
        "nontrivial": [desc] if varies else [],
        "outcomes": outcomes,
        "caps": ["coefficient basis reduced (more than 14 coefficients)"] if capped else [],
        "sample": {"case": desc, "topologies": len({t.topology for t in reaction.transitions}),
                   "coefficients": len(runner.cnames), "worst_rel_dev": worst, "intensity_varies": varies},
    }
