"""C05 - spin alignment never changes a single-topology intensity.

Engine SHAPE: every single-topology reaction of the factory with complete helicity sets
(three-body for DPD, two- and four-body for axis-angle), final-state spins 0..1 (quick),
..5/2 (thorough), masses incl. 0 for each spinning final state; alignment in {none,
axis-angle, DPD(1), DPD(2), DPD(3)}.  Oracles: the intensities agree at every lattice
event on the polarisation basis of the coefficients; formulation does not raise; every
index pool of a rotation sum is -s..s in unit steps; create_spin_range for every spin
0..5 and both flag values.
"""

from __future__ import annotations

import itertools
from fractions import Fraction

import numpy as np

from vp import reactions as R

PROPERTY = "C05"
LEVEL = "exploration"
RULE = (
    "single-topology reactions A->B R(->CD) for every spectator with complete helicity"
    " sets, spins {0,1/2,1} (thorough: one particle up to 5/2), each spinning final-state"
    " particle also massless, plus A->BC and four-body cascades for axis-angle; x"
    " alignments {none, aa, dpd1, dpd2, dpd3} (axis-angle only where the product of the"
    " rotation-sum sizes is <= 27 quick / 64 thorough); 4 lattice events x polarisation basis; plus"
    " create_spin_range(s, flag) for s = 0..5 step 1/2; non-trivial = reaction with >= 1"
    " spinning final-state particle (alignment is not the identity); distinct = distinct"
    " reaction"
)
ASSUMPTIONS = [
    "coefficients are matched by name between the unaligned and the aligned models (names"
    " do not contain state ids)",
    "reactions whose helicity sets are incomplete (a projection forbidden by angular"
    " momentum conservation) are outside the statement's precondition and not judged",
]


def _consistent(*spins) -> bool:
    return sum(Fraction(s) for s in spins).denominator == 1


def factory_specs(tier):
    out = []
    base = ["0", "1/2", "1"]
    high = ["3/2", "2", "5/2"] if tier == "thorough" else []
    combos = set(itertools.product(base, repeat=5))
    for h in high:  # one spinning particle at a time above 1
        for pos in range(5):
            for rest in itertools.product(["0", "1/2", "1"], repeat=4):
                c = list(rest)
                c.insert(pos, h)
                if tier == "thorough" and sum(Fraction(x) for x in c) <= Fraction(9, 2):
                    combos.add(tuple(c))
    for JA, s0, s1, s2, sR in sorted(combos):
        if all(Fraction(x) == 0 for x in (s0, s1, s2)):
            continue
        n_spin = sum(Fraction(x) > 0 for x in (s0, s1, s2))
        if n_spin > (2 if tier == "quick" else 3):
            continue
        for spectator in (0, 1, 2):
            sp_spin = (s0, s1, s2)[spectator]
            pair = [s for i, s in enumerate((s0, s1, s2)) if i != spectator]
            if not (_consistent(JA, sp_spin, sR) and _consistent(sR, *pair)):
                continue
            if tier == "quick" and spectator != 0 and n_spin > 1:
                continue
            mass_variants = [(3.0, 0.9, 0.5, 0.14)]
            for k, s in enumerate((s0, s1, s2)):
                if Fraction(s) > 0:
                    m = [3.0, 0.9, 0.5, 0.14]
                    m[k + 1] = 0.0
                    mass_variants.append(tuple(m))
            for mv in mass_variants:
                if tier == "quick" and mv[1:].count(0.0) and n_spin > 1:
                    continue
                out.append(R.three_body_spec(JA, s0, s1, s2, [(spectator, R.P("R1", sR, 1.2, -1), False, False)],
                                             parities=(-1, 1, -1, -1), masses=mv))
    return out


def extra_aa_specs(tier):
    out = []
    for JA, sB, sC in itertools.product(["0", "1/2", "1"] + (["3/2", "2"] if tier == "thorough" else []), repeat=3):
        if _consistent(JA, sB, sC) and (Fraction(sB) > 0 or Fraction(sC) > 0):
            out.append(R.one_node_spec(JA, sB, sC))
            if Fraction(sB) > 0:
                out.append(R.one_node_spec(JA, sB, sC, masses=(3.0, 0.0, 0.5)))
    for topo in (0, 1):
        for fs in (("1/2", "1/2", "0", "0"), ("0", "1", "0", "0"), ("0", "0", "1/2", "1/2")):
            outer = {"-1": R.P("A", 1, 4.0, -1), "0": R.P("B", fs[0], 0.2, -1), "1": R.P("C", fs[1], 0.3, -1),
                     "2": R.P("D", fs[2], 0.4, -1), "3": R.P("E", fs[3], 0.5, -1)}
            tp = R.isobar_topologies(4)[topo]
            inter = sorted(tp.intermediate_edge_ids)
            for sa, sb in (("1", "1"), ("1", "0"), ("1/2", "1/2"), ("1/2", "1"), ("1", "1/2"), ("0", "1")):
                res = {str(inter[0]): R.P("X", sa, 1.6, -1), str(inter[1]): R.P("Y", sb, 1.0, -1)}
                out.append({"formalism": "helicity", "init": "full", "outer": outer,
                            "chains": [{"n": 4, "topo": topo, "perm": [0, 1, 2, 3], "res": res,
                                        "pc": {"0": False, "1": False, "2": False}}]})
    return out


MAX_TRANSITIONS = {"quick": 40, "thorough": 150}
MAX_AA_WEIGHT = {"quick": 27, "thorough": 64}


def aa_weight(reaction) -> int:
    """Number of terms of the axis-angle rotation sums (cost of unfolding them)."""
    t = reaction.transitions[0]
    topo = t.topology
    weight = 1
    for i in topo.outgoing_edge_ids:
        depth, e = 0, i
        while topo.edges[e].originating_node_id is not None:
            e = next(iter(topo.get_edge_ids_ingoing_to_node(topo.edges[e].originating_node_id)))
            depth += 1
        n_rot = depth + (1 if depth > 1 else 0)
        p = t.states[i].particle
        mult = 2 if p.mass == 0.0 and p.spin > 0 else int(2 * p.spin) + 1
        weight *= mult ** n_rot
    return weight


def cases(tier, seed):
    out = [{"spin_range": True}]
    for spec, aligns in [(s, ["aa", "dpd1", "dpd2", "dpd3"]) for s in factory_specs(tier)] + \
                        [(s, ["aa"]) for s in extra_aa_specs(tier)]:
        try:
            r = R.build_reaction(spec)
        except ValueError:
            continue
        if len(r.transitions) > MAX_TRANSITIONS[tier]:
            continue
        if tier == "quick" and len(r.final_state) > 3:
            continue  # four-body axis-angle models cost minutes each: thorough tier
        if aa_weight(r) > MAX_AA_WEIGHT[tier]:
            aligns = [a for a in aligns if a != "aa"]  # left to the other tier / not explored
        if aligns:
            out.append({"reaction": {"spec": spec}, "aligns": aligns, "seed": seed})
            n_prelude = sum(1 for c in out if c.get("prelude"))
            if spec["outer"]["-1"][1] == "1" and len(r.final_state) == 3 and n_prelude < (6 if tier == "quick" else 60):
                out.append({"reaction": {"spec": spec}, "aligns": aligns, "seed": seed,
                            "prelude": "restricted-initial"})
    out.append({"reaction": {"catalogue": "jpsi_gpipi_f2_full.hel"}, "aligns": ["aa", "dpd1", "dpd2"], "seed": seed})
    out.append({"reaction": {"catalogue": "jpsi_gpipi_f0f2.hel"}, "aligns": ["aa", "dpd1"], "seed": seed})
    return out


def _spin_range_case():
    from ampform.helicity.align._spin import create_spin_range  # noqa: PLC0415

    viol, n = [], 0
    for two_s in range(0, 11):
        s = Fraction(two_s, 2)
        want = [float(-s + k) for k in range(two_s + 1)]
        for flag in (False, True):
            n += 1
            try:
                got = create_spin_range(float(s), no_zero_spin=flag)
            except Exception as exc:  # noqa: BLE001
                viol.append({"msg": f"create_spin_range({s}, no_zero_spin={flag}) raised {type(exc).__name__}: {exc}",
                             "tags": ["spin-range-raises"], "detail": {"spin": str(s), "flag": flag}})
                continue
            expect = want
            if flag and len(want) > 1 and 0.0 in want:
                expect = [x for x in want if x != 0.0]  # documented: skip 0.0 (massless)
            if list(got) != expect:
                viol.append({"msg": f"create_spin_range({s}, no_zero_spin={flag}) = {got}, expected {expect}",
                             "tags": ["spin-range-values"], "detail": {"spin": str(s), "flag": flag}})
    return {"violations": viol, "evaluations": n, "nontrivial": [["spin_range", "half-integer+flag"], ["spin_range", "integer"]],
            "outcome": "spin-range", "sample": {"create_spin_range": "s=0..5 step 1/2 x no_zero_spin {F,T}"}}


def eval_case(case):
    if case.get("spin_range"):
        return _spin_range_case()
    import sympy as sp  # noqa: PLC0415
    from ampform.sympy import PoolSum  # noqa: PLC0415

    from vp.checks.c01 import _describe, make_builder, massless_decay_product  # noqa: PLC0415
    from vp.checks.c04 import complete_helicity_sets  # noqa: PLC0415
    from vp.modeleval import ModelRunner, polarisation_basis  # noqa: PLC0415
    from vp.ref import frames  # noqa: PLC0415
    from vp.ref.spin import F  # noqa: PLC0415

    seed = case.get("seed", 0)
    reaction0 = R.reaction_from(case["reaction"])
    desc = _describe({**case, "align": "*", "dyn": "none"}) + (f" prelude={case['prelude']}" if case.get("prelude") else "")
    if not complete_helicity_sets(reaction0):
        return {"outcome": "not-judged(helicity set incomplete: precondition of the statement)", "evaluations": 0}
    massless_spin = [p for p in reaction0.final_state.values() if p.mass == 0.0 and p.spin >= 1]
    massless_any = [p for p in reaction0.final_state.values() if p.mass == 0.0 and p.spin > 0]
    final_ids0 = sorted(reaction0.final_state)
    masses = [reaction0.final_state[i].mass for i in final_ids0]
    M = next(iter(reaction0.initial_state.values())).mass
    ev0 = frames.lattice_events(M, masses, 4, seed, salt=5, margin=0.08)
    viol, outcomes = [], {}
    n_eval = 0

    def bad(kind, msg, align, tags=()):
        feats = []
        if align == "aa" and massless_spin:
            feats.append("axis-angle-with-massless-spin>=1-particle")
        if align == "aa" and massless_decay_product(reaction0):
            feats.append("axis-angle-massless-decay-product")
        viol.append({"msg": f"{kind}: {msg} [{desc} align={align}]",
                     "tags": [kind, *tags, *feats, *[f"{kind}+{f}" for f in feats]],
                     "detail": {"align": align}})

    b0, r0 = make_builder(reaction0, "none", "none")
    m0 = b0.formulate()
    run0 = ModelRunner(m0)
    names = run0.cnames
    cvecs, capped = polarisation_basis(len(names))
    base = run0.intensity({final_ids0[k]: ev0[k] for k in range(len(final_ids0))}, cvecs)
    scale = np.maximum(np.max(np.abs(base), axis=1, keepdims=True), 1e-12)
    for align in case["aligns"]:
        try:
            if case.get("prelude") == "restricted-initial":
                # history: the same particles and topologies with a restricted helicity set
                # were formulated (with the same alignment) earlier in this process
                from qrules.transition import ReactionInfo  # noqa: PLC0415

                init = next(iter(reaction0.initial_state))
                jmax = max(abs(t.states[init].spin_projection) for t in reaction0.transitions)
                sub = [t for t in reaction0.transitions if abs(t.states[init].spin_projection) == jmax]
                if 0 < len(sub) < len(reaction0.transitions):
                    bs, _ = make_builder(ReactionInfo(sub, formalism=reaction0.formalism), align, "none")
                    bs.formulate()
            b, r = make_builder(reaction0, align, "none")
            m = b.formulate()
        except Exception as exc:  # noqa: BLE001
            from vp.core import lib_exception_violation  # noqa: PLC0415

            v = lib_exception_violation(exc)
            if v is None:
                raise
            tags = ["massless-half-integer-spin"] if any(
                float(p.spin) % 1 == 0.5 for p in massless_any) else []
            bad("formulate-raises", v["msg"], align, tags)
            continue
        # index pools of the rotation sums
        for node in sp.preorder_traversal(m.intensity):
            if isinstance(node, PoolSum):
                for idx, values in node.indices:
                    vals = sorted(F(str(v)) for v in values)
                    if not vals:
                        continue
                    s = max(abs(v) for v in vals)
                    full = R.spin_range(s)
                    name = str(idx)
                    n_eval += 1
                    is_outer = name.startswith("m") and not name.startswith("mu")
                    if vals != full and not is_outer:
                        if massless_any and {-s, s} <= set(vals) <= set(full) and any(
                                F(p.spin) == s for p in massless_any):
                            # a massless particle has helicities +-s only; whether leaving
                            # out the other projections is harmless is decided by the
                            # intensity comparison below
                            outcomes["pool:massless(+-s)"] = outcomes.get("pool:massless(+-s)", 0) + 1
                        else:
                            bad("pool-not-full-range", f"index {name} runs over {vals} instead of {full}", align)
                    else:
                        outcomes["pool:-s..s"] = outcomes.get("pool:-s..s", 0) + 1
        run = ModelRunner(m)
        if run.missing:
            bad("undefined-symbols", f"{sorted(run.missing)[:5]}", align)
            continue
        if set(run.cnames) != set(names):
            bad("coefficients-differ", f"aligned model has coefficients {sorted(set(run.cnames) ^ set(names))[:4]}", align)
            continue
        ids = sorted(r.final_state)
        got = run.intensity({ids[k]: ev0[k] for k in range(len(ids))}, cvecs, names)
        n_eval += got.size
        dev = np.abs(got - base) / scale
        dev = np.where(np.isfinite(dev), dev, np.inf)
        d = float(np.max(dev))
        if d > 1e-7:
            k, e = np.unravel_index(int(np.argmax(dev)), dev.shape)
            bad("intensity-changed", f"I = {got[k, e]:.8g} vs {base[k, e]:.8g} unaligned (rel. dev {d:.3g},"
                f" coefficient vector {k}, event {e})", align)
            outcomes[f"{align}:changed"] = outcomes.get(f"{align}:changed", 0) + 1
        else:
            outcomes[f"{align}:equal"] = outcomes.get(f"{align}:equal", 0) + 1
    return {"violations": viol, "evaluations": n_eval, "nontrivial": [desc], "outcomes": outcomes,
            "caps": ["coefficient basis reduced (more than 14 coefficients)"] if capped else [],
            "sample": {"case": desc, "alignments": case["aligns"], "coefficients": len(names),
                       "events": 4, "coefficient_vectors": len(cvecs)}}
