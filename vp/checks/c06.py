"""C06 - formulate() is a pure function of (reaction, configuration).

Engine SEQ, depth-bounded, histories NOT merged (merging equal configurations would be
unsound for exactly the bug class this property is about: hidden process-global state).
Every history over a small alphabet of builder operations is executed on real builders
in one long-lived process (caches are cleared only BETWEEN histories); for every
formulate() in it the digests of the six model attributes (srepr, including dictionary
order) must equal (a) a second formulate() right after, (b) a fresh builder configured
directly to the configuration the history reached, in a cleared process state, and (c)
the same history replayed in fresh interpreters with PYTHONHASHSEED in {1, 2, unset}.
"""

from __future__ import annotations

import hashlib
import itertools
import json
import os
import subprocess
import sys
import tempfile

from vp import reactions as R

PROPERTY = "C06"
LEVEL = "model_checking"
RULE = (
    "all operation sequences of depth <= 3 ending in formulate() (thorough: larger alphabet,"
    " plus depth 4 from the DPD preset) over the"
    " alphabet {set stable ids, scalar mass, couplings, alignment; toggle naming flags;"
    " dynamics.assign; adapter.permutate / register extra topology; formulate} for one"
    " builder and for two builders sharing the reaction (all interleavings of their"
    " operations), from base configurations {default, DPD preset, axis-angle preset};"
    " state = history; transition = one operation on the real builder; non-trivial ="
    " history with >= 1 configuration change before the final formulate"
)
ASSUMPTIONS = [
    "model identity is compared through sympy.srepr digests of intensity, amplitudes,"
    " parameter_defaults, kinematic_variables, components (each with key order) and repr of"
    " reaction_info",
    "process-global state is reset between histories by clearing every functools cache"
    " found in the ampform package (validated by the cross-process runs)",
]

REACTIONS = {
    # key: (source, zero_based?)
    "ksp": ({"catalogue": "jpsi_ksp_sigma_n.hel"}, False),
    "ksp-dpd": ({"catalogue": "jpsi_ksp_sigma_n.hel"}, True),
    "gpipi-can": ({"catalogue": "jpsi_gpipi_f0f2.can"}, False),
    "omega": ({"catalogue": "jpsi_gpipi_omega.hel"}, False),
    "kspfull-dpd": ({"catalogue": "jpsi_ksp_full.hel"}, True),
    "four": ({"spec": None}, False),
    "syn-zero": ({"spec": None}, False),
    "syn-dpd": ({"spec": None}, True),
    "syn-can": ({"spec": None}, False),
    "syn-mixed": ({"spec": None}, False),
    "syn-fail": ({"spec": None}, False),
}


def _four_spec():
    outer = {"-1": R.P("A", 1, 4.0, -1), "0": R.P("B", 0, 0.2, -1), "1": R.P("C", 0, 0.3, -1),
             "2": R.P("D", 0, 0.4, -1), "3": R.P("E", 0, 0.5, -1)}
    tp = R.isobar_topologies(4)[1]
    inter = sorted(tp.intermediate_edge_ids)
    res = {str(inter[0]): R.P("X", 1, 1.6, -1), str(inter[1]): R.P("Y", 1, 1.0, -1)}
    return {"formalism": "helicity", "init": "full", "outer": outer,
            "chains": [{"n": 4, "topo": 1, "perm": [0, 1, 2, 3], "res": res, "pc": {"0": False, "1": False, "2": False}}]}


def _syn_spec():
    return R.three_body_spec(1, "1/2", "1/2", 0,
                             [(0, R.P("R4", "1/2", 1.2, 1), True, True), (1, R.P("R5", "1/2", 1.5, -1), True, True)],
                             parities=(-1, 1, -1, -1))


def load_reaction(key, sub: bool = False):
    """`sub`: the same particles and topologies with a restricted helicity set (initial
    projections of maximal modulus only) - a *different* reaction for a second builder."""
    r = _load_reaction(key)
    if sub:
        from qrules.transition import ReactionInfo  # noqa: PLC0415

        init = next(iter(r.initial_state))
        jmax = max(abs(t.states[init].spin_projection) for t in r.transitions)
        kept = [t for t in r.transitions if abs(t.states[init].spin_projection) == jmax]
        r = ReactionInfo(kept, formalism=r.formalism)
    return r


def _load_reaction(key):
    src, zero_based = REACTIONS[key]
    if "catalogue" in src:
        r = R.load_catalogue(src["catalogue"])
    elif key == "four":
        r = R.build_reaction(_four_spec())
    elif key == "syn-fail":
        # small reaction for histories in which a formulate() FAILS (invalid stable id) and the
        # builder is used again afterwards
        r = R.build_reaction(R.three_body_spec(1, 0, 0, 0, [(0, R.P("R1", 1, 1.2, -1), True, True)],
                                               parities=(-1, -1, -1, -1)))
    elif key == "syn-zero":
        # R(J=0) -> C(1) D(0): only lambda_C = 0 has transitions; axis-angle alignment sums
        # over -1, 0, 1, so whether vanishing amplitudes exist depends on the alignment
        r = R.build_reaction(R.three_body_spec(1, 0, 1, 0, [(0, R.P("R1", 0, 1.2, -1), False, False)],
                                               parities=(-1, 1, -1, -1)))
    elif key == "syn-can":
        # canonical formalism with parity-coupled amplitudes: the parity-partner mapping of
        # the name generator depends on all three naming flags
        r = R.build_reaction(R.three_body_spec(1, 0, 1, 0, [(0, R.P("R1", 1, 1.2, -1), True, True)],
                                               parities=(-1, -1, -1, -1), formalism="canonical-helicity"))
    elif key == "syn-mixed":
        # a half-integer-spin and an integer-spin resonance in the helicity formalism: a
        # lineshape with form factor is documented to raise ValueError for the first (no L)
        r = R.build_reaction(R.three_body_spec("1/2", "1/2", 0, 0,
                                               [(2, R.P("Rh", "3/2", 1.9, 1), False, False),
                                                (0, R.P("Ri", 1, 1.2, -1), False, False)],
                                               parities=(1, 1, -1, -1)))
    else:
        r = R.build_reaction(_syn_spec())
    if zero_based:
        from ampform.helicity.align.dpd import relabel_edge_ids  # noqa: PLC0415

        r = relabel_edge_ids(r)
    return r


def alphabet(key: str, tier: str) -> list[list]:
    zero_based = REACTIONS[key][1]
    if key == "syn-can":
        return [
            ["flag", "insert_ls_combinations", False],
            ["flag", "insert_ls_combinations", True],
            ["flag", "insert_child_helicities", True],
            ["flag", "insert_child_helicities", False],
            ["flag", "insert_parent_helicities", True],
            ["assign", 0, "bwff"],
            ["formulate"],
        ]
    if key == "syn-fail":
        return [
            ["set", "stable_final_state_ids", "invalid"], ["set", "stable_final_state_ids", "none"],
            ["set", "use_helicity_couplings", True], ["assign", 0, "bw"], ["assign", 0, "none"],
            ["formulate"],
        ]
    if key == "syn-mixed":
        # resonance 0 = Rh (half-integer spin), 1 = Ri; "bwff" on Rh makes formulate() raise
        # the documented ValueError, which is an observable outcome like any other
        return [
            ["assign", 0, "bwff"], ["assign", 0, "bw"], ["assign", 1, "bwff"], ["assign", 1, "analytic"],
            ["formulate"],
        ]
    # BW with form factor needs L: canonical formalism or integer-spin resonances
    ff_ok = key in {"gpipi-can", "omega", "four", "syn-zero"}
    ops = [
        ["set", "stable_final_state_ids", "all"],
        ["set", "stable_final_state_ids", "first"],
        ["set", "scalar_initial_state_mass", True],
        ["set", "use_helicity_couplings", True],
        ["flag", "insert_parent_helicities", True],
        ["assign", 0, "bw"],
        ["assign", 0, "bwff" if ff_ok else "none"],
        ["permutate"],
        ["formulate"],
    ]
    if zero_based:
        ops += [["set", "spin_alignment", "dpd1"], ["set", "spin_alignment", "dpd2"]]
    else:
        ops += [["set", "spin_alignment", "aa"]]
    if tier == "thorough":
        ops += [["set", "stable_final_state_ids", "none"], ["flag", "insert_child_helicities", False],
                ["assign", 1, "bw"], ["register_extra"], ["set", "spin_alignment", "none"]]
        if zero_based:
            ops += [["set", "spin_alignment", "dpd3"]]
    return ops


def bases(key: str) -> list[list]:
    out = [[]]
    if key == "syn-can":
        return [[], [["flag", "insert_child_helicities", True]]]
    if key == "syn-fail":
        return [[], [["assign", 0, "bw"]]]
    if REACTIONS[key][1]:
        out.append([["set", "spin_alignment", "dpd1"]])
    elif key in {"ksp"}:
        out.append([["set", "spin_alignment", "aa"]])
    return out


def histories(key: str, tier: str, two_builders: bool, deep: bool = False) -> list[list]:
    # thorough: depth 3 over the extended alphabet everywhere, depth 4 over the quick
    # alphabet for the DPD-capable reaction (`deep`)
    ops = alphabet(key, "quick" if deep else tier)
    depth = 4 if deep else 3
    if two_builders:
        # operations of two builders: every interleaving arises as a sequence over the
        # doubled alphabet; keep the doubled alphabet small
        small = [o for o in ops if o[0] in {"formulate"} or o[:2] in (["set", "stable_final_state_ids"], ["set", "spin_alignment"]) or o[0] == "permutate"]
        ops2 = [[b, *o] for b in (0, 1) for o in small]
        depth2 = 3
        out = []
        for d in range(1, depth2):
            for prefix in itertools.product(ops2, repeat=d):
                if {p[0] for p in prefix} == {0} and d > 1:
                    continue  # single-builder histories are enumerated separately
                out.append([*prefix, [0, "formulate"]])
        return out
    out = [[[0, "formulate"]]]
    if key == "syn-fail":
        # every history of depth <= 5 in which the failing call (invalid id, formulate) occurs
        bad_pair = (["set", "stable_final_state_ids", "invalid"], ["formulate"])
        for d in range(2, 5):
            for prefix in itertools.product(ops, repeat=d):
                if not any(prefix[i:i + 2] == bad_pair for i in range(d - 1)):
                    continue
                if prefix[-1] == ["formulate"] or prefix.count(["formulate"]) > 2:
                    continue
                out.append([*[[0, *o] for o in prefix], [0, "formulate"]])
        return out
    if key == "syn-mixed":
        depth = 4
    for d in range(1, depth):
        for prefix in itertools.product(ops, repeat=d):
            if key == "syn-mixed" and d == 3 and (
                    ["formulate"] not in prefix[:2] or prefix[2] == ["formulate"]):
                continue  # depth 4 only for histories that formulate, re-assign, formulate
            out.append([*[[0, *o] for o in prefix], [0, "formulate"]])
    return out


CHUNK_SIZE = 40


def cases(tier, seed):
    out = []
    keys = ["ksp-dpd", "ksp", "omega", "four", "syn-zero", "syn-can", "syn-mixed", "syn-fail"] if tier == "quick" \
        else [k for k in REACTIONS if k != "kspfull-dpd"]
    # two builders on two DIFFERENT reactions (same particles, restricted helicity set)
    for base in bases("kspfull-dpd"):
        hs = [h for h in histories("kspfull-dpd", tier, True) if len(h) <= (3 if tier == "quick" else 4)]
        hs = [h for h in hs if any(op[0] == 1 and op[1] == "formulate" for op in h[:-1]) or tier != "quick"]
        for i in range(0, len(hs), CHUNK_SIZE):
            out.append({"reaction": "kspfull-dpd", "base": base, "two": True, "sub": True,
                        "histories": hs[i:i + CHUNK_SIZE], "seed": seed, "tier": tier})
    for key in keys:
        for base in bases(key):
            for two in (False, True, "deep"):
                if two is True and key not in {"ksp-dpd", "four"}:
                    continue
                if two == "deep" and not (tier == "thorough" and key == "ksp-dpd" and base):
                    continue
                hs = histories(key, tier, two is True, deep=(two == "deep"))
                if two == "deep":
                    hs = [h for h in hs if len(h) == 4]
                for i in range(0, len(hs), CHUNK_SIZE):
                    out.append({"reaction": key, "base": base, "two": two,
                                "histories": hs[i:i + CHUNK_SIZE], "seed": seed, "tier": tier})
    return out


# ------------------------------------------------------------------ execution
def clear_caches() -> int:
    import importlib  # noqa: PLC0415
    import pkgutil  # noqa: PLC0415

    import ampform  # noqa: PLC0415

    n = 0
    seen = set()
    for info in pkgutil.walk_packages(ampform.__path__, "ampform."):
        try:
            mod = importlib.import_module(info.name)
        except Exception:  # noqa: BLE001, S112
            continue
        stack = [vars(mod)]
        for ns in stack:
            for obj in list(ns.values()):
                if id(obj) in seen:
                    continue
                seen.add(id(obj))
                if callable(getattr(obj, "cache_clear", None)):
                    obj.cache_clear()
                    n += 1
                elif isinstance(obj, type) and getattr(obj, "__module__", "").startswith("ampform"):
                    for member in vars(obj).values():
                        f = getattr(member, "__func__", member)
                        if callable(getattr(f, "cache_clear", None)):
                            f.cache_clear()
                            n += 1
    return n


_BUILDERS = None


def _dyn_builder(tag):
    from ampform.dynamics.builder import (  # noqa: PLC0415
        create_non_dynamic,
        create_relativistic_breit_wigner,
        create_relativistic_breit_wigner_with_ff,
    )

    from ampform.dynamics.builder import create_analytic_breit_wigner  # noqa: PLC0415

    return {"none": create_non_dynamic, "bw": create_relativistic_breit_wigner,
            "bwff": create_relativistic_breit_wigner_with_ff, "analytic": create_analytic_breit_wigner}[tag]


def _alignment(tag):
    from ampform.helicity.align import NoAlignment  # noqa: PLC0415
    from ampform.helicity.align.axisangle import AxisAngleAlignment  # noqa: PLC0415
    from ampform.helicity.align.dpd import DalitzPlotDecomposition  # noqa: PLC0415

    if tag == "none":
        return NoAlignment()
    if tag == "aa":
        return AxisAngleAlignment()
    return DalitzPlotDecomposition(int(tag[3]))


def _extra_topology(builder):
    used = builder.adapter.registered_topologies
    some = next(iter(used))
    n = len(some.outgoing_edge_ids)
    for tp in R.isobar_topologies(n):
        cand = tp.relabel_edges({e: e + 1 for e in tp.edges}) if min(some.edges) == 0 else tp
        ids = sorted(cand.outgoing_edge_ids)
        for perm in itertools.permutations(ids):
            c2 = cand.relabel_edges(dict(zip(ids, perm)))
            if c2 not in used:
                return c2
    return None


def apply_op(builder, reaction, op, state):
    """Execute one operation; `state` tracks the configuration reached (reference model)."""
    kind = op[0]
    if kind == "set":
        field, value = op[1], op[2]
        if field == "stable_final_state_ids":
            ids = sorted(reaction.final_state)
            value = {"all": ids, "first": [ids[0]], "none": None, "invalid": [max(ids) + 5]}[value]
            builder.config.stable_final_state_ids = value
            state["stable"] = value
        elif field == "spin_alignment":
            builder.config.spin_alignment = _alignment(value)
            state["align"] = value
        else:
            setattr(builder.config, field, value)
            state[field] = value
    elif kind == "flag":
        if hasattr(builder.naming, op[1]):
            setattr(builder.naming, op[1], op[2])
            state.setdefault("flags", {})[op[1]] = op[2]
    elif kind == "assign":
        names = sorted(reaction.get_intermediate_particles().names)
        name = names[op[1] % len(names)]
        builder.dynamics.assign(name, _dyn_builder(op[2]))
        state.setdefault("dynamics", {})[name] = op[2]
    elif kind == "permutate":
        builder.adapter.permutate_registered_topologies()
    elif kind == "register_extra":
        t = _extra_topology(builder)
        if t is not None:
            builder.adapter.register_topology(t)
    elif kind == "formulate":
        return builder.formulate()
    else:
        msg = f"unknown op {op}"
        raise ValueError(msg)
    return None


def fresh_builder_for(reaction, state, topologies):
    """Builder configured DIRECTLY to the configuration a history reached."""
    import ampform  # noqa: PLC0415

    b = ampform.get_builder(reaction)
    if "stable" in state:
        b.config.stable_final_state_ids = state["stable"]
    if "align" in state:
        b.config.spin_alignment = _alignment(state["align"])
    for f in ("scalar_initial_state_mass", "use_helicity_couplings"):
        if f in state:
            setattr(b.config, f, state[f])
    for flag, v in state.get("flags", {}).items():
        setattr(b.naming, flag, v)
    for name, tag in state.get("dynamics", {}).items():
        b.dynamics.assign(name, _dyn_builder(tag))
    for t in sorted(topologies, key=_topology_key):
        b.adapter.register_topology(t)
    return b


def _topology_key(t):
    return sorted((i, e.originating_node_id, e.ending_node_id) for i, e in t.edges.items())


def model_digest(model) -> dict:
    import sympy as sp  # noqa: PLC0415

    def h(s: str) -> str:
        return hashlib.sha256(s.encode()).hexdigest()[:16]

    return {
        "intensity": h(sp.srepr(model.intensity)),
        "amplitudes": h(repr([(sp.srepr(k), sp.srepr(v)) for k, v in model.amplitudes.items()])),
        "parameter_defaults": h(repr([(sp.srepr(k), repr(v)) for k, v in model.parameter_defaults.items()])),
        "kinematic_variables": h(repr([(sp.srepr(k), sp.srepr(v)) for k, v in model.kinematic_variables.items()])),
        "components": h(repr([(k, sp.srepr(v)) for k, v in model.components.items()])),
        "reaction_info": h(repr(model.reaction_info)),
    }


DOCUMENTED_ERROR = "Angular momentum is not defined"


def formulate_digest(builder) -> dict:
    """Digest of builder.formulate(); the documented ValueError of a form-factor lineshape
    on a decay without L is an outcome of its own."""
    try:
        model = builder.formulate()
    except ValueError as exc:
        if DOCUMENTED_ERROR not in str(exc):
            raise
        return {"raised": f"ValueError: {exc}"}
    except KeyError as exc:
        # an id in stable_final_state_ids that the reaction does not have
        return {"raised": f"KeyError: {exc}"}
    return model_digest(model)


def two_resonance_node(topologies) -> bool:
    from vp.ref import helicity as H  # noqa: PLC0415

    for topo in topologies:
        for node in topo.nodes:
            _p, c1, c2 = H.node_edges(topo, node)
            if topo.edges[c1].ending_node_id is not None and topo.edges[c2].ending_node_id is not None:
                return True
    return False


def run_history(key: str, base: list, history: list, check_fresh: bool = True, sub: bool = False) -> dict:
    """Execute one history on real builders; returns digests of every formulate().

    `sub`: builder 1 works on the restricted sibling reaction (see load_reaction)."""
    import ampform  # noqa: PLC0415

    clear_caches()
    builders = {}
    states = {}
    reactions = {}
    out = {"formulates": [], "notes": []}
    for b_idx in sorted({op[0] for op in history}):
        reactions[b_idx] = load_reaction(key, sub=(sub and b_idx == 1))
        builders[b_idx] = ampform.get_builder(reactions[b_idx])
        states[b_idx] = {}
        for op in base:
            apply_op(builders[b_idx], reactions[b_idx], op, states[b_idx])
    for step, op in enumerate(history):
        b_idx = op[0]
        if op[1] != "formulate":
            apply_op(builders[b_idx], reactions[b_idx], op[1:], states[b_idx])
            continue
        entry = {"step": step, "builder": b_idx, "digest": formulate_digest(builders[b_idx])}
        entry["again"] = formulate_digest(builders[b_idx])
        entry["topologies"] = len(builders[b_idx].adapter.registered_topologies)
        entry["clash_possible"] = two_resonance_node(builders[b_idx].adapter.registered_topologies) and \
            len(builders[b_idx].adapter.registered_topologies) > 1
        entry["state"] = json.loads(json.dumps(states[b_idx]))
        entry["_topologies"] = set(builders[b_idx].adapter.registered_topologies)
        out["formulates"].append(entry)
    if check_fresh:
        for entry in out["formulates"]:
            clear_caches()
            fresh = fresh_builder_for(load_reaction(key, sub=(sub and entry["builder"] == 1)),
                                      entry["state"], entry["_topologies"])
            entry["fresh"] = formulate_digest(fresh)
    for entry in out["formulates"]:
        topologies = entry.pop("_topologies")
        if check_fresh:
            import base64  # noqa: PLC0415
            import pickle  # noqa: PLC0415

            entry["pristine_config"] = {
                "sub": bool(sub and entry["builder"] == 1),
                "state": entry["state"],
                "topologies": base64.b64encode(pickle.dumps(sorted(topologies, key=_topology_key))).decode(),
            }
    clear_caches()
    return out


def pristine_digests(key: str, configs: dict) -> dict:
    """Digest of the model of each configuration, each computed in a forked child of THIS
    process, which must not have formulated anything yet (so that hidden state that
    `clear_caches` cannot find - a hand-written module-level cache - is empty too)."""
    import base64  # noqa: PLC0415
    import pickle  # noqa: PLC0415

    out = {}
    for ckey, cfg in configs.items():
        r, w = os.pipe()
        pid = os.fork()
        if pid == 0:
            try:
                os.close(r)
                topologies = pickle.loads(base64.b64decode(cfg["topologies"]))  # noqa: S301
                b = fresh_builder_for(load_reaction(key, sub=cfg["sub"]), cfg["state"], topologies)
                data = json.dumps(formulate_digest(b))
            except BaseException as exc:  # noqa: BLE001
                data = json.dumps({"error": f"{type(exc).__name__}: {exc}"})
            with os.fdopen(w, "w") as fh:
                fh.write(data)
            os._exit(0)
        os.close(w)
        with os.fdopen(r) as fh:
            out[ckey] = json.loads(fh.read() or "{}")
        os.waitpid(pid, 0)
    return out


def _diff(a: dict, b: dict) -> list[str]:
    return [k for k in sorted(set(a) | set(b)) if a.get(k) != b.get(k)]


def eval_case(case):
    key, base, hs = case["reaction"], case["base"], case["histories"]
    viol, outcomes = [], {}
    transitions = 0
    traces = 0
    nontrivial = []
    local = []
    for h in hs:
        res = run_history(key, base, h, sub=bool(case.get("sub")))
        local.append(res)
        transitions += len(h) + len(base) * len({op[0] for op in h})
        traces += 1
        if len(h) > 1:
            nontrivial.append([key, base, h])
    # (c) the same histories in fresh interpreters under other hash seeds
    others = {}
    pristine = {}
    modes = ["1", "unset"] if case.get("tier") == "quick" else ["1", "2", "unset"]
    pristine_cfgs = {}
    for res in local:
        for entry in res["formulates"]:
            cfg = entry.pop("pristine_config")
            ckey = hashlib.sha256(json.dumps(cfg, sort_keys=True).encode()).hexdigest()[:16]
            entry["pristine_key"] = ckey
            pristine_cfgs[ckey] = cfg
    payload = json.dumps({"reaction": key, "base": base, "histories": hs, "sub": bool(case.get("sub")),
                          "pristine": pristine_cfgs})
    with tempfile.TemporaryDirectory(prefix="c06_") as tmp:
        path = os.path.join(tmp, "in.json")
        with open(path, "w") as f:
            f.write(payload)
        procs = {}
        for mode in modes:
            env = dict(os.environ)
            env.pop("PYTHONHASHSEED", None)
            if mode != "unset":
                env["PYTHONHASHSEED"] = mode
            env.pop("C06_PRISTINE", None)
            if mode == modes[0]:
                env["C06_PRISTINE"] = "1"
            procs[mode] = subprocess.Popen(  # noqa: S603
                [sys.executable, "-W", "ignore", "-m", "vp.checks.c06", path],
                env=env, stdout=subprocess.PIPE, stderr=subprocess.PIPE, text=True)
        for mode, p in procs.items():
            so, se = p.communicate()
            if p.returncode != 0:
                from vp.core import HarnessError  # noqa: PLC0415

                msg = f"C06 worker (PYTHONHASHSEED={mode}) failed: {se[-2000:]}"
                raise HarnessError(msg)
            data = json.loads(so)
            others[mode] = data["results"]
            if data.get("pristine"):
                pristine = data["pristine"]
            traces += len(hs)
    for hi, h in enumerate(hs):
        res = local[hi]
        for fi, entry in enumerate(res["formulates"]):
            where = f"history {h} (base {base}, reaction {key}), formulate at step {entry['step']}"
            tags_region = []
            if entry["clash_possible"]:
                tags_region.append("registered-topologies-with-two-resonance-node")
            if "raised" in entry["digest"]:
                outcomes["formulate-raised-documented-ValueError"] = outcomes.get(
                    "formulate-raised-documented-ValueError", 0) + 1
            d = _diff(entry["digest"], entry["again"])
            if d:
                viol.append({"msg": f"second formulate() differs in {d}: {where}",
                             "tags": ["formulate-twice", *tags_region, *[f"formulate-twice+{t}" for t in tags_region]],
                             "detail": {"history": h}})
            d = _diff(entry["digest"], entry["fresh"])
            if d:
                viol.append({"msg": f"model differs in {d} from a fresh builder configured directly to"
                                    f" {entry['state']} ({entry['topologies']} topologies): {where}",
                             "tags": ["history-dependence", *tags_region, *[f"history-dependence+{t}" for t in tags_region]],
                             "detail": {"history": h, "base": base, "reaction": key}})
            else:
                outcomes["same-as-fresh"] = outcomes.get("same-as-fresh", 0) + 1
            pd = pristine.get(entry["pristine_key"])
            if pd is None or "error" in pd:
                from vp.core import HarnessError  # noqa: PLC0415

                msg = f"no pristine digest for {entry['state']}: {pd}"
                raise HarnessError(msg)
            d = _diff(entry["digest"], pd)
            if d:
                viol.append({"msg": f"model differs in {d} from the same configuration {entry['state']} formulated"
                                    f" first in a pristine process: {where}",
                             "tags": ["history-dependence", "vs-pristine-process", *tags_region,
                                      *[f"history-dependence+{t}" for t in tags_region]],
                             "detail": {"history": h, "base": base, "reaction": key}})
            else:
                outcomes["same-as-pristine-process"] = outcomes.get("same-as-pristine-process", 0) + 1
            for mode, data in others.items():
                other = data[hi]["formulates"][fi]["digest"]
                d = _diff(entry["digest"], other)
                if d:
                    viol.append({"msg": f"model differs in {d} in a fresh interpreter with PYTHONHASHSEED={mode}: {where}",
                                 "tags": ["hash-seed-dependence", *tags_region, *[f"hash-seed-dependence+{t}" for t in tags_region]],
                                 "detail": {"history": h, "mode": mode}})
                else:
                    outcomes[f"same-under-hashseed-{mode}"] = outcomes.get(f"same-under-hashseed-{mode}", 0) + 1
    return {
        "violations": viol,
        "evaluations": sum(len(r["formulates"]) for r in local) * (2 + len(modes)),
        "nontrivial": nontrivial,
        "outcomes": outcomes,
        "states": len(hs) + sum(len(h) for h in hs),
        "transitions": transitions,
        "traces": traces,
        "sample": {"reaction": key, "base": base, "history": hs[-1], "two_builders": case["two"],
                   "hash_seed_modes": ["0 (driver)", *modes]},
    }


if __name__ == "__main__":
    # worker: replay histories in this (fresh) interpreter and print the digests
    from vp import core

    core.ensure_repo_import()
    with open(sys.argv[1]) as fh:
        job = json.load(fh)
    # pristine digests first: this interpreter has not formulated anything yet
    pristine_out = pristine_digests(job["reaction"], job.get("pristine", {})) if os.environ.get("C06_PRISTINE") else {}
    results = [run_history(job["reaction"], job["base"], h, check_fresh=False, sub=job.get("sub", False))
               for h in job["histories"]]
    print(json.dumps({"results": results, "pristine": pristine_out}))
