"""C07 - kinematic variables mean what their names say, in every topology.

Engine SHAPE: every isobar topology with 2-5 final states x every relabeling of its
final-state ids (and both numberings of interchangeable intermediate edges), adapters
holding several topologies, cse on/off, batch sizes 1 and 7, on a deterministic event
lattice (massless particles, near-threshold, boosted frames).  Reference: invariant
masses as Minkowski norms and helicity angles by an independent boost-and-rotate
implementation that follows the documented naming/filling convention
(`vp.ref.frames.helicity_bindings`); for three-body decays additionally the library's own
closed-form Dalitz expression (`formulate_scattering_angle`).
"""

from __future__ import annotations

import itertools
import math

import numpy as np

from vp import reactions as R
from vp.util import irr

PROPERTY = "C07"
LEVEL = "exploration"
RULE = (
    "single-topology cases: all isobar shapes with 2-5 final states x all distinct"
    " relabelings of final-state ids (5-body: 2 per shape in quick, 12 per shape in thorough, cse=True only) x"
    " swap of intermediate edge ids x cse {F,T}; adapter cases: every subset of <= 3 of the"
    " distinct three-body topologies, the permuted sets of each 3-/4-body shape;"
    " events: 7-point lattice per mass configuration {generic, massless, near"
    " threshold, boosted frame}; non-trivial = case with >= 1 helicity-angle name bound;"
    " distinct = distinct (topology set, cse, mass configuration)"
)
ASSUMPTIONS = [
    "the documented convention is taken from the docstrings/doctests: a pair is named"
    " after the helicity-state child and filled with the direction of the child that"
    " decays further (doctest: theta_0 = Theta(p1 + p2) for topology 0(12))",
    "azimuthal angles are compared modulo 2 pi with a tolerance scaled by 1/sin(theta);"
    " tolerances are scaled by gamma^2 of the boosts involved",
]

MASS_CONFIGS = ["generic", "massless", "threshold", "boosted"]


def distinct_relabelings(topology, limit=None):
    ids = sorted(topology.outgoing_edge_ids)
    seen, out = set(), []
    for perm in itertools.permutations(ids):
        t2 = topology if list(perm) == ids else topology.relabel_edges(dict(zip(ids, perm)))
        if t2 in seen:
            continue
        seen.add(t2)
        out.append(list(perm))
        if limit and len(out) >= limit:
            break
    return out


def cases(tier, seed):
    out = []
    for n in (2, 3, 4, 5):
        shapes = R.isobar_topologies(n)
        for si, shape in enumerate(shapes):
            limit = None
            if n == 5:
                # ~60 s per five-body case (unfolding + cse of the nested boost chains)
                limit = 2 if tier == "quick" else 12
            perms = distinct_relabelings(shape, limit)
            for perm in perms:
                swaps = [False]
                inter = sorted(shape.intermediate_edge_ids)
                if len(inter) >= 2 and (n < 5 or tier == "thorough" or perm == perms[0]):
                    swaps.append(True)
                for swap in swaps:
                    # five-body code without cse takes > 30 min per case to generate and run
                    for cse in ((True,) if n == 5 else (False, True)):
                        out.append({"kind": "single", "n": n, "shape": si, "perm": perm, "swap": swap,
                                    "cse": cse, "seed": seed, "tier": tier})
    # the same shapes with the initial state numbered 0 and the final states 1..n (the
    # labelling that DalitzPlotDecomposition's relabel_edge_ids produces)
    for n in (2, 3, 4):
        for si, shape in enumerate(R.isobar_topologies(n)):
            perms = distinct_relabelings(shape, None if n == 3 else 2)
            for perm in perms:
                out.append({"kind": "single", "n": n, "shape": si, "perm": perm, "swap": False,
                            "cse": True, "seed": seed, "tier": tier, "zero_based": True})
    # adapters with several topologies
    three = distinct_relabelings(R.isobar_topologies(3)[0])
    for k in (2, 3):
        for subset in itertools.combinations(range(len(three)), k):
            out.append({"kind": "adapter", "n": 3, "members": [[0, three[i]] for i in subset],
                        "permutate": False, "cse": True, "seed": seed, "tier": tier})
    # (the permuted set of a five-body shape has 60-180 topologies: > 30 min for one adapter)
    for n in (3, 4):
        for si in range(len(R.isobar_topologies(n))):
            out.append({"kind": "adapter", "n": n, "members": [[si, list(range(n))]],
                        "permutate": True, "cse": True, "seed": seed, "tier": tier})
    if tier == "thorough":
        out.append({"kind": "adapter", "n": 4, "members": [[0, [0, 1, 2, 3]], [1, [0, 1, 2, 3]]],
                    "permutate": True, "cse": True, "seed": seed, "tier": tier})
    return out


def build_topology(n, shape, perm, swap=False, zero_based=False):
    topo = R.isobar_topologies(n)[shape]
    ids = list(range(n))
    if list(perm) != ids:
        topo = topo.relabel_edges(dict(zip(ids, perm)))
    if swap:
        inter = sorted(topo.intermediate_edge_ids)
        topo = topo.relabel_edges({inter[0]: inter[-1], inter[-1]: inter[0]})
    if zero_based:
        topo = topo.relabel_edges({e: e + 1 for e in topo.edges})
    return topo


def events_for(n, config, seed):
    """(events {id: (7,4)}, scale gamma^2 for tolerances)."""
    from vp.ref import frames  # noqa: PLC0415

    masses = [0.14 + 0.11 * i + 0.05 * irr(seed, i) for i in range(n)]
    M = sum(masses) + 1.5 + 0.5 * irr(seed, 9)
    margin = 0.04
    gamma2 = 1.0
    if config == "massless":
        masses[0] = 0.0
        if n > 2:
            masses[-1] = 0.0
    elif config == "threshold":
        M = sum(masses) * (1 + 1e-3)
        margin = 0.08
    ev = frames.lattice_events(M, masses, 7, seed, salt=11 + n, margin=margin)
    if config == "boosted":
        bg = 30.0
        g = math.sqrt(1 + bg * bg)
        direction = np.array([0.3, -0.5, 0.81])
        direction /= np.linalg.norm(direction)
        P = np.array([g * M, *(bg * M * direction)])
        L = frames.boost_from_rest(P)
        ev = {i: p @ L.T for i, p in ev.items()}
        gamma2 = g * g
    return ev, gamma2, masses, M


def _angle_close(name, got, want, theta_ref, scale):
    tol = 1e-9 * scale
    if name.startswith("phi"):
        d = abs(math.remainder(got - want, 2 * math.pi))
        s = max(abs(math.sin(theta_ref)), 1e-12)
        return d <= tol / s + 1e-12
    # acos is ill-conditioned near 0 and pi
    s = max(abs(math.sin(want)), 1e-6)
    return abs(got - want) <= tol / s + 1e-12


def eval_case(case):
    import sympy as sp  # noqa: PLC0415
    from ampform.kinematics import HelicityAdapter  # noqa: PLC0415
    from ampform.kinematics.angles import compute_helicity_angles, formulate_scattering_angle  # noqa: PLC0415
    from ampform.kinematics.lorentz import compute_invariant_masses, create_four_momentum_symbols  # noqa: PLC0415

    from vp.interp import Kinematics  # noqa: PLC0415
    from vp.ref import frames  # noqa: PLC0415

    seed, n, cse = case["seed"], case["n"], case["cse"]
    viol, outcomes, nontrivial = [], {}, []
    n_eval = 0

    def note(k, c=1):
        outcomes[k] = outcomes.get(k, 0) + c

    if case["kind"] == "single":
        topologies = [build_topology(n, case["shape"], case["perm"], case["swap"], case.get("zero_based", False))]
        desc = f"n={n} shape={case['shape']} perm={case['perm']} swap={case['swap']} cse={cse}" + (
            " zero-based" if case.get("zero_based") else "")
    else:
        topologies = [build_topology(n, si, perm) for si, perm in case["members"]]
        adapter = HelicityAdapter(topologies)
        if case["permutate"]:
            adapter.permutate_registered_topologies()
        topologies = sorted(adapter.registered_topologies, key=lambda t: sorted(
            (i, e.originating_node_id, e.ending_node_id) for i, e in t.edges.items()))
        desc = f"adapter n={n} members={case['members']} permutate={case['permutate']} ({len(topologies)} topologies)"

    def bad(kind, msg, tags=(), **detail):
        viol.append({"msg": f"{kind}: {msg} [{desc}]", "tags": [kind, *tags], "detail": detail})

    # library side: one dictionary per topology (the adapter merges exactly these)
    per_topology = []
    for topo in topologies:
        momenta = create_four_momentum_symbols(topo)
        d = dict(compute_helicity_angles(momenta, topo))
        d.update(compute_invariant_masses(momenta, topo))
        per_topology.append(d)
    merged = None
    if case["kind"] == "adapter":
        merged = adapter.create_expressions()
    configs = MASS_CONFIGS if (n <= 4 or case.get("tier") == "thorough") else ["generic", "massless"]
    fns = [Kinematics(d, cse=cse) for d in per_topology]
    merged_fn = Kinematics(merged, cse=cse) if merged is not None else None
    dalitz = None
    if n == 3 and case["kind"] == "single":
        # 1-based copy for the library's closed form theta_ij
        dalitz = {}
    for config in configs:
        ev, gamma2, masses, M = events_for(n, config, seed)
        if case.get("zero_based"):
            ev = {i + 1: p for i, p in ev.items()}
        scale = gamma2 * (1e3 if config == "threshold" else 1.0)
        values = [fn(ev) for fn in fns]
        merged_values = merged_fn(ev) if merged_fn is not None else None
        n_events = len(next(iter(ev.values())))
        name_values: dict[str, list] = {}
        for ti, topo in enumerate(topologies):
            got = values[ti]
            for j in range(n_events):
                single = {i: p[j] for i, p in ev.items()}
                ref = frames.helicity_bindings(topo, single)
                ref_masses = frames.invariant_mass_bindings(topo, single)
                by_name: dict[str, list] = {}
                for name, val, info in ref:
                    by_name.setdefault(name, []).append((val, info))
                ref_names = set(by_name) | set(ref_masses)
                if j == 0 and set(got) != ref_names:
                    bad("names", f"library names {sorted(set(got) ^ ref_names)[:6]} differ from the documented set"
                        f" (topology {ti})", topology=ti)
                    continue
                for name, cands in by_name.items():
                    if name not in got:
                        continue
                    g = float(np.real(got[name][j]))
                    theta_name = "theta" + name[3:] if name.startswith("phi") else name
                    ok = False
                    for val, info in cands:
                        th = [v for v, i2 in by_name[theta_name] if i2 is info or i2 == info]
                        th = th[0] if th else math.pi / 2
                        if _angle_close(name, g, val, th, scale):
                            ok = True
                            break
                    n_eval += 1
                    distinct_vals = len(cands) > 1 and abs(math.remainder(cands[0][0] - cands[1][0], 2 * math.pi)) > 1e-7
                    if not ok:
                        bad("angle-value", f"{name} = {g:.12g} but documented binding(s) {[round(c[0], 12) for c in cands]}"
                            f" (event {j}, {config}, topology {ti})", name=name, config=config)
                    elif distinct_vals:
                        note("angle:one-of-two-documented-bindings")
                    else:
                        note("angle:ok")
                    # (a name written by both children of a two-resonance node is only an
                    # observable clash when two topologies in one adapter disagree: below)
                    name_values.setdefault(name, []).append((ti, j, g))
                for name, val in ref_masses.items():
                    if name not in got:
                        continue
                    g = complex(got[name][j])
                    n_eval += 1
                    tol = 1e-9 * scale * max(1.0, M)
                    if abs(val) < 1e-6 * max(1.0, M):  # massless: sqrt of a rounding-size number
                        okm = abs(g) <= 1e-3 * math.sqrt(scale)
                    else:
                        okm = abs(g - val) <= tol / max(abs(val), 1e-3)
                    if not okm:
                        bad("mass-value", f"{name} = {g} but Minkowski norm {val} (event {j}, {config})", name=name)
                    else:
                        note("mass:ok")
                    name_values.setdefault(name, []).append((ti, j, g))
        # (ii) one name, one value across the topologies of an adapter
        if len(topologies) > 1:
            for name, entries in name_values.items():
                by_event: dict[int, list] = {}
                for ti, j, g in entries:
                    by_event.setdefault(j, []).append((ti, g))
                for j, vals in by_event.items():
                    base = vals[0][1]
                    for ti, g in vals[1:]:
                        n_eval += 1
                        d = abs(g - base) if not name.startswith("phi") else abs(math.remainder((g - base).real if isinstance(g - base, complex) else g - base, 2 * math.pi))
                        if d > 1e-6 * scale:
                            two = any(i["two_decaying_children"] for nm, _v, i in
                                      frames.helicity_bindings(topologies[ti], {i: p[j] for i, p in ev.items()}) if nm == name) or \
                                  any(i["two_decaying_children"] for nm, _v, i in
                                      frames.helicity_bindings(topologies[vals[0][0]], {i: p[j] for i, p in ev.items()}) if nm == name)
                            bad("name-clash", f"{name} = {base} in topology {vals[0][0]} but {g} in topology {ti}"
                                f" (event {j}, {config})",
                                ["name-from-node-with-two-decaying-children"] if two else [], name=name)
                            break
                    else:
                        continue
                    break
            if merged_values is not None:
                for name, arr in merged_values.items():
                    cands = [g for ti, j, g in name_values.get(name, []) if j == 0]
                    if not cands:
                        bad("merged-extra-name", f"adapter defines {name} which no registered topology defines")
                        continue
                    g0 = complex(arr[0])
                    n_eval += 1
                    if not any(abs(g0 - complex(c)) <= 1e-9 * scale * max(1, abs(g0)) or
                               (name.startswith("phi") and abs(math.remainder((g0 - complex(c)).real, 2 * math.pi)) <= 1e-9 * scale)
                               for c in cands):
                        bad("merged-value", f"adapter value of {name} = {g0} equals no per-topology value {cands[:3]}")
                    else:
                        note("adapter:merged-value-ok")
        # three-body: helicity polar angle == library's closed-form Dalitz expression
        if dalitz is not None and config != "boosted":
            topo = topologies[0]
            pair = sorted(topo.get_edge_ids_outgoing_from_node(
                topo.edges[next(iter(topo.intermediate_edge_ids))].ending_node_id))
            shift = 0 if case.get("zero_based") else 1
            i, jj = pair[0] + shift, pair[1] + shift  # helicity child = smaller id; 1-based ids
            _sym, expr = formulate_scattering_angle(i, jj)
            k = ({1, 2, 3} - {i, jj}).pop()
            subs = {}
            single_m = {"m_0": None}
            for j in range(n_events):
                single = {a: p[j] for a, p in ev.items()}
                p = {a + shift: single[a] for a in single}
                val = {"m_0": math.sqrt(max(0.0, frames.minkowski_norm2(sum(single.values()))))}
                for a in (1, 2, 3):
                    val[f"m_{a}"] = math.sqrt(max(0.0, float(frames.minkowski_norm2(p[a]))))
                for a, b in ((1, 2), (1, 3), (2, 3)):
                    val[f"m_{a}{b}"] = math.sqrt(max(0.0, float(frames.minkowski_norm2(p[a] + p[b]))))
                subs = {s: val[s.name] for s in expr.free_symbols}
                closed = complex(expr.doit().xreplace(subs).evalf())
                name = "theta" + frames._suffix(topo, pair[0])  # noqa: SLF001
                if name not in values[0]:
                    break  # the name mismatch has been reported above
                g = float(np.real(values[0][name][j]))
                n_eval += 1
                s = max(abs(math.sin(g)), 1e-6)
                if abs(closed.imag) > 1e-6 or abs(closed.real - g) > 1e-7 * scale / s:
                    bad("dalitz-closed-form", f"{name} = {g} from four-momenta but theta_{i}{jj} = {closed} from the"
                        f" library's Dalitz formula (event {j}, {config})")
                else:
                    note("dalitz-closed-form:ok")
            _ = (subs, single_m, k)
        if any(nm.startswith(("phi", "theta")) for nm in name_values):
            nontrivial.append([desc, config])
    return {"violations": viol, "evaluations": n_eval, "nontrivial": nontrivial, "outcomes": outcomes,
            "sample": {"case": desc, "names": sorted(per_topology[0], key=str)[:6] and [str(s) for s in list(per_topology[0])[:6]]}}
