"""C08 - boost and rotation expressions are proper Lorentz transformations.

Bounded-exhaustive enumeration of

    expression (class or ArrayMultiplication / MatrixMultiplication chain)
      x code path {doit()+lambdify("numpy"), as_explicit() evaluated numerically}
      x cse {False, True} x batch size

and, per case, a deterministic lattice of numeric points (directions x beta*gamma x
mass, angles k*pi/6 and seed-shifted ones).  Every array the real ampform code produces
is compared element by element with an independent numpy reference (``vp.ref.kin``) and
checked against the algebraic laws of the statement (L^T eta L = eta, det = +1,
L00 >= 1, L(p)p = (m,0,0,0), L(-p)L(p) = 1, Bz = B for p || z, R(a)R(b) = R(a+b),
generated code = explicit matrix).

An expression is described by a small JSON spec (see ``_items``):

    factor  [cls, arg]   cls in B (BoostMatrix(p)), Bneg (BoostMatrix(NegativeMomentum(p))),
                         BzS (BoostZMatrix(beta symbol)), BzP (BoostZMatrix(p_z/E of p)),
                         Ry, Rz (rotation, arg = signed sum of angle symbols), eta
    vec     ["p", name] | ["neg", name]   (momentum / NegativeMomentum(momentum))
    op      "single" (the bare expression), "MM" (MatrixMultiplication of the factors),
            "AM" (ArrayMultiplication of the factors and the vector)
"""

from __future__ import annotations

import itertools
import math
import traceback

PROPERTY = "C08"
LEVEL = "exploration"
RULE = (
    "all expressions from {BoostMatrix, BoostMatrix(NegativeMomentum) (also nested two and three times), BoostZMatrix(symbol"
    " / p_z/E), RotationY/ZMatrix, MinkowskiMetric, NegativeMomentum, the named law"
    " expressions (rest frame, inverse, round trip, z-boost = boost, R(a)R(b)=R(a+b), R(a)R(-a)=1)"
    " and all MatrixMultiplication / ArrayMultiplication chains over {B,Bz,Ry,Rz} up to the"
    " tier's length} x code path {doit+lambdify(numpy), as_explicit numerically} x cse {F,T}"
    " x batch size; per case every region of the numeric lattice (direction class x"
    " beta*gamma, angle grid / seed-shifted) is evaluated in batches of exactly that size;"
    " a (expression, path, cse, batch, region) combination is non-trivial when at least one"
    " oracle was evaluated on >= 1 finite array produced by ampform; outcomes are"
    " per-oracle buckets of the largest relative deviation seen in a region"
)
ASSUMPTIONS = [
    "numpy's einsum/linalg.det/cos/sin and vp.ref.kin (Rodrigues rotations, boost"
    " parametrised by beta*gamma and direction) are trusted",
    "the real-valued quantifiers are covered by a finite lattice only: directions (6 axis,"
    " 12 face, 8 body diagonals, generic Fibonacci-spiral points with seed-dependent phase),"
    " beta*gamma and mass lists, angles k*pi/6 plus seed-shifted angles; p = 0 exactly is"
    " excluded (0/0 in the general boost)",
    "tolerance eps*gamma^2 (eps = 1e-12) relative to the magnitude of the entries; a correct"
    " implementation whose entries carry *independent* rounding errors of relative size"
    " 1e-16*gamma^2 could exceed it for the algebraic laws at beta*gamma >= 1e3",
    "the as_explicit() path of a chain is the numpy product of the numerically evaluated"
    " as_explicit() matrices of its factors (chains have no as_explicit() of their own)",
    "BoostZMatrix is compared with BoostMatrix for beta = p_z/E (signed), which is what the"
    " BoostZMatrix docstring defines",
]
CHUNK = 4
EPS = 1e-12
KNOWN_TAG = "boostmatrix-cse-false-codegen"

MATS = ["B", "BzS", "Ry", "Rz"]
BOOSTS = {"B", "Bneg", "Bnn", "Bnnn", "BzS", "BzP"}


# ------------------------------------------------------------------ enumeration
def _chain(op, classes, with_vec=None):
    """Chain with position-specific symbols (p<i>, b<i>, a<i>) and vector q."""
    factors = []
    for i, cls in enumerate(classes):
        if cls in {"B", "Bneg", "Bnn", "Bnnn", "BzP", "eta"}:
            factors.append([cls, f"p{i}"])
        elif cls == "BzS":
            factors.append([cls, f"b{i}"])
        else:
            factors.append([cls, f"a{i}"])
    name = f"{op}({','.join(classes)}{'|q' if with_vec else ''})"
    return {"id": name, "op": op, "factors": factors, "vec": ["p", "q"] if with_vec else None}


def _named_items():
    out = []

    def add(id_, op, factors, vec=None, **kw):
        out.append({"id": id_, "op": op, "factors": factors, "vec": vec, **kw})

    # bare classes
    add("S:BoostMatrix(p)", "single", [["B", "p0"]])
    add("S:BoostMatrix(NegativeMomentum(p))", "single", [["Bneg", "p0"]])
    add("S:BoostZMatrix(beta)", "single", [["BzS", "b0"]])
    add("S:BoostZMatrix(pz/E)", "single", [["BzP", "p0"]])
    add("S:RotationYMatrix(a)", "single", [["Ry", "a0"]])
    add("S:RotationZMatrix(a)", "single", [["Rz", "a0"]])
    add("S:MinkowskiMetric(p)", "single", [["eta", "p0"]])
    add("S:NegativeMomentum(p)", "single", [], ["neg", "p0"])
    add("MM(MinkowskiMetric)", "MM", [["eta", "p0"]])
    add("MM(Bneg)", "MM", [["Bneg", "p0"]])
    add("AM(MinkowskiMetric|q)", "AM", [["eta", "p0"]], ["p", "q"])
    add("AM(Bneg|-q)", "AM", [["Bneg", "p0"]], ["neg", "q"])
    # L(p) p = (m, 0, 0, 0)
    add("rest:AM(B(p)|p)", "AM", [["B", "p0"]], ["p", "p0"], expect="rest")
    add("rest:AM(B(-p)|-p)", "AM", [["Bneg", "p0"]], ["neg", "p0"], expect="rest")
    # L(-p) L(p) = 1
    add("inv:MM(B(-p),B(p))", "MM", [["Bneg", "p0"], ["B", "p0"]], expect="identity")
    add("inv:MM(B(p),B(-p))", "MM", [["B", "p0"], ["Bneg", "p0"]], expect="identity")
    add("inv:AM(B(-p),B(p)|q)", "AM", [["Bneg", "p0"], ["B", "p0"]], ["p", "q"], tol="G",
        same_as={"id": "AM(|q)", "op": "AM", "factors": [], "vec": ["p", "q"]})
    # space inversion applied twice / three times is the momentum itself / its inversion
    add("S:BoostMatrix(P(P(p)))", "single", [["Bnn", "p0"]])
    add("S:BoostMatrix(P(P(P(p))))", "single", [["Bnnn", "p0"]])
    add("rest:AM(B(PPp)|p)", "AM", [["Bnn", "p0"]], ["p", "p0"], expect="rest")
    add("inv:MM(B(PPp),B(-p))", "MM", [["Bnn", "p0"], ["Bneg", "p0"]], expect="identity")
    add("inv:MM(B(PPPp),B(p))", "MM", [["Bnnn", "p0"], ["B", "p0"]], expect="identity")
    # momenta that are SUMS (how the library forms the momentum of a decaying state)
    add("S:BoostMatrix(p+q)", "single", [["B", "p0+p1"]])
    add("S:BoostMatrix(-(p+q))", "single", [["Bneg", "p0+p1"]])
    add("S:NegativeMomentum(p+q)", "single", [], ["neg", "p0+p1"])
    add("inv:MM(B(-(p+q)),B(p+q))", "MM", [["Bneg", "p0+p1"], ["B", "p0+p1"]], expect="identity")
    add("rest:AM(B(p+q)|p+q)", "AM", [["B", "p0+p1"]], ["p", "p0+p1"], expect="rest")
    add("rest:AM(B(-(p+q))|-(p+q))", "AM", [["Bneg", "p0+p1"]], ["neg", "p0+p1"], expect="rest")
    # z-boost = general boost for p along +z and -z, beta = p_z / E
    add("z:BoostZMatrix(beta)=BoostMatrix(p)", "single", [["BzS", "b0"]], zonly=True,
        bind={"b0": "p0"},
        same_as={"id": "S:B", "op": "single", "factors": [["B", "p0"]], "vec": None})
    add("z:BoostZMatrix(pz/E)=BoostMatrix(p)", "single", [["BzP", "p0"]], zonly=True,
        same_as={"id": "S:B", "op": "single", "factors": [["B", "p0"]], "vec": None})
    add("z:AM(Bz(beta)|p)=rest", "AM", [["BzS", "b0"]], ["p", "p0"], zonly=True,
        bind={"b0": "p0"}, expect="rest")
    # rotations compose additively
    for r in ("Ry", "Rz"):
        one = {"id": f"S:{r}(a0+a1)", "op": "single", "factors": [[r, "a0+a1"]], "vec": None}
        add(f"add:MM({r}(a),{r}(b))={r}(a+b)", "MM", [[r, "a0"], [r, "a1"]], same_as=one)
        add(f"add:AM({r}(a),{r}(b)|q)=AM({r}(a+b)|q)", "AM", [[r, "a0"], [r, "a1"]], ["p", "q"],
            same_as={"id": f"AM({r}(a0+a1)|q)", "op": "AM", "factors": [[r, "a0+a1"]],
                     "vec": ["p", "q"]})
        add(f"add:MM({r}(a),{r}(b),{r}(c))={r}(a+b+c)", "MM",
            [[r, "a0"], [r, "a1"], [r, "a2"]],
            same_as={"id": f"S:{r}(a0+a1+a2)", "op": "single",
                     "factors": [[r, "a0+a1+a2"]], "vec": None})
        add(f"add:MM({r}(a),{r}(-a))=1", "MM", [[r, "a0"], [r, "-a0"]], expect="identity")
        add(f"add:AM({r}(-a),{r}(a)|q)=q", "AM", [[r, "-a0"], [r, "a0"]], ["p", "q"], tol="G",
            same_as={"id": "AM(|q)", "op": "AM", "factors": [], "vec": ["p", "q"]})
    return out


QUICK_MM3 = [
    ("B", "Ry", "Rz"), ("Rz", "Ry", "BzS"), ("Ry", "Rz", "B"), ("BzS", "Ry", "Rz"),
    ("Rz", "B", "Ry"), ("Ry", "BzS", "Rz"), ("B", "B", "B"), ("Ry", "Rz", "Ry"),
    ("Rz", "Ry", "Rz"), ("B", "BzS", "Ry"), ("BzS", "B", "Rz"), ("Ry", "Ry", "B"),
]
QUICK_MM4 = [
    ("B", "Ry", "Rz", "BzS"), ("BzS", "Ry", "Rz", "B"), ("Rz", "Ry", "Rz", "Ry"),
    ("Ry", "B", "Rz", "BzS"), ("B", "B", "Ry", "Rz"), ("Rz", "BzS", "Ry", "B"),
]
QUICK_AM3 = [
    ("B", "Ry", "Rz"), ("BzS", "Ry", "Rz"), ("Rz", "Ry", "B"), ("Rz", "Ry", "BzS"),
    ("Ry", "B", "Rz"), ("Rz", "BzS", "Ry"), ("B", "B", "Ry"), ("Ry", "Rz", "Ry"),
]


def _items(tier):
    out = _named_items()
    out.append({"id": "AM(|q)", "op": "AM", "factors": [], "vec": ["p", "q"]})
    full_mm = 4 if tier == "thorough" else 2
    full_am = 3 if tier == "thorough" else 2
    for n in range(1, full_mm + 1):
        for seq in itertools.product(MATS, repeat=n):
            out.append(_chain("MM", seq))
    for n in range(1, full_am + 1):
        for seq in itertools.product(MATS, repeat=n):
            out.append(_chain("AM", seq, with_vec=True))
    if tier != "thorough":
        out.extend(_chain("MM", seq) for seq in QUICK_MM3 + QUICK_MM4)
        out.extend(_chain("AM", seq, with_vec=True) for seq in QUICK_AM3)
    return out


def batches(tier):
    return [1, 2, 5, 17] if tier == "thorough" else [1, 2, 5]


# argument expressions (not just symbols): the generated code must not depend on how the
# argument of a matrix class prints (operator precedence inside the code templates)
ARG_EXPRS = {
    "RotationYMatrix": ["x + y", "x - y", "-(x + y)", "asin(x + y)", "acos(x*y)", "2*x", "asin(x) - y"],
    "RotationZMatrix": ["x + y", "x - y", "-(x + y)", "asin(x + y)", "acos(x*y)", "2*x", "asin(x) - y"],
    "BoostZMatrix": ["x + y", "x - y", "-(x + y)/2", "x*y", "-x"],
}


def cases(tier, seed):
    out = []
    for cls, exprs in ARG_EXPRS.items():
        for expr in exprs:
            for cse in (False, True):
                out.append({"kind": "argexpr", "cls": cls, "expr": expr, "cse": cse,
                            "tier": tier, "seed": seed})
    for item in _items(tier):
        for path in ("code", "explicit"):
            for cse in (False, True):
                for n in batches(tier):
                    if not cse and features(item) & {"Bnn", "Bnnn"} and n != max(batches(tier)):
                        continue  # uncompressed code of nested inversions is large: one batch size
                    if not cse and "Bnnn" in features(item) and tier != "thorough":
                        continue  # (~100 s per case)
                    out.append({"item": item, "path": path, "cse": cse, "batch": n,
                                "tier": tier, "seed": seed})
    return out


# ------------------------------------------------------------------ lattice
def _lattice_params(tier):
    if tier == "thorough":
        return {
            "n_generic": 40,
            "bg": [1e-10, 1e-8, 1e-6, 1e-3, 1e-2, 0.1, 0.3, 1.0, 3.0, 10.0, 1e2, 1e3, 1e4],
            "mass": [1e-5, 1e-3, 1.0, 1e3],
            "angle_div": 12,
            "near_axis": True,
        }
    return {
        "n_generic": 12,
        "bg": [1e-8, 1e-3, 0.1, 1.0, 10.0, 1e3],
        "mass": [1e-4, 0.1, 1.0, 10.0],
        "angle_div": 6,
        "near_axis": False,
    }


def direction_classes(tier, seed):
    import numpy as np  # noqa: PLC0415

    from vp.util import irr  # noqa: PLC0415

    par = _lattice_params(tier)
    axis, face, body = [], [], []
    for v in itertools.product((-1, 0, 1), repeat=3):
        nz = sum(1 for c in v if c)
        if nz:
            [axis, face, body][nz - 1].append(v)
    n_gen = par["n_generic"]
    phase, tilt = irr(seed, 0), irr(seed, 1)
    golden = 0.6180339887498949
    generic = []
    for k in range(n_gen):
        ct = 1.0 - 2.0 * (k + 0.15 + 0.7 * tilt) / n_gen
        st = math.sqrt(1.0 - ct * ct)
        phi = 2.0 * math.pi * ((k * golden + phase) % 1.0)
        generic.append((st * math.cos(phi), st * math.sin(phi), ct))
    classes = {"axis": axis, "face": face, "body": body, "generic": generic}
    if par["near_axis"]:
        near = []
        for i in range(3):
            for sgn in (1, -1):
                v = [0.0, 0.0, 0.0]
                v[i] = sgn
                v[(i + 1) % 3] = 1e-6 * (1 + tilt)
                near.append(tuple(v))
        classes["near-axis"] = near
    out = {}
    for name, vs in classes.items():
        arr = np.array(vs, dtype=float)
        out[name] = arr / np.linalg.norm(arr, axis=1)[:, None]
    return out


def angle_lists(tier, seed):
    from vp.util import irr  # noqa: PLC0415

    div = _lattice_params(tier)["angle_div"]
    step = math.pi / div
    ks = range(-2 * div, 2 * div + 1)
    grid = [k * step for k in ks]
    shift = [(k + irr(seed, 100 + k + 2 * div)) * step for k in ks]
    return {"grid": grid, "shift": shift}


def beta_of(bg):
    return bg / math.sqrt(1.0 + bg * bg)


class Lattice:
    """All numeric points of a tier / seed (deterministic)."""

    def __init__(self, tier, seed):
        import numpy as np  # noqa: PLC0415

        self.par = _lattice_params(tier)
        self.dirs = direction_classes(tier, seed)
        self.angles = angle_lists(tier, seed)
        self.all_angles = np.array(self.angles["grid"] + self.angles["shift"])
        # momentum lattice: (class, bg) region -> parameter arrays
        self.mom_regions = {}
        all_m, all_bg, all_n = [], [], []
        for cname, dirs in self.dirs.items():
            for bg in self.par["bg"]:
                m = np.repeat(self.par["mass"], len(dirs))
                n = np.tile(dirs, (len(self.par["mass"]), 1))
                b = np.full(len(m), bg)
                self.mom_regions[f"{cname}|bg={bg:g}"] = (m, b, n)
                all_m.append(m)
                all_bg.append(b)
                all_n.append(n)
        self.all_mom = (np.concatenate(all_m), np.concatenate(all_bg), np.concatenate(all_n))
        self.beta_regions = {"beta=0": np.array([0.0])}
        for bg in self.par["bg"]:
            self.beta_regions[f"beta|bg={bg:g}"] = np.array([beta_of(bg), -beta_of(bg)])
        self.all_beta = np.concatenate(list(self.beta_regions.values()))

    def describe(self):
        return {
            "directions": {k: len(v) for k, v in self.dirs.items()},
            "beta_gamma": self.par["bg"],
            "mass": self.par["mass"],
            "angles": f"k*pi/{self.par['angle_div']}, k=-{2 * self.par['angle_div']}.."
                      f"{2 * self.par['angle_div']} (grid) and the same shifted by"
                      f" irr(seed,.)*pi/{self.par['angle_div']} (shift)",
            "momentum_points": len(self.all_mom[0]),
            "angle_points": len(self.all_angles),
            "beta_points": len(self.all_beta),
            "note": "a lattice only: the property is shown at these points and no others",
        }


_LATTICES: dict = {}


def lattice(tier, seed):
    key = (tier, seed)
    if key not in _LATTICES:
        _LATTICES[key] = Lattice(tier, seed)
    return _LATTICES[key]


def _parse_sum(arg):
    """'a0+a1', '-a0' -> [(sign, name), ...]."""
    terms = []
    for chunk in arg.replace("-", "+-").split("+"):
        if not chunk:
            continue
        if chunk.startswith("-"):
            terms.append((-1, chunk[1:]))
        else:
            terms.append((1, chunk))
    return terms


def item_symbols(item):
    """Ordered [(name, kind)] over the item and its same_as partner."""
    seen = {}

    def visit(it):
        for cls, arg in it["factors"]:
            if cls in {"B", "Bneg", "Bnn", "Bnnn", "BzP", "eta"}:
                for name in arg.split("+"):
                    seen.setdefault(name, "mom")
            else:
                for _, name in _parse_sum(arg):
                    seen.setdefault(name, "beta" if cls == "BzS" else "ang")
        if it.get("vec"):
            for name in it["vec"][1].split("+"):
                seen.setdefault(name, "mom")

    visit(item)
    if item.get("same_as"):
        visit(item["same_as"])
    return list(seen.items())


MOM_STRIDES = [7, 11, 13, 23, 29, 31]
ANG_STRIDES = [3, 7, 9, 11, 13, 17]


def regions(item, tier, seed):
    """[(region key, {symbol: data})]; data is {'kind', arrays...} with N points each."""
    import numpy as np  # noqa: PLC0415

    from vp.ref import kin  # noqa: PLC0415

    lat = lattice(tier, seed)
    syms = item_symbols(item)
    bind = item.get("bind", {})
    free = [(n, k) for n, k in syms if n not in bind]
    kinds = [k for _, k in free]

    def mom_data(m, bg, n):
        return {"kind": "mom", "m": m, "bg": bg, "n": n, "p": kin.momentum(m, bg, n)}

    def secondary(name, kind, pos, r_idx, n_pts):
        t = np.arange(n_pts)
        if kind == "mom":
            am, ab, an = lat.all_mom
            idx = (r_idx * 17 + t * MOM_STRIDES[pos % 6] + 101 * (pos + 1)) % len(am)
            return mom_data(am[idx], ab[idx], an[idx])
        if kind == "ang":
            idx = (r_idx * 5 + t * ANG_STRIDES[pos % 6] + 13 * (pos + 1)) % len(lat.all_angles)
            return {"kind": "ang", "v": lat.all_angles[idx]}
        idx = (r_idx * 3 + t * (2 * pos + 1) + pos) % len(lat.all_beta)
        return {"kind": "beta", "v": lat.all_beta[idx]}

    out = []
    if "mom" in kinds:
        prim = next(n for n, k in free if k == "mom")
        for r_idx, (rkey, (m, bg, n)) in enumerate(lat.mom_regions.items()):
            if item.get("zonly"):
                if not rkey.startswith("axis|"):
                    continue
                keep = np.abs(n[:, 2]) == 1.0
                for sgn, label in ((1.0, "z+"), (-1.0, "z-")):
                    sel = keep & (n[:, 2] == sgn)
                    data = {prim: mom_data(m[sel], bg[sel], n[sel])}
                    out.append((f"{label}|{rkey.split('|')[1]}", data, r_idx))
                continue
            out.append((rkey, {prim: mom_data(m, bg, n)}, r_idx))
        primary_names = {prim}
    elif "beta" in kinds:
        prim = next(n for n, k in free if k == "beta")
        rep = 12
        for r_idx, (rkey, betas) in enumerate(lat.beta_regions.items()):
            out.append((rkey, {prim: {"kind": "beta", "v": np.tile(betas, rep)}}, r_idx))
        primary_names = {prim}
    elif len(free) == 1:
        prim = free[0][0]
        for r_idx, (rkey, vals) in enumerate(lat.angles.items()):
            out.append((f"ang:{rkey}", {prim: {"kind": "ang", "v": np.array(vals)}}, r_idx))
        primary_names = {prim}
    elif len(free) == 2:
        (n0, _), (n1, _) = free
        r_idx = 0
        for k0, v0 in lat.angles.items():
            for k1, v1 in lat.angles.items():
                a0, a1 = np.meshgrid(np.array(v0), np.array(v1), indexing="ij")
                out.append((f"ang:{k0}x{k1}", {
                    n0: {"kind": "ang", "v": a0.ravel()},
                    n1: {"kind": "ang", "v": a1.ravel()},
                }, r_idx))
                r_idx += 1
        primary_names = {n0, n1}
    else:
        prim = free[0][0]
        rep = 5
        for r_idx, (rkey, vals) in enumerate(lat.angles.items()):
            out.append((f"ang:{rkey}+strided",
                        {prim: {"kind": "ang", "v": np.tile(np.array(vals), rep)}}, r_idx))
        primary_names = {prim}

    result = []
    for rkey, data, r_idx in out:
        n_pts = len(next(iter(data.values())).get("v", next(iter(data.values())).get("m")))
        for pos, (name, kind) in enumerate(free):
            if name not in primary_names:
                data[name] = secondary(name, kind, pos, r_idx, n_pts)
        # a sum of momenta that is exactly at rest is the excluded point p = 0 of the general
        # boost: give the second momentum twice its beta*gamma there
        sums = {f[1] for f in item["factors"] if "+" in f[1]}
        if item.get("vec") and "+" in item["vec"][1]:
            sums.add(item["vec"][1])
        for arg in sorted(sums):
            names = arg.split("+")
            tot = sum(data[nm]["p"][:, 1:] for nm in names)
            at_rest = ~np.any(tot != 0.0, axis=1)
            if np.any(at_rest):
                d = data[names[-1]]
                bg2 = np.where(at_rest, 2.0 * d["bg"], d["bg"])
                data[names[-1]] = mom_data(d["m"], bg2, d["n"])
        for name, src in bind.items():  # beta := p_z / E of a momentum (signed)
            p = data[src]["p"]
            data[name] = {"kind": "beta", "v": p[:, 3] / p[:, 0],
                          "exact": data[src]["bg"] * data[src]["n"][:, 2]
                          / np.sqrt(1.0 + data[src]["bg"] ** 2)}
        result.append((rkey, data))
    return result


# ------------------------------------------------------------------ library side
class CodegenFailure(Exception):
    """The code generated by the library (or generating it) raised."""

    def __init__(self, stage, exc):
        super().__init__(f"{stage}: {type(exc).__name__}: {exc}")
        self.stage = stage
        self.exc = exc


def _sym_table(symbols):
    import sympy as sp  # noqa: PLC0415

    from ampform.kinematics.lorentz import create_four_momentum_symbol  # noqa: PLC0415

    table = {}
    for i, (name, kind) in enumerate(symbols):
        if kind == "mom":
            table[name] = create_four_momentum_symbol(i)
        else:
            table[name] = sp.Symbol(name)
    return table


def _arg_expr(arg, table):
    tot = 0
    for sgn, name in _parse_sum(arg):
        tot = tot + sgn * table[name]
    return tot


def _mom_expr(arg, table):
    """A momentum symbol, or the ArraySum of several ("p0+p1")."""
    from ampform.sympy._array_expressions import ArraySum  # noqa: PLC0415

    names = arg.split("+")
    return table[names[0]] if len(names) == 1 else ArraySum(*[table[n] for n in names])


def _mom_data(arg, data):
    """Reference (m, bg, n) of a momentum symbol or of a sum of momenta."""
    import numpy as np  # noqa: PLC0415

    from vp.ref import kin  # noqa: PLC0415

    names = arg.split("+")
    if len(names) == 1:
        d = data[arg]
        return d["m"], d["bg"], d["n"]
    tot = sum(kin.momentum(data[n]["m"], data[n]["bg"], data[n]["n"]) for n in names)
    p3 = np.sqrt((tot[:, 1:] ** 2).sum(axis=1))
    mass = np.sqrt(np.maximum((tot[:, 0] - p3) * (tot[:, 0] + p3), 0.0))
    n = tot[:, 1:] / np.maximum(p3, 1e-300)[:, None]
    return mass, p3 / mass, n


def build_factor(factor, table, n_events):
    from ampform.kinematics import lorentz as lz  # noqa: PLC0415

    cls, arg = factor
    if cls == "B":
        return lz.BoostMatrix(_mom_expr(arg, table))
    if cls == "Bneg":
        return lz.BoostMatrix(lz.NegativeMomentum(_mom_expr(arg, table)))
    if cls == "Bnn":
        return lz.BoostMatrix(lz.NegativeMomentum(lz.NegativeMomentum(table[arg])))
    if cls == "Bnnn":
        return lz.BoostMatrix(lz.NegativeMomentum(lz.NegativeMomentum(lz.NegativeMomentum(table[arg]))))
    if cls == "BzS":
        return lz.BoostZMatrix(_arg_expr(arg, table), n_events)
    if cls == "BzP":
        p = table[arg]
        return lz.BoostZMatrix(lz.FourMomentumZ(p) / lz.Energy(p), n_events)
    if cls == "Ry":
        return lz.RotationYMatrix(_arg_expr(arg, table), n_events)
    if cls == "Rz":
        return lz.RotationZMatrix(_arg_expr(arg, table), n_events)
    if cls == "eta":
        return lz.MinkowskiMetric(table[arg])
    raise ValueError(cls)


def build_expr(item, table, symbols):
    from ampform.kinematics import lorentz as lz  # noqa: PLC0415
    from ampform.sympy._array_expressions import (  # noqa: PLC0415
        ArrayMultiplication,
        MatrixMultiplication,
    )

    n_events = lz.ArraySize(table[symbols[0][0]])
    factors = [build_factor(f, table, n_events) for f in item["factors"]]
    vec = None
    if item.get("vec"):
        kind, name = item["vec"]
        vec = _mom_expr(name, table) if kind == "p" else lz.NegativeMomentum(_mom_expr(name, table))
    if item["op"] == "single":
        return factors[0] if factors else vec
    if item["op"] == "MM":
        return MatrixMultiplication(*factors)
    return ArrayMultiplication(*factors, vec)


def _generated_frame(exc):
    tb = traceback.extract_tb(exc.__traceback__)
    return any(f.filename.startswith("<lambdifygenerated") for f in tb)


def _call(func, args):
    import numpy as np  # noqa: PLC0415

    try:
        with np.errstate(all="ignore"):
            return func(*args)
    except Exception as exc:  # noqa: BLE001
        if _generated_frame(exc):
            raise CodegenFailure("calling the generated function", exc) from exc
        raise


def _lambdify(args, expr, cse):
    import sympy as sp  # noqa: PLC0415

    try:
        return sp.lambdify(args, expr, "numpy", cse=cse)
    except Exception as exc:  # noqa: BLE001
        raise CodegenFailure("sp.lambdify", exc) from exc


def _values(names, data, idx):
    out = []
    for name in names:
        d = data[name]
        out.append(d["p"][idx] if d["kind"] == "mom" else d["v"][idx])
    return out


class CodeEvaluator:
    """expr.doit() -> sp.lambdify(..., 'numpy', cse=...) -> arrays."""

    def __init__(self, item, symbols, cse):
        table = _sym_table(symbols)
        expr = build_expr(item, table, symbols)
        self.names = [n for n, _ in symbols]
        self.func = _lambdify([table[n] for n in self.names], expr.doit(), cse)

    def __call__(self, data, idx):
        return _call(self.func, _values(self.names, data, idx))


class ExplicitEvaluator:
    """as_explicit() of every factor, evaluated numerically, multiplied with numpy."""

    def __init__(self, item, symbols, cse):
        from ampform.kinematics import lorentz as lz  # noqa: PLC0415

        table = _sym_table(symbols)
        self.names = [n for n, _ in symbols]
        args = [table[n] for n in self.names]
        n_events = lz.ArraySize(table[symbols[0][0]])
        self.item = item
        self.funcs = []
        for factor in item["factors"]:
            matrix = build_factor(factor, table, n_events).as_explicit()
            flat = [matrix[i, j].doit() for i in range(4) for j in range(4)]
            self.funcs.append(_lambdify(args, flat, cse))
        self.eta = None
        if item.get("vec") and item["vec"][0] == "neg":
            matrix = lz.MinkowskiMetric(table[item["vec"][1].split("+")[0]]).as_explicit()
            flat = [matrix[i, j] for i in range(4) for j in range(4)]
            self.eta = _lambdify(args, flat, cse)

    @staticmethod
    def _matrix(flat, n):
        import numpy as np  # noqa: PLC0415

        is_complex = any(x.dtype.kind == "c" if hasattr(x, "dtype") else isinstance(x, complex)
                         for x in flat)
        out = np.empty((n, 16), dtype=complex if is_complex else float)
        for k, x in enumerate(flat):
            out[:, k] = x  # scalars (constant elements) and (n,) arrays broadcast
        return out.reshape(n, 4, 4)

    def __call__(self, data, idx):
        import numpy as np  # noqa: PLC0415

        vals = _values(self.names, data, idx)
        n = len(idx)
        mats = [self._matrix(_call(f, vals), n) for f in self.funcs]
        prod = None
        for m in mats:
            prod = m if prod is None else np.einsum("nij,njk->nik", prod, m)
        if not self.item.get("vec"):
            return prod
        vec = sum(data[name]["p"][idx] for name in self.item["vec"][1].split("+"))
        if self.eta is not None:
            vec = np.einsum("nij,nj->ni", self._matrix(_call(self.eta, vals), n), vec)
        return vec if prod is None else np.einsum("nij,nj->ni", prod, vec)


# ------------------------------------------------------------------ reference side
def ref_factor(factor, data):
    import numpy as np  # noqa: PLC0415

    from vp.ref import kin  # noqa: PLC0415

    cls, arg = factor
    if cls in {"B", "Bneg", "Bnn", "Bnnn"}:
        _m, bg, n = _mom_data(arg, data)
        n = n if cls in {"B", "Bnn"} else -n
        return kin.boost(bg, n), kin.gamma_of(bg)
    if cls == "BzP":
        d = data[arg]
        beta = d["bg"] * d["n"][:, 2] / kin.gamma_of(d["bg"])
        return kin.boost_z(beta), 1.0 / np.sqrt(1.0 - beta * beta)
    val = 0.0
    for sgn, name in _parse_sum(arg) if cls != "eta" else []:
        d = data[name]
        val = val + sgn * d.get("exact", d["v"])
    if cls == "BzS":
        return kin.boost_z(val), 1.0 / np.sqrt(1.0 - val * val)
    if cls == "Ry":
        return kin.rot_y(val), np.ones(len(val))
    if cls == "Rz":
        return kin.rot_z(val), np.ones(len(val))
    if cls == "eta":
        n = len(data[arg]["m"])
        return kin.metric(n), np.ones(n)
    raise ValueError(cls)


def reference(item, data):
    """(array, G = product of gammas, C = max(1, sum gamma^2), V = vector magnitude)."""
    import numpy as np  # noqa: PLC0415

    from vp.ref import kin  # noqa: PLC0415

    n_pts = len(next(iter(data.values())).get("v", next(iter(data.values())).get("m")))
    big_g = np.ones(n_pts)
    big_c = np.zeros(n_pts)
    prod = None
    for factor in item["factors"]:
        mat, g = ref_factor(factor, data)
        prod = mat if prod is None else kin.matmul(prod, mat)
        big_g = big_g * g
        if factor[0] in BOOSTS:
            big_c = big_c + g * g
    big_c = np.maximum(big_c, 1.0)
    if not item.get("vec"):
        return prod, big_g, big_c, np.ones(n_pts)
    kind, name = item["vec"]
    vm, vbg, vn = _mom_data(name, data)
    vec = kin.momentum(vm, vbg, vn if kind == "p" else -vn)
    mag = np.abs(vec).max(axis=1)
    if prod is not None:
        vec = kin.apply(prod, vec)
    return vec, big_g, big_c, mag


# ------------------------------------------------------------------ oracles
BUCKETS = [(0.0, "0"), (1e-15, "<=1e-15"), (1e-12, "<=1e-12"), (1e-9, "<=1e-9"),
           (1e-6, "<=1e-6")]


def bucket(x):
    if x != x:
        return "nan"
    for bound, label in BUCKETS:
        if x <= bound:
            return label
    return ">1e-6"


def evaluate_in_batches(evaluator, data, n_pts, batch):
    """Evaluate all points in calls of exactly `batch` events (wrap-around padding)."""
    import numpy as np  # noqa: PLC0415

    n_calls = -(-n_pts // batch)
    idx_all = np.arange(n_calls * batch) % n_pts
    parts = []
    for c in range(n_calls):
        idx = idx_all[c * batch:(c + 1) * batch]
        res = np.asarray(evaluator(data, idx))
        parts.append(res)
    shapes = {p.shape for p in parts}
    return parts, shapes, n_calls


def features(item):
    classes = {f[0] for f in item["factors"]}
    if item.get("same_as"):
        classes |= {f[0] for f in item["same_as"]["factors"]}
    return classes


def has_boostmatrix(item):
    return bool(features(item) & {"B", "Bneg", "Bnn", "Bnnn"})


def _eval_argexpr(case):
    """code generated for cls(<expression>, n).doit() == as_explicit() evaluated numerically."""
    import numpy as np  # noqa: PLC0415
    import sympy as sp  # noqa: PLC0415
    from ampform.kinematics import lorentz  # noqa: PLC0415

    from vp.util import irr  # noqa: PLC0415

    x, y, n = sp.symbols("x y n")
    arg = sp.sympify(case["expr"], locals={"x": x, "y": y})
    cls = getattr(lorentz, case["cls"])
    unfolded = cls(arg, n).doit()
    f = sp.lambdify([x, y, n], unfolded, "numpy", cse=case["cse"])
    explicit = sp.lambdify([x, y], cls(arg, n).as_explicit().doit(), "numpy")
    seed = case.get("seed", 0)
    pts = [(0.2 + 0.1 * irr(seed, 1), 0.3 + 0.1 * irr(seed, 2)), (-0.35, 0.15 + 0.1 * irr(seed, 3)),
           (0.05, -0.6 + 0.1 * irr(seed, 4)), (0.41, 0.07)]
    viol, n_eval, worst = [], 0, 0.0
    head = f"X:{case['cls']}({case['expr']}) path=code cse={case['cse']}"
    for xv, yv in pts:
        try:
            got = np.asarray(f(np.array([xv]), np.array([yv]), 1), dtype=complex)[0]
        except Exception as exc:  # noqa: BLE001
            viol.append({"msg": f"{head}: generated numpy code failed ({type(exc).__name__}: {exc})"[:300],
                         "tags": ["codegen-exception", "argument-expression"], "detail": {"x": xv, "y": yv}})
            break
        want = np.asarray(explicit(xv, yv), dtype=complex)
        n_eval += 1
        if not (np.all(np.isfinite(want)) and np.all(np.isfinite(got))):
            continue
        dev = float(np.max(np.abs(got - want)))
        worst = max(worst, dev)
        if dev > 1e-12 * max(1.0, float(np.max(np.abs(want)))):
            viol.append({"msg": f"{head}: oracle 'code=explicit' deviation {dev:.3g} at x={xv:.4g}, y={yv:.4g}",
                         "tags": ["oracle:code=explicit", "argument-expression"],
                         "detail": {"x": xv, "y": yv}})
            break
    return {"violations": viol, "evaluations": n_eval,
            "nontrivial": [["argexpr", case["cls"], case["expr"], case["cse"]]],
            "outcomes": {f"argexpr:code=explicit:{bucket(worst)}": 1},
            "sample": {"case": head, "worst_deviation": worst}}


def eval_case(case):  # noqa: C901, PLR0912, PLR0914, PLR0915
    if case.get("kind") == "argexpr":
        return _eval_argexpr(case)
    import numpy as np  # noqa: PLC0415

    from vp.ref import kin  # noqa: PLC0415

    item, path, cse, batch = case["item"], case["path"], case["cse"], case["batch"]
    tier, seed = case.get("tier", "quick"), case.get("seed", 0)
    symbols = item_symbols(item)
    classes = sorted(features(item))
    base_tags = [f"path:{path}", f"cse:{cse}", f"batch:{batch}", f"op:{item['op']}",
                 *[f"class:{c}" for c in classes]]
    known_pred = has_boostmatrix(item) and cse is False and path == "code"
    head = f"{item['id']} path={path} cse={cse} batch={batch}"
    viol: list[dict] = []
    outcomes: dict[str, int] = {}
    nontrivial = []
    counters = {"generated_calls": 0, "lattice_points": 0, "regions": 0}
    n_eval = 0
    sample = None
    reported = set()
    margins: dict[str, float] = {}  # per oracle: largest deviation / tolerance seen

    def codegen_violation(exc, where):
        is_name_error = isinstance(exc.exc, NameError)
        tags = ["codegen-exception", f"exception:{type(exc.exc).__name__}", *base_tags]
        if known_pred and is_name_error and path == "code" and where == "main":
            tags.append(KNOWN_TAG)
        viol.append({
            "msg": f"{head}: generated numpy code failed ({exc})"[:300],
            "tags": tags,
            "detail": {"stage": exc.stage, "where": where},
        })

    Evaluator = CodeEvaluator if path == "code" else ExplicitEvaluator  # noqa: N806
    try:
        main = Evaluator(item, symbols, cse)
        partner = Evaluator(item["same_as"], symbols, cse) if item.get("same_as") else None
    except CodegenFailure as exc:
        codegen_violation(exc, "main")
        return {"violations": viol, "evaluations": 1, "outcome": "codegen-exception",
                "sample": {"case": head, "failure": str(exc)[:200]}}
    cross = None
    if path == "code":
        try:
            cross = ExplicitEvaluator(item, symbols, cse)
        except CodegenFailure as exc:
            codegen_violation(exc, "explicit-cross-check")

    def check(oracle, rkey, dev, scale, cond, data, extra=None):
        """dev, scale, cond: arrays over the points; violation where dev > EPS*cond*scale."""
        nonlocal n_eval
        n_eval += len(dev)
        tol = EPS * cond * scale
        rel = dev / scale
        ok = dev <= tol  # NaN -> False
        ratio = np.where(tol > 0, dev / np.where(tol > 0, tol, 1.0),
                         np.where(dev > 0, np.inf, 0.0))
        worst = int(np.argmax(np.where(np.isnan(dev), np.inf, ratio)))
        key = f"{oracle}:{bucket(float(np.max(np.where(np.isnan(rel), np.inf, rel))))}"
        margins[oracle] = max(margins.get(oracle, 0.0), float(np.max(
            np.where(np.isnan(dev), np.inf, ratio))))
        if not ok.all():
            key = f"{oracle}:VIOLATION"
        if ok.all() and oracle.endswith(("-is-real", "-is-finite")):
            key = None  # sanity oracles only show up when they fail
        if key:
            outcomes[key] = outcomes.get(key, 0) + 1
        if not ok.all() and oracle not in reported:
            reported.add(oracle)
            viol.append({
                "msg": (f"{head} region={rkey}: oracle '{oracle}' deviation"
                        f" {float(dev[worst]):.3g} > tolerance {float(tol[worst]):.3g}"
                        f" at {point_repr(data, worst)} ({int((~ok).sum())}/{len(ok)} points"
                        " of the region)"),
                "tags": [f"oracle:{oracle}", *base_tags],
                "detail": {"region": rkey, "point": point_repr(data, worst),
                           "deviation": float(dev[worst]), "tolerance": float(tol[worst]),
                           **(extra(worst) if extra else {})},
            })

    def to_real(arr, what, rkey, data):
        """Finite, real arrays only; anything else is a violation of every oracle."""
        arr = np.asarray(arr)
        if np.iscomplexobj(arr):
            imag = np.abs(arr.imag).reshape(len(arr), -1).max(axis=1)
            check(f"{what}-is-real", rkey, imag, np.ones(len(arr)), np.zeros(len(arr)), data)
            arr = arr.real
        arr = arr.astype(float)
        finite = np.isfinite(arr).reshape(len(arr), -1).all(axis=1)
        check(f"{what}-is-finite", rkey, (~finite).astype(float), np.ones(len(arr)),
              np.zeros(len(arr)), data)
        return arr

    try:
        all_regions = regions(item, tier, seed)
        pick = (3 * batch + 7 * int(cse) + (0 if path == "code" else 5)) % len(all_regions)
        for r_no, (rkey, data) in enumerate(all_regions):
            first = next(iter(data.values()))
            n_pts = len(first["v"] if "v" in first else first["m"])
            counters["regions"] += 1
            counters["lattice_points"] += n_pts
            ref, big_g, big_c, mag = reference(item, data)
            is_vec = bool(item.get("vec"))
            want_shape = (batch, 4) if is_vec else (batch, 4, 4)
            parts, shapes, n_calls = evaluate_in_batches(main, data, n_pts, batch)
            counters["generated_calls"] += n_calls
            n_eval += 1
            if shapes != {want_shape}:
                outcomes["shape:VIOLATION"] = outcomes.get("shape:VIOLATION", 0) + 1
                if "shape" not in reported:
                    reported.add("shape")
                    viol.append({
                        "msg": f"{head} region={rkey}: result shapes {sorted(shapes)} !="
                               f" {want_shape}",
                        "tags": ["oracle:shape", *base_tags],
                        "detail": {"region": rkey},
                    })
                continue
            got = to_real(np.concatenate(parts)[:n_pts], "result", rkey, data)
            nontrivial.append([item["id"], path, cse, batch, rkey])
            ent = (lambda a: np.abs(a).reshape(len(a), -1).max(axis=1))  # noqa: E731

            def show(arrs):
                return lambda i: {k: np.asarray(v[i]).round(12).tolist()
                                  for k, v in arrs.items()}

            # (a) element by element against the numpy reference
            check("elementwise=reference", rkey, ent(got - ref), big_g * mag, big_c, data,
                  show({"got": got, "reference": ref}))
            # (b) generated code against the explicit matrices
            if cross is not None:
                try:
                    expl = to_real(cross(data, np.arange(n_pts)), "explicit", rkey, data)
                    check("code=explicit", rkey, ent(got - expl), big_g * mag, big_c, data,
                          show({"code": got, "explicit": expl}))
                except CodegenFailure as exc:
                    if "cross" not in reported:
                        reported.add("cross")
                        codegen_violation(exc, "explicit-cross-check")
            # (c) proper orthochronous Lorentz transformation
            if not is_vec:
                n_eta = sum(1 for f in item["factors"] if f[0] == "eta")
                ones = np.ones(n_pts)
                n_fac = ones * max(1, len(item["factors"]))  # defects add up per factor
                check("L^T.eta.L=eta", rkey, kin.lorentz_defect(got), big_g**2, n_fac, data,
                      show({"L": got}))
                check("det=+1" if n_eta % 2 == 0 else "det=-1", rkey,
                      np.abs(np.linalg.det(got) - (-1.0) ** n_eta), big_g**2, n_fac, data,
                      show({"L": got}))
                check("L00>=1", rkey, np.maximum(1.0 - got[:, 0, 0], 0.0), big_g, ones, data,
                      show({"L": got}))
            # (d) named laws
            if item.get("expect") == "rest":
                rest_m = _mom_data(item["vec"][1], data)[0]
                want = np.zeros((n_pts, 4))
                want[:, 0] = rest_m
                check("L(p).p=(m,0,0,0)", rkey, ent(got - want), rest_m, big_c, data,
                      show({"got": got, "m": rest_m}))
            if item.get("expect") == "identity":
                check("product=identity", rkey, ent(got - np.eye(4)[None]), big_g,
                      np.ones(n_pts), data, show({"got": got}))
            if partner is not None:
                oparts, oshapes, n_calls = evaluate_in_batches(partner, data, n_pts, batch)
                counters["generated_calls"] += n_calls
                if oshapes != {want_shape}:
                    outcomes["shape:VIOLATION"] = outcomes.get("shape:VIOLATION", 0) + 1
                    if "shape" not in reported:
                        reported.add("shape")
                        viol.append({
                            "msg": f"{head} region={rkey}: shapes {sorted(oshapes)} of"
                                   f" {item['same_as']['id']} != {want_shape}",
                            "tags": ["oracle:shape", *base_tags],
                            "detail": {"region": rkey},
                        })
                    continue
                other = to_real(np.concatenate(oparts)[:n_pts], "partner", rkey, data)
                _, g2, c2, _ = reference(item["same_as"], data)
                cond = np.ones(n_pts) if item.get("tol") == "G" else np.maximum(big_c, c2)
                check(f"law:{item['id'].split(':')[0]}", rkey, ent(got - other),
                      np.maximum(big_g, g2) * mag, cond, data,
                      show({"lhs": got, "rhs": other}))
            if sample is None and r_no >= pick:
                sample = {"case": head, "region": rkey, "point": point_repr(data, n_pts - 1),
                          "result": np.asarray(got[-1]).round(9).tolist(),
                          "reference": np.asarray(ref[-1]).round(9).tolist(),
                          "max_deviation_over_tolerance": {k: float(f"{v:.3g}")
                                                           for k, v in margins.items()}}
    except CodegenFailure as exc:
        codegen_violation(exc, "main")
        return {"violations": viol, "evaluations": max(n_eval, 1),
                "outcome": "codegen-exception", "counters": counters,
                "sample": {"case": head, "failure": str(exc)[:200]}}
    return {
        "violations": viol,
        "evaluations": n_eval,
        "nontrivial": nontrivial,
        "outcomes": outcomes,
        "sample": sample,
        "counters": counters,
        "margins": margins,
    }


def point_repr(data, i):
    out = {}
    for name, d in data.items():
        if d["kind"] == "mom":
            out[name] = {"m": float(d["m"][i]), "bg": float(d["bg"][i]),
                         "n": [round(float(x), 6) for x in d["n"][i]]}
        else:
            out[name] = float(d["v"][i])
    return out


def finalize(ctx):
    ctx.extra["lattice"] = lattice(ctx.tier, ctx.seed).describe()
    ctx.extra["expressions"] = len(_items(ctx.tier))
    ctx.extra["batch_sizes"] = batches(ctx.tier)
