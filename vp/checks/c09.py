"""C09 - K-matrix amplitudes are unitary and symmetric for real parameters.

Bounded-exhaustive enumeration of {NonRelativisticKMatrix, RelativisticKMatrix} x
n_channels x n_poles x L x phase-space variant (real above threshold) x return_t_hat.
Every configuration is formulated by the real library, the masses of a deterministic
parameter lattice are substituted, the result is unfolded with ``doit()``, lambdified in
s (and the couplings) and evaluated on a 12-point s lattice above the highest threshold.

Oracles per lattice point
  U  ||(1+2iT)^dagger (1+2iT) - 1||_max          (for T-hat: T = sqrt(rho)^* T-hat sqrt(rho)
                                                  with the *reference* rho)
  S  ||T - T^T||_max                              (also for T-hat)
  R  ||T - T_ref||_max, T_ref = numpy K(1 - i rho K)^-1 from vp.ref.kmat (independent
     implementation of the documented pole parametrisation)
all below 1e-9 * max(1, cond(1 - i rho K)) * max(1, |T_ref|).
"""

from __future__ import annotations

PROPERTY = "C09"
LEVEL = "exploration"
RULE = (
    "all (class in {NonRelativisticKMatrix, RelativisticKMatrix}) x n_channels 1-2 (3 in"
    " thorough) x n_poles 1-3 (4) x [relativistic only: L 0-2 (4) x phase-space factor in"
    " {PhaseSpaceFactor, ...Abs, ...Complex} x return_t_hat {F,T}; meson radius cycles through"
    " {1, 2.5, 0.7} with (L+n_poles+n_channels) mod 3]; per configuration the mass sets"
    " {generic, two equal pole masses, heavy last channel with all poles above its threshold,"
    " heavy last channel with pole 1 below its threshold} x coupling sets {generic (mixed-sign"
    " residues), one residue exactly 0, seed-shifted, broad overlapping} (3 relativistic"
    " channels: two mass sets and one coupling set per configuration, rotating) x 12 s points above the highest"
    " threshold, each >= 5 % away from every m_R^2; a configuration is non-trivial when the"
    " oracles were evaluated on >= 1 lattice point with finite cond(1 - i rho K) < 1e8;"
    " distinct = distinct (class, n_channels, n_poles, L, phsp, return_t_hat)"
)
ASSUMPTIONS = [
    "numeric lattice only: the property is shown at the listed parameter and s points, not"
    " for all reals (widths are taken positive as the library's symbol assumptions declare;"
    " residue constants of either sign and zero)",
    "pole sums are instantiated with Sum.doit(deep=False) and masses are substituted before"
    " doit() (the documentation's own partial_doit route); sympy.lambdify/numpy are trusted",
    "the reference (vp/ref/kmat.py) implements the formulas of the documentation (Chung 1995,"
    " PDG) with scipy spherical Bessel functions and numpy.linalg",
]
CHUNK = 1

PHSP_VARIANTS = ("PhaseSpaceFactor", "PhaseSpaceFactorAbs", "PhaseSpaceFactorComplex")
RADII = (1.0, 2.5, 0.7)
TAG_BELOW = "pole-below-channel-threshold"
COND_MAX = 1e8


def _bounds(tier):
    if tier == "thorough":
        return (1, 2, 3), (1, 2, 3, 4), (0, 1, 2, 3, 4)
    return (1, 2), (1, 2, 3), (0, 1, 2)


def cases(tier, seed):
    from vp.ref import kmat  # noqa: PLC0415

    ncs, nps, ells = _bounds(tier)
    small, big = [], []
    rot = 0
    for nc in ncs:
        for npole in nps:
            cfg = {"cls": "nonrel", "nc": nc, "np": npole}
            (big if nc == 3 else small).append(cfg)
            for ell in ells:
                for phsp in PHSP_VARIANTS:
                    for flag in (False, True):
                        cfg = {"cls": "rel", "nc": nc, "np": npole, "L": ell, "phsp": phsp,
                               "t_hat": flag, "radius": RADII[(ell + npole + nc) % 3]}
                        if nc == 3:
                            # two mass sets x one coupling set per 3-channel configuration
                            kinds = [k for k in kmat.MASS_SETS
                                     if kmat.mass_set(k, nc, npole, 0) is not None]
                            cfg["mass_sets"] = sorted({kinds[rot % len(kinds)],
                                                       kinds[(rot + 2) % len(kinds)]})
                            cfg["coupling_sets"] = [
                                kmat.COUPLING_SETS[(rot // len(kinds)) % len(kmat.COUPLING_SETS)]
                            ]
                            rot += 1
                            big.append(cfg)
                        else:
                            small.append(cfg)
    out = []
    if big:
        # group the expensive 3-channel configurations (the symbolic 3x3 inverse is built
        # once per worker and flag: functools.cache on _create_matrices)
        groups: dict = {}
        for cfg in big:
            groups.setdefault((cfg["cls"], cfg.get("t_hat", False)), []).append(cfg)
        for (_cls, _flag), cfgs in sorted(groups.items(), key=lambda kv: str(kv[0])):
            n_groups = max(1, round(len(cfgs) / 8))
            for g in range(n_groups):
                out.append({"configs": cfgs[g::n_groups], "seed": seed, "tier": tier})
    # expensive small ones first for a well-used pool
    small.sort(key=lambda c: -(c["nc"] * 10 + c["np"] + c.get("L", 0)))
    out.extend({"configs": [cfg], "seed": seed, "tier": tier} for cfg in small)
    return out


def _bucket(dev, tol):
    if dev != dev:
        return "nan"
    if dev >= tol:
        return "dev>=tol"
    if dev < 1e-13:
        return "dev<1e-13"
    if dev < 1e-10:
        return "dev<1e-10"
    return "dev<tol"


def _formulate(cfg):
    from ampform.dynamics import kmatrix, phasespace  # noqa: PLC0415

    if cfg["cls"] == "nonrel":
        return kmatrix.NonRelativisticKMatrix.formulate(
            n_channels=cfg["nc"], n_poles=cfg["np"]
        )
    return kmatrix.RelativisticKMatrix.formulate(
        n_channels=cfg["nc"],
        n_poles=cfg["np"],
        return_t_hat=cfg["t_hat"],
        phsp_factor=getattr(phasespace, cfg["phsp"]),
        angular_momentum=cfg["L"],
        meson_radius=cfg["radius"],
    )


def _eval_config(cfg, seed, res):
    import numpy as np  # noqa: PLC0415

    from vp.ref import kmat  # noqa: PLC0415

    nc, npole = cfg["nc"], cfg["np"]
    rel = cfg["cls"] == "rel"
    key = [cfg["cls"], nc, npole, cfg.get("L"), cfg.get("phsp"), cfg.get("t_hat")]
    matrix = _formulate(cfg)
    symbolic = nc <= 2 or not rel
    mass_kinds = cfg.get("mass_sets") or (
        kmat.MASS_SETS if rel else ("generic", "degenerate")
    )
    coupling_kinds = cfg.get("coupling_sets") or kmat.COUPLING_SETS
    rho_fn = kmat.PHSP[cfg["phsp"]] if rel else None
    evaluated = 0
    for mk in mass_kinds:
        masses = kmat.mass_set(mk, nc, npole, seed)
        if masses is None:
            continue
        pars = [{**masses, **kmat.coupling_set(ck, nc, npole, seed)} for ck in coupling_kinds]
        fn = None
        for par in pars:
            if fn is None or not symbolic:
                # (3 relativistic channels: everything numeric, one unfolding per point)
                try:
                    fn = kmat.NumericS(matrix, par, symbolic_couplings=symbolic)
                except kmat.LeftoverSymbols as exc:
                    res["violations"].append({
                        "msg": f"{key}: {exc}", "tags": ["leftover-symbols"],
                        "detail": {"config": cfg},
                    })
                    break
            below = rel and kmat.pole_below_threshold(par)
            lattice = kmat.s_lattice(par, seed, threshold=None if rel else 0.3)
            worst = {"U": (0.0, None, 0.0), "S": (0.0, None, 0.0), "R": (0.0, None, 0.0)}
            for s in lattice:
                if rel:
                    K = kmat.k_rel(s, par, cfg["L"], cfg["radius"], rho_fn)
                    rho = kmat.rho_matrix(s, par, rho_fn)
                    cond = kmat.cond_rel(K, rho)
                    t_ref = kmat.t_hat_rel(K, rho) if cfg["t_hat"] else kmat.t_rel(K, rho)
                else:
                    K = kmat.k_nonrel(s, par)
                    rho = None
                    cond = kmat.cond_nonrel(K)
                    t_ref = kmat.t_nonrel(K)
                if not np.isfinite(cond) or cond > COND_MAX:
                    res["outcomes"]["skipped:ill-conditioned"] = (
                        res["outcomes"].get("skipped:ill-conditioned", 0) + 1
                    )
                    continue
                t_lib = fn(s, par)
                t_phys = t_lib
                if rel and cfg["t_hat"]:
                    sq = np.sqrt(rho.astype(complex))
                    t_phys = sq.conj() @ t_lib @ sq
                tol = 1e-9 * max(1.0, cond) * max(1.0, float(np.abs(t_ref).max()))
                devs = {
                    "U": kmat.unitarity_defect(t_phys),
                    "S": kmat.symmetry_defect(t_lib),
                    "R": float(np.abs(t_lib - t_ref).max()),
                }
                if np.any(np.isnan(t_lib)):
                    devs = dict.fromkeys(devs, float("nan"))
                for name, dev in devs.items():
                    b = f"{name}:{_bucket(dev, tol)}"
                    res["outcomes"][b] = res["outcomes"].get(b, 0) + 1
                    res["evaluations"] += 1
                    bad = dev != dev or dev >= tol
                    if bad and (worst[name][1] is None or dev != dev or dev > worst[name][0]):
                        worst[name] = (dev, s, tol)
                evaluated += 1
                if res["sample"] is None:
                    res["sample"] = {
                        "config": cfg, "mass_set": mk, "coupling_set": par["coupling_set"],
                        "s": s, "cond": cond, "T_lib[0,0]": str(complex(t_lib[0, 0])),
                        "unitarity_defect": devs["U"], "symmetry_defect": devs["S"],
                        "deviation_from_reference": devs["R"], "tolerance": tol,
                    }
            names = {"U": "unitarity (1+2iT)^+(1+2iT)=1", "S": "symmetry T=T^T",
                     "R": "T = reference K(1-i rho K)^-1"}
            for name, (dev, s, tol) in worst.items():
                if s is None:
                    continue
                tags = [f"oracle:{name}", f"mass-set:{mk}"]
                if name == "U" and below:
                    tags.append(TAG_BELOW)
                res["violations"].append({
                    "msg": (f"{names[name]} violated by {dev:.3g} (tol {tol:.1g}) at s={s:.6g}"
                            f" for {key} radius={cfg.get('radius')} mass_set={mk}"
                            f" couplings={par['coupling_set']}"),
                    "tags": tags,
                    "detail": {"config": cfg, "par": par, "s": s, "deviation": dev},
                })
    if evaluated:
        res["nontrivial"].append(key)


def eval_case(case):
    res = {"violations": [], "evaluations": 0, "nontrivial": [], "outcomes": {},
           "sample": None, "counters": {"configurations": 0}}
    for cfg in case["configs"]:
        _eval_config(cfg, case.get("seed", 0), res)
        res["counters"]["configurations"] += 1
    if res["sample"] is None:
        del res["sample"]
    return res
