"""C10 - production vectors solve the K-matrix equation and honour their arguments.

Four families of cases, all executed on the real library:

numeric     (i)   residual of (1 - iK) F = P (non-relativistic) and of
                  (1 - i K^ rho) F^ = P^, F = sqrt(rho) F^, K^ = sqrt(rho)^-1 K sqrt(rho)^-1
                  (relativistic) with K, P, rho taken from the library's own
                  ``parametrization`` static methods / the phase-space factor passed by
                  the caller, evaluated at the same numeric point; numpy does the algebra.
provenance  (ii)  before ``doit()``: the phase-space classes occurring anywhere in the result
                  (as nodes and as ``phsp_factor`` attribute of every EnergyDependentWidth)
                  are exactly those of the factor passed; every FormFactor /
                  EnergyDependentWidth node carries the passed L and meson radius.
reduction   (iii) the one-channel-one-pole reductions claimed by
                  docs/usage/dynamics/k-matrix.ipynb, numerically.
history     (iv)  explicit-state exploration of call histories over the functools.cache'd
                  ``_create_matrices``: a call returns the same matrix whatever was called
                  before, and mutating a returned matrix never changes a later result.
"""

from __future__ import annotations

PROPERTY = "C10"
LEVEL = "exploration"
RULE = (
    "(i) {NonRelativisticPVector, RelativisticPVector} x n_channels 1-2 (non-relativistic: 3 in"
    " thorough) x n_poles 1-3 x [relativistic: every PhaseSpaceFactorProtocol implementation of"
    " ampform.dynamics.phasespace found by introspection (7) x L 0-2 (4) x return_f_hat {F,T};"
    " meson radius cycles through {1, 2, Symbol d}] x mass sets {generic; for F and the three"
    " factors that coincide above threshold also: first pole below the heavy last channel} x 4"
    " coupling sets x 12 s points above the highest threshold, >= 5 %"
    " from every m_R^2; (ii) {RelativisticKMatrix, RelativisticPVector} x n_channels 1-2 x n_poles"
    " 1-3 x 7 phase-space factors x L 0-2 (4) x radius {1, 2, Symbol} x flag {F,T} (thorough:"
    " also RelativisticKMatrix with 3 channels, n_poles 2); (iii) 4 documented reductions x L 0-2 (4)"
    " x radius {1, 2, d} x 4 parameter points x 12 s points; (iv) all ordered pairs (a, b), a != b,"
    " of formulate() calls from a per-class alphabet (quick: 1 channel x flag {F,T} x phsp in"
    " {PhaseSpaceFactor, PhaseSpaceFactorSWave} x parametrize {T,F} plus the 2-channel calls with"
    " flag {F,T}; thorough: n_channels 1-2 x n_poles 1-2 x flag x phsp x parametrize) plus a"
    " cross-class alphabet (4 classes x parametrize {T,F}),"
    " each from a cleared cache, without and with mutation of a's result (then also b = a),"
    " compared with b called first in a fresh state. Non-trivial: (i) residual evaluated on >= 1"
    " lattice point, (ii) >= 1 EnergyDependentWidth/FormFactor node inspected, (iv) a != b or a"
    " mutation really happened (result was mutable); distinct = distinct (family, class,"
    " n_channels, n_poles, L, phsp, flag[, radius | op pair])"
)
ASSUMPTIONS = [
    "numeric lattice only for (i) and (iii); above the highest threshold (where the statement's"
    " rho is unambiguous); for phase-space factors that are complex there (Chew-Mandelstam based,"
    " EqualMass) both K^ = sqrt(rho)^*-1 K sqrt(rho)^-1 (library) and sqrt(rho)^-1 K sqrt(rho)^-1"
    " (documentation) are accepted",
    "pole sums are instantiated with Sum.doit(deep=False) and masses substituted before doit();"
    " sympy.lambdify/numpy are trusted",
    "history exploration is bounded to two calls (+ one mutation) and n_channels <= 2; structural"
    " equality (==) of the returned matrices is the comparison",
    "RelativisticPVector with 3 channels is not explored: _create_matrices(3) did not terminate"
    " within 60 CPU-minutes on the pinned tree",
]
CHUNK = 1

TAG_PHSP = "pvector-phsp-not-forwarded"
TAG_ALIAS = "kmatrix-cache-aliasing"
DEFAULT_PHSP = "PhaseSpaceFactor"
RADII = (1, 2, "d")
REF_RHO = {"PhaseSpaceFactor": "rho_standard", "PhaseSpaceFactorAbs": "rho_abs",
           "PhaseSpaceFactorComplex": "rho_complex", "PhaseSpaceFactorSWave": "rho_swave",
           "EqualMassPhaseSpaceFactor": "rho_equal_mass"}
REAL_ABOVE_THRESHOLD = ("PhaseSpaceFactor", "PhaseSpaceFactorAbs", "PhaseSpaceFactorComplex")
COND_MAX = 1e8
CAP_3CH = ("RelativisticPVector with n_channels=3 not explored: _create_matrices(3) did not"
           " terminate within 60 CPU-minutes")


# ------------------------------------------------------------------ introspection
def phsp_implementations() -> dict:
    """Every public callable of ampform.dynamics.phasespace with signature (s, m1, m2, ...)."""
    import inspect  # noqa: PLC0415

    from ampform.dynamics import phasespace  # noqa: PLC0415

    found = {}
    for name, obj in inspect.getmembers(phasespace):
        if name.startswith("_") or getattr(obj, "__module__", None) != phasespace.__name__:
            continue
        if obj is phasespace.PhaseSpaceFactorProtocol or not callable(obj):
            continue
        try:
            params = list(inspect.signature(obj).parameters)
        except (TypeError, ValueError):
            continue
        if params[:3] == ["s", "m1", "m2"]:
            found[name] = obj
    return dict(sorted(found.items()))


def _symbols():
    import sympy as sp  # noqa: PLC0415

    return {
        "s": sp.Symbol("s", nonnegative=True),
        "m": sp.IndexedBase("m", nonnegative=True),
        "Gamma": sp.IndexedBase("Gamma", nonnegative=True),
        "gamma": sp.IndexedBase("gamma", nonnegative=True),
        "m_a": sp.IndexedBase("m_a", nonnegative=True),
        "m_b": sp.IndexedBase("m_b", nonnegative=True),
        "beta": sp.IndexedBase("beta", nonnegative=True),
        "R": sp.Symbol("R", integer=True, positive=True),
        "d": sp.Symbol("d", positive=True),
    }


def _radius(r):
    return _symbols()["d"] if r == "d" else r


def _radius_value(r, seed):
    from vp.util import irr  # noqa: PLC0415

    return 1.3 + 0.9 * irr(seed, 7) if r == "d" else float(r)


def _bounds(tier):
    if tier == "thorough":
        return (1, 2), (1, 2, 3), (0, 1, 2, 3, 4)
    return (1, 2), (1, 2, 3), (0, 1, 2)


# ------------------------------------------------------------------------- cases
def cases(tier, seed):
    phsp_names = list(phsp_implementations())
    ncs, nps, ells = _bounds(tier)
    out = []

    # (iv) histories first: the slowest cases (cache is rebuilt for every history)
    for cls in ("RelativisticPVector", "RelativisticKMatrix",
                "NonRelativisticPVector", "NonRelativisticKMatrix"):
        alphabet = _alphabet(cls, tier)
        for n in range(len(alphabet)):
            out.append({"family": "history", "alphabet": cls, "first": n, "tier": tier})
    cross = _alphabet("cross", tier)
    for n in range(len(cross)):
        out.append({"family": "history", "alphabet": "cross", "first": n, "tier": tier})
    out.sort(key=lambda c: -_op_cost(_alphabet(c["alphabet"], tier)[c["first"]]))

    # (i) numeric residuals
    numeric = []
    for nc in (*ncs, 3) if tier == "thorough" else ncs:
        for npole in nps:
            numeric.append({"family": "numeric", "cls": "NonRelativisticPVector", "nc": nc,
                            "np": npole, "seed": seed})
            if nc == 3:
                # RelativisticPVector._create_matrices(3) does not terminate (> 60 CPU-min)
                numeric[-1]["cap"] = CAP_3CH
                continue
            for p, phsp in enumerate(phsp_names):
                for ell in ells:
                    numeric.append({
                        "family": "numeric", "cls": "RelativisticPVector", "nc": nc,
                        "np": npole, "phsp": phsp, "L": ell, "f_hats": [False, True],
                        "radius": RADII[(ell + p + npole) % 3], "seed": seed,
                    })
    numeric.sort(key=lambda c: -(c["nc"] * 10 + c["np"] + c.get("L", 0)))
    out.extend(numeric)

    # (ii) provenance
    for cls in ("RelativisticKMatrix", "RelativisticPVector"):
        for nc in ncs:
            for npole in nps:
                for flag in (False, True):
                    out.append({"family": "provenance", "cls": cls, "nc": nc, "np": npole,
                                "flag": flag, "Ls": list(ells), "phsp": phsp_names})
    if tier == "thorough":
        for flag in (False, True):
            for ell in ells:
                out.insert(0, {"family": "provenance", "cls": "RelativisticKMatrix", "nc": 3,
                               "np": 2, "flag": flag, "Ls": [ell], "phsp": phsp_names})

    # (iii) documented reductions
    for which in ("nonrel-K", "nonrel-P", "rel-K", "rel-P"):
        if which.startswith("nonrel"):
            out.append({"family": "reduction", "which": which, "seed": seed})
            continue
        for ell in ells:
            out.append({"family": "reduction", "which": which, "L": ell, "seed": seed,
                        "phsp": phsp_names})
    return out


# ================================================================ (i) numeric residual
def _formulate_pvector(cfg):
    from ampform.dynamics import kmatrix  # noqa: PLC0415

    if cfg["cls"] == "NonRelativisticPVector":
        return kmatrix.NonRelativisticPVector.formulate(n_channels=cfg["nc"], n_poles=cfg["np"])
    return kmatrix.RelativisticPVector.formulate(
        n_channels=cfg["nc"],
        n_poles=cfg["np"],
        return_f_hat=cfg["f_hat"],
        phsp_factor=phsp_implementations()[cfg["phsp"]],
        angular_momentum=cfg["L"],
        meson_radius=_radius(cfg["radius"]),
    )


def _lib_k_p_rho(cfg, phsp_name=None):
    """K, P (and rho) matrices from the library's own parametrisation static methods."""
    import sympy as sp  # noqa: PLC0415

    from ampform.dynamics import kmatrix  # noqa: PLC0415

    y = _symbols()
    nc, npole = cfg["nc"], cfg["np"]
    if cfg["cls"] == "NonRelativisticPVector":
        k = sp.Matrix(nc, nc, lambda i, j: kmatrix.NonRelativisticKMatrix.parametrization(
            i=i, j=j, s=y["s"], pole_position=y["m"], pole_width=y["Gamma"],
            residue_constant=y["gamma"], n_poles=npole, pole_id=y["R"]))
        p = sp.Matrix(nc, 1, lambda i, _: kmatrix.NonRelativisticPVector.parametrization(
            i=i, s=y["s"], pole_position=y["m"], pole_width=y["Gamma"],
            residue_constant=y["gamma"], beta_constant=y["beta"], n_poles=npole,
            pole_id=y["R"]))
        return k, p, None
    phsp = phsp_implementations()[phsp_name or cfg["phsp"]]
    radius = _radius(cfg["radius"])
    k = sp.Matrix(nc, nc, lambda i, j: kmatrix.RelativisticKMatrix.parametrization(
        i=i, j=j, s=y["s"], pole_position=y["m"], pole_width=y["Gamma"], m_a=y["m_a"],
        m_b=y["m_b"], residue_constant=y["gamma"], n_poles=npole, pole_id=y["R"],
        angular_momentum=cfg["L"], meson_radius=radius, phsp_factor=phsp))
    p = sp.Matrix(nc, 1, lambda i, _: kmatrix.RelativisticPVector.parametrization(
        i=i, s=y["s"], pole_position=y["m"], pole_width=y["Gamma"], m_a=y["m_a"], m_b=y["m_b"],
        beta_constant=y["beta"], residue_constant=y["gamma"], n_poles=npole, pole_id=y["R"],
        angular_momentum=cfg["L"], meson_radius=radius))
    rho = sp.Matrix(nc, 1, lambda i, _: phsp_implementations()[cfg["phsp"]](
        y["s"], y["m_a"][i], y["m_b"][i]))
    return k, p, rho


def _residual(cfg, f_lib, k, p, rho):
    """Relative residual of the F-vector equation and cond; min over accepted conventions."""
    import numpy as np  # noqa: PLC0415

    nc = cfg["nc"]
    f_lib = f_lib.reshape(nc)
    p = p.reshape(nc)
    eye = np.eye(nc)
    if rho is None:
        a = eye - 1j * k
        r = a @ f_lib - p
        scale = float(np.abs(p).max() + np.abs(k).max() * np.abs(f_lib).max())
        return float(np.abs(r).max()) / max(scale, 1e-300), float(np.linalg.cond(a))
    rho = rho.reshape(nc).astype(complex)
    sq = np.sqrt(rho)
    best, cond = float("inf"), float("inf")
    for left in (sq.conj(), sq):  # library's convention, documentation's convention
        k_hat = k / np.outer(left, sq)
        a = eye - 1j * k_hat * rho[None, :]
        f_hat = f_lib if cfg["f_hat"] else f_lib / sq
        r = a @ f_hat - p
        scale = float(np.abs(p).max() + np.abs(a - eye).max() * np.abs(f_hat).max())
        rel = float(np.abs(r).max()) / max(scale, 1e-300)
        if rel != rel:
            return rel, float("nan")
        if rel < best:
            best, cond = rel, float(np.linalg.cond(a))
        if np.all(np.abs(rho.imag) <= 1e-14 * np.abs(rho)) and np.all(rho.real > 0):
            break  # real positive rho: the two conventions coincide
    return best, cond


def _bucket(dev, tol):
    if dev != dev:
        return "nan"
    if dev >= tol:
        return "dev>=tol"
    if dev < 1e-13:
        return "dev<1e-13"
    if dev < 1e-10:
        return "dev<1e-10"
    return "dev<tol"


def _eval_numeric(case):
    import numpy as np  # noqa: PLC0415

    from vp.ref import kmat  # noqa: PLC0415

    seed = case.get("seed", 0)
    nc, npole = case["nc"], case["np"]
    rel = case["cls"] == "RelativisticPVector"
    res = {"violations": [], "evaluations": 0, "nontrivial": [], "outcomes": {}}
    if case.get("cap"):
        res["caps"] = [case["cap"]]
    extra = {}
    if rel and case["radius"] == "d":
        import sympy as sp  # noqa: PLC0415

        extra = {_symbols()["d"]: sp.Float(_radius_value("d", seed))}
    flags = case["f_hats"] if rel else [None]
    subs = {flag: {**case, "f_hat": flag} for flag in flags}
    f_exprs = {flag: _formulate_pvector(sub) for flag, sub in subs.items()}
    k_expr, p_expr, rho_expr = _lib_k_p_rho(case)
    known_input = rel and case["phsp"] != DEFAULT_PHSP
    if not rel:
        mass_kinds = ("generic", "degenerate")
    elif case["phsp"] in REAL_ABOVE_THRESHOLD:
        # a pole below the heavy channel's threshold makes rho(m_R^2) differ between the
        # variants that coincide above threshold
        mass_kinds = ("generic", "heavy-below")
    else:
        mass_kinds = ("generic",)
    evaluated = set()
    for mk in mass_kinds:
        masses = kmat.mass_set(mk, nc, npole, seed)
        if masses is None:
            continue
        pars = [{**masses, **kmat.coupling_set(ck, nc, npole, seed)}
                for ck in kmat.COUPLING_SETS]
        k_fn = kmat.NumericS(k_expr, pars[0], extra)
        p_fn = kmat.NumericS(p_expr, pars[0], extra)
        rho_fn = kmat.NumericS(rho_expr, pars[0], extra) if rel else None
        k_default_fn = None
        for flag, cfg in subs.items():
            if flag and mk != "generic":
                continue  # F^ and F differ by sqrt(rho) only: one mass set for F^
            key = ["numeric", cfg["cls"], nc, npole, cfg.get("L"), cfg.get("phsp"), flag]
            try:
                f_fn = kmat.NumericS(f_exprs[flag], pars[0], extra)
            except kmat.LeftoverSymbols as exc:
                res["violations"].append({"msg": f"{key}: {exc}", "tags": ["leftover-symbols"],
                                          "detail": {"config": cfg}})
                continue
            for par in pars:
                worst = None
                explained = True
                for s in kmat.s_lattice(par, seed, threshold=None if rel else 0.3):
                    f_lib = f_fn(s, par)
                    k, p = k_fn(s, par), p_fn(s, par)
                    rho = rho_fn(s, par) if rel else None
                    dev, cond = _residual(cfg, f_lib, k, p, rho)
                    # value-level provenance: the K "given by the library's own
                    # parametrisation" must be the K of the caller's phase-space factor and
                    # of nothing else (independent numpy reference)
                    ref_rho = REF_RHO.get(cfg.get("phsp")) if rel else None
                    if ref_rho is not None and flag == flags[0]:
                        k_ref = kmat.k_rel(s, par, cfg["L"], _radius_value(cfg["radius"], seed),
                                           rho=getattr(kmat, ref_rho))
                        scale_k = max(float(np.abs(k_ref).max()), 1e-300)
                        dk = float(np.abs(k - k_ref).max()) / scale_k
                        res["evaluations"] += 1
                        bk = f"K=reference:{_bucket(dk, 1e-8)}"
                        res["outcomes"][bk] = res["outcomes"].get(bk, 0) + 1
                        if (dk != dk or dk >= 1e-8) and not any(
                                v["tags"][0] == "oracle:k-reference" and v["detail"]["config"] == cfg
                                for v in res["violations"]):
                            res["violations"].append({
                                "msg": (f"K from the library's parametrisation with phsp_factor={cfg['phsp']}"
                                        f" differs from the reference K built from that factor alone by {dk:.3g}"
                                        f" at s={s:.6g} for {key} mass_set={mk}"),
                                "tags": ["oracle:k-reference", f"mass-set:{mk}"],
                                "detail": {"config": cfg, "par": par, "s": s}})
                    if cond == cond and cond > COND_MAX:
                        res["outcomes"]["skipped:ill-conditioned"] = (
                            res["outcomes"].get("skipped:ill-conditioned", 0) + 1)
                        continue
                    tol = 1e-9 * max(1.0, cond if cond == cond else 1.0)
                    res["evaluations"] += 1
                    evaluated.add(flag)
                    b = f"residual:{_bucket(dev, tol)}"
                    res["outcomes"][b] = res["outcomes"].get(b, 0) + 1
                    if "sample" not in res:
                        res["sample"] = {"config": cfg, "mass_set": mk, "s": s, "cond": cond,
                                         "coupling_set": par["coupling_set"],
                                         "F_lib": [str(complex(v)) for v in np.ravel(f_lib)],
                                         "relative_residual": dev, "tolerance": tol}
                    if dev != dev or dev >= tol:
                        if known_input:
                            # is the failure the known one (K's widths built with the default
                            # phase-space factor)?  Then the residual vanishes for that K.
                            if k_default_fn is None:
                                kd_expr, _, _ = _lib_k_p_rho(case, DEFAULT_PHSP)
                                k_default_fn = kmat.NumericS(kd_expr, pars[0], extra)
                            dev2, _ = _residual(cfg, f_lib, k_default_fn(s, par), p, rho)
                            explained = explained and dev2 == dev2 and dev2 < tol
                        if worst is None or dev != dev or dev > worst[0]:
                            worst = (dev, s, tol)
                if worst is not None:
                    dev, s, tol = worst
                    tags = ["oracle:residual", f"mass-set:{mk}"]
                    if known_input and explained:
                        tags.append(TAG_PHSP)
                    eq = "(1 - i K^ rho) F^ = P^" if rel else "(1 - iK) F = P"
                    res["violations"].append({
                        "msg": (f"{eq} violated: relative residual {dev:.3g} (tol {tol:.1g}) at"
                                f" s={s:.6g} for {key} radius={cfg.get('radius')} mass_set={mk}"
                                f" couplings={par['coupling_set']}"
                                + (" [vanishes when K is built with the default"
                                   " PhaseSpaceFactor]" if known_input and explained else "")),
                        "tags": tags,
                        "detail": {"config": cfg, "par": par, "s": s, "residual": dev},
                    })
    for flag in sorted(evaluated, key=str):
        res["nontrivial"].append(
            ["numeric", case["cls"], nc, npole, case.get("L"), case.get("phsp"), flag])
    return res


# ================================================================== (ii) provenance
def _walk(expr):
    """Pre-order walk over the distinct sub-expressions (DAG walk of preorder_traversal)."""
    seen = set()
    stack = [expr]
    while stack:
        node = stack.pop()
        if node in seen:
            continue
        seen.add(node)
        yield node
        stack.extend(node.args)


def _eval_provenance(case):
    import sympy as sp  # noqa: PLC0415

    from ampform.dynamics import EnergyDependentWidth, FormFactor, kmatrix  # noqa: PLC0415

    impls = phsp_implementations()
    classes = {n: c for n, c in impls.items() if isinstance(c, type)}
    y = _symbols()
    cls = getattr(kmatrix, case["cls"])
    flag_name = "return_t_hat" if case["cls"] == "RelativisticKMatrix" else "return_f_hat"
    nc, npole = case["nc"], case["np"]
    res = {"violations": [], "evaluations": 0, "nontrivial": [], "outcomes": {},
           "counters": {"provenance_nodes_inspected": 0}}

    def class_atoms(expr):
        return {n for node in _walk(expr) for n, c in classes.items() if type(node) is c}

    for phsp_name in case["phsp"]:
        phsp = impls[phsp_name]
        expected_atoms = set()
        for i in range(nc):
            expected_atoms |= class_atoms(phsp(y["s"], y["m_a"][i], y["m_b"][i]))
        for ell in case["Ls"]:
            for radius in RADII:
                rad = sp.sympify(_radius(radius))
                matrix = cls.formulate(
                    n_channels=nc, n_poles=npole, phsp_factor=phsp, angular_momentum=ell,
                    meson_radius=_radius(radius), **{flag_name: case["flag"]})
                atoms, width_phsp, bad_args = set(), set(), []
                n_width = n_ff = 0
                for element in matrix:
                    for node in _walk(element):
                        for n, c in classes.items():
                            if type(node) is c:
                                atoms.add(n)
                        if isinstance(node, EnergyDependentWidth):
                            n_width += 1
                            used = node.phsp_factor
                            width_phsp.add(next(
                                (n for n, c in impls.items() if c is used),
                                getattr(used, "__name__", repr(used))))
                            if node.angular_momentum != ell or node.meson_radius != rad:
                                bad_args.append(("EnergyDependentWidth",
                                                 str(node.angular_momentum),
                                                 str(node.meson_radius)))
                        elif isinstance(node, FormFactor):
                            n_ff += 1
                            if node.angular_momentum != ell or node.meson_radius != rad:
                                bad_args.append(("FormFactor", str(node.angular_momentum),
                                                 str(node.meson_radius)))
                res["evaluations"] += 1
                res["counters"]["provenance_nodes_inspected"] += n_width + n_ff
                key = ["provenance", case["cls"], nc, npole, ell, phsp_name, case["flag"],
                       str(radius)]
                label = (f"{case['cls']}.formulate(n_channels={nc}, n_poles={npole},"
                         f" {flag_name}={case['flag']}, phsp_factor={phsp_name},"
                         f" angular_momentum={ell}, meson_radius={radius})")
                ok = True
                if n_width == 0 or (case["cls"] == "RelativisticPVector" and n_ff == 0):
                    ok = False
                    res["violations"].append({
                        "msg": f"{label}: no EnergyDependentWidth/FormFactor node in the result"
                               " (the arguments cannot occur anywhere)",
                        "tags": ["oracle:provenance-vacuous"], "detail": {"case": key}})
                else:
                    res["nontrivial"].append(key)
                if atoms != expected_atoms or width_phsp != {phsp_name}:
                    ok = False
                    tags = ["oracle:provenance-phsp"]
                    if (case["cls"] == "RelativisticPVector" and phsp_name != DEFAULT_PHSP
                            and atoms == expected_atoms and width_phsp == {DEFAULT_PHSP}):
                        tags.append(TAG_PHSP)
                    res["violations"].append({
                        "msg": (f"{label}: phase-space factors in the result are nodes"
                                f" {sorted(atoms)} (expected {sorted(expected_atoms)}) and"
                                f" EnergyDependentWidth.phsp_factor {sorted(width_phsp)}"
                                f" (expected ['{phsp_name}'])"),
                        "tags": tags, "detail": {"case": key}})
                if bad_args:
                    ok = False
                    res["violations"].append({
                        "msg": (f"{label}: {len(bad_args)} node(s) carry another angular"
                                f" momentum / meson radius, e.g. {bad_args[0]}"),
                        "tags": ["oracle:provenance-L-radius"], "detail": {"case": key}})
                b = "provenance:ok" if ok else "provenance:foreign"
                res["outcomes"][b] = res["outcomes"].get(b, 0) + 1
                if "sample" not in res:
                    res["sample"] = {"call": label, "phsp_nodes": sorted(atoms),
                                     "width_phsp_factor": sorted(width_phsp),
                                     "EnergyDependentWidth_nodes": n_width,
                                     "FormFactor_nodes": n_ff}
    return res


# =================================================================== (iii) reductions
def _scalar_fn(expr):
    """s -> complex for a library expression whose only symbol is s."""
    import numpy as np  # noqa: PLC0415
    import sympy as sp  # noqa: PLC0415

    s = _symbols()["s"]
    unfolded = expr.doit()
    if unfolded.free_symbols - {s}:
        msg = f"unexpected symbols {unfolded.free_symbols}"
        raise ValueError(msg)
    fn = sp.lambdify([s], unfolded, "numpy")

    def call(value):
        with np.errstate(all="ignore"):
            return complex(fn(complex(value)))

    return call


def _eval_reduction(case):
    import numpy as np  # noqa: PLC0415
    import sympy as sp  # noqa: PLC0415

    from ampform.dynamics import (  # noqa: PLC0415
        EnergyDependentWidth,
        kmatrix,
        relativistic_breit_wigner,
        relativistic_breit_wigner_with_ff,
    )
    from vp.ref import kmat  # noqa: PLC0415
    from vp.util import irr  # noqa: PLC0415

    seed = case.get("seed", 0)
    which = case["which"]
    y = _symbols()
    s = y["s"]
    res = {"violations": [], "evaluations": 0, "nontrivial": [], "outcomes": {}}
    impls = phsp_implementations()
    # (m, Gamma, m_a, m_b, beta, gamma): gamma = 1 is the documented statement; for
    # gamma != 1 ("but for a residue constant") the width is rescaled by gamma^2
    points = [
        (1.2, 0.3, 0.3, 0.4, 1.0, 1.0),
        (1.6 + 0.1 * irr(seed, 1), 0.12, 0.14, 0.14, 0.7, 1.0),
        (1.35, 0.25 + 0.2 * irr(seed, 2), 0.5, 0.45, -0.6, 0.8),
        (2.1, 0.6, 0.3, 0.6, 1.4, -1.3 - 0.3 * irr(seed, 3)),
    ]

    def check(label, key, got_fn, want_fn, par, tags_if_bad=(), alt_fn=None):
        worst = None
        explained = alt_fn is not None
        for sv in kmat.s_lattice(par, seed):
            got, want = got_fn(sv), want_fn(sv)
            tol = 1e-10 * max(1.0, abs(want), abs(got))
            dev = abs(got - want)
            res["evaluations"] += 1
            b = f"reduction:{_bucket(dev, tol)}"
            res["outcomes"][b] = res["outcomes"].get(b, 0) + 1
            if "sample" not in res:
                res["sample"] = {"reduction": label, "s": sv, "library": str(got),
                                 "documented_form": str(want)}
            if dev != dev or dev >= tol:
                if alt_fn is not None:
                    alt = alt_fn(sv)
                    explained = explained and abs(got - alt) < tol
                if worst is None or dev != dev or dev > worst[0]:
                    worst = (dev, sv, got, want)
        if worst is None:
            res["nontrivial"].append(key)
            return
        dev, sv, got, want = worst
        tags = ["oracle:reduction"]
        if explained:
            tags.extend(tags_if_bad)
        res["violations"].append({
            "msg": f"{label}: library {got:.6g} != documented form {want:.6g} at s={sv:.6g}"
                   + (" [equals the form with the default PhaseSpaceFactor in the width]"
                      if explained and tags_if_bad else ""),
            "tags": tags, "detail": {"key": key, "par": par, "s": sv, "deviation": dev}})

    for n, (m0, g0, ma, mb, beta, gam) in enumerate(points):
        par = {"n_channels": 1, "n_poles": 1, "m": [m0], "Gamma": [[g0]], "gamma": [[gam]],
               "beta": [beta], "m_a": [ma], "m_b": [mb]}
        if which in {"nonrel-K", "nonrel-P"}:
            cls = (kmatrix.NonRelativisticKMatrix if which == "nonrel-K"
                   else kmatrix.NonRelativisticPVector)
            lib = kmat.NumericS(cls.formulate(n_channels=1, n_poles=1), par,
                                symbolic_couplings=False)
            bw = _scalar_fn(relativistic_breit_wigner(
                s, sp.Float(m0), sp.Float(gam) ** 2 * sp.Float(g0)))
            factor = 1.0 if which == "nonrel-K" else beta / gam
            check(f"{cls.__name__}(1 channel, 1 pole) -> "
                  + ("" if which == "nonrel-K" else "beta/gamma * ")
                  + "relativistic_breit_wigner(s, m, gamma^2 Gamma)",
                  ["reduction", which, n, gam == 1.0],
                  lambda sv, lib=lib, par=par: complex(np.ravel(lib(sv, par))[0]),
                  lambda sv, bw=bw, factor=factor: factor * bw(sv), par)
            continue
        ell = case["L"]
        for radius in RADII:
            d_val = _radius_value(radius, seed)
            extra = {y["d"]: sp.Float(d_val)} if radius == "d" else {}
            for phsp_name in case["phsp"]:
                phsp = impls[phsp_name]
                rho = _scalar_fn(phsp(s, sp.Float(ma), sp.Float(mb)))
                if which == "rel-K":
                    # T^ = K/(1 - i rho K) with K = gamma^2 m Gamma(s)/(m^2 - s): a
                    # relativistic_breit_wigner whose width is the EnergyDependentWidth, with
                    # rho inserted in the denominator; T = sqrt(rho)^* T^ sqrt(rho)
                    width = _scalar_fn(EnergyDependentWidth(
                        s, sp.Float(m0), sp.Float(gam) ** 2 * sp.Float(g0), sp.Float(ma),
                        sp.Float(mb), ell, sp.Float(d_val) if radius == "d" else radius, phsp))
                    for flag in (False, True):
                        lib = kmat.NumericS(kmatrix.RelativisticKMatrix.formulate(
                            n_channels=1, n_poles=1, return_t_hat=flag, phsp_factor=phsp,
                            angular_momentum=ell, meson_radius=_radius(radius)),
                            par, extra, symbolic_couplings=False)

                        def want(sv, flag=flag, width=width, rho=rho, m0=m0):
                            t_hat = m0 * width(sv) / (m0**2 - sv - 1j * rho(sv) * m0 * width(sv))
                            if flag:
                                return t_hat
                            sq = np.sqrt(complex(rho(sv)))
                            return np.conj(sq) * t_hat * sq

                        check(f"RelativisticKMatrix(1,1,L={ell},d={radius},{phsp_name},"
                              f"return_t_hat={flag}) -> m Gamma(s)/(m^2-s-i rho m Gamma(s))",
                              ["reduction", which, n, ell, str(radius), phsp_name, flag],
                              lambda sv, lib=lib, par=par: complex(np.ravel(lib(sv, par))[0]),
                              want, par)
                    continue
                # rel-P: "when we neglect sqrt(rho), reduces to relativistic_breit_wigner_with_ff"
                # meaningful where sqrt(rho)/sqrt(rho)^* = 1: real positive rho above threshold
                lattice = kmat.s_lattice(par, seed)
                if any(abs(rho(sv).imag) > 1e-14 * abs(rho(sv)) or rho(sv).real <= 0
                       for sv in lattice):
                    res["outcomes"]["reduction:skipped-complex-rho"] = (
                        res["outcomes"].get("reduction:skipped-complex-rho", 0) + 1)
                    continue
                rad = sp.Float(d_val) if radius == "d" else radius
                bwff = _scalar_fn(relativistic_breit_wigner_with_ff(
                    s, sp.Float(m0), sp.Float(gam) ** 2 * sp.Float(g0), sp.Float(ma),
                    sp.Float(mb), ell, rad, phsp))
                bwff_default = _scalar_fn(relativistic_breit_wigner_with_ff(
                    s, sp.Float(m0), sp.Float(gam) ** 2 * sp.Float(g0), sp.Float(ma),
                    sp.Float(mb), ell, rad, impls[DEFAULT_PHSP]))
                for flag in (False, True):
                    lib = kmat.NumericS(kmatrix.RelativisticPVector.formulate(
                        n_channels=1, n_poles=1, return_f_hat=flag, phsp_factor=phsp,
                        angular_momentum=ell, meson_radius=_radius(radius)),
                        par, extra, symbolic_couplings=False)

                    def form(bw, flag=flag, rho=rho, beta=beta, gam=gam):
                        def fn(sv):
                            f_hat = beta / gam * bw(sv)
                            return f_hat if flag else np.sqrt(complex(rho(sv))) * f_hat
                        return fn

                    known = phsp_name != DEFAULT_PHSP
                    check(f"RelativisticPVector(1,1,L={ell},d={radius},{phsp_name},"
                          f"return_f_hat={flag}) -> "
                          + ("" if flag else "sqrt(rho) ")
                          + "beta/gamma relativistic_breit_wigner_with_ff(gamma^2 Gamma)",
                          ["reduction", which, n, ell, str(radius), phsp_name, flag],
                          lambda sv, lib=lib, par=par: complex(np.ravel(lib(sv, par))[0]),
                          form(bwff), par,
                          tags_if_bad=(TAG_PHSP,) if known else (),
                          alt_fn=form(bwff_default) if known else None)
    return res


# ===================================================================== (iv) histories
_CLASSES = ("NonRelativisticKMatrix", "RelativisticKMatrix", "NonRelativisticPVector",
            "RelativisticPVector")


def _alphabet(name, tier):
    """Operation alphabet (formulate calls) of one history family."""
    ops = []
    if name == "cross":
        for cls in _CLASSES:
            for parametrize in (True, False):
                ops.append({"cls": cls, "nc": 1, "np": 1, "flag": False,
                            "phsp": DEFAULT_PHSP, "parametrize": parametrize})
        return ops
    rel = name.startswith("Relativistic")
    thorough = tier == "thorough"
    if not rel:
        for nc in (1, 2):
            full = nc == 1 or thorough
            for npole in (1, 2) if thorough else (1,):
                for parametrize in (True, False) if full else (True,):
                    ops.append({"cls": name, "nc": nc, "np": npole, "flag": False,
                                "phsp": DEFAULT_PHSP, "parametrize": parametrize})
        return ops
    # quick: the full product for one channel (cheap to rebuild from a cleared cache) and
    # two 2-channel calls (flag F/T); thorough: the full product for 1 and 2 channels
    for nc in (1, 2):
        full = nc == 1 or thorough
        for npole in (1, 2) if thorough else (1,):
            for flag in (False, True):
                for phsp in (DEFAULT_PHSP, "PhaseSpaceFactorSWave") if full else (DEFAULT_PHSP,):
                    for parametrize in (True, False) if full else (True,):
                        ops.append({"cls": name, "nc": nc, "np": npole, "flag": flag,
                                    "phsp": phsp, "parametrize": parametrize})
    return ops


def _op_cost(op):
    return (op["nc"] - 1) * (3 if op["cls"] == "RelativisticPVector" else 1)


def _cache_key(op):
    if op["cls"].startswith("Relativistic"):
        return (op["cls"], op["nc"], op["flag"])
    return (op["cls"], op["nc"])


def _op_str(op):
    extra = ""
    if op["cls"].startswith("Relativistic"):
        flag = "return_t_hat" if op["cls"] == "RelativisticKMatrix" else "return_f_hat"
        extra = f", {flag}={op['flag']}, phsp_factor={op['phsp']}"
    return (f"{op['cls']}.formulate({op['nc']}, {op['np']}, parametrize={op['parametrize']}"
            f"{extra})")


def _call(op):
    from ampform.dynamics import kmatrix  # noqa: PLC0415

    cls = getattr(kmatrix, op["cls"])
    kwargs = {}
    if op["cls"] == "RelativisticKMatrix":
        kwargs = {"return_t_hat": op["flag"], "phsp_factor": phsp_implementations()[op["phsp"]]}
    elif op["cls"] == "RelativisticPVector":
        kwargs = {"return_f_hat": op["flag"], "phsp_factor": phsp_implementations()[op["phsp"]]}
    return cls.formulate(op["nc"], op["np"], parametrize=op["parametrize"], **kwargs)


def _fresh_state():
    from ampform.dynamics import kmatrix  # noqa: PLC0415

    for name in _CLASSES:
        clear = getattr(getattr(kmatrix, name)._create_matrices, "cache_clear", None)
        if clear is not None:
            clear()


_FRESH: dict = {}


def _fresh_result(op):
    """Result of `op` called first in a fresh state (immutable snapshot, per worker)."""
    import sympy as sp  # noqa: PLC0415

    k = _op_str(op)
    if k not in _FRESH:
        _fresh_state()
        _FRESH[k] = sp.ImmutableDenseMatrix(_call(op))
    return _FRESH[k]


def _eval_history(case):
    import sympy as sp  # noqa: PLC0415

    alphabet = _alphabet(case["alphabet"], case.get("tier", "quick"))
    a = alphabet[case["first"]]
    res = {"violations": [], "evaluations": 0, "nontrivial": [], "outcomes": {},
           "states": 0, "transitions": 0, "traces": 0}
    states = {"fresh"}
    a_immutable = False

    def note(kind):
        res["outcomes"][kind] = res["outcomes"].get(kind, 0) + 1

    for b in alphabet:
        for mutate in (False, True):
            if b is a and not mutate:
                continue  # "different arguments"; b = a only after a mutation
            if mutate and a_immutable:
                note("history:result-immutable(no mutation possible)")
                continue
            want = _fresh_result(b)
            _fresh_state()
            result_a = _call(a)
            res["transitions"] += 1
            states.add(("cache", frozenset([_cache_key(a)]), None))
            snapshot_a = sp.ImmutableDenseMatrix(result_a)
            mutated = False
            if mutate:
                try:
                    result_a[0, 0] = sp.Symbol("MUTATED_BY_CALLER")
                    mutated = True
                    res["transitions"] += 1
                    states.add(("cache", frozenset([_cache_key(a)]), _op_str(a)))
                except TypeError:
                    a_immutable = True
                    note("history:result-immutable(no mutation possible)")
                    continue
            result_b = _call(b)
            res["transitions"] += 1
            states.add(("cache", frozenset([_cache_key(a), _cache_key(b)]),
                        _op_str(a) if mutated else None))
            res["evaluations"] += 1
            res["traces"] += 1
            got = sp.ImmutableDenseMatrix(result_b)
            key = ["history", _op_str(a), "mutate" if mutate else "-", _op_str(b)]
            ok = got == want
            if not mutate and ok and sp.ImmutableDenseMatrix(result_a) != snapshot_a:
                ok = False
                res["violations"].append({
                    "msg": f"history [{_op_str(a)}; {_op_str(b)}]: the second call changed the"
                           " matrix returned by the first",
                    "tags": ["oracle:history"], "detail": {"a": a, "b": b}})
            if mutate and got != want:
                # The caller wrote into the object it was handed (the functools.cache'd
                # matrix of formulate(parametrize=False)) and later results changed. C10's
                # statement does not forbid that, so it is counted, not judged.
                note("history+mutation:DIFFERENT(not judged - outside the statement)")
                res["nontrivial"].append(key)
                continue
            if not ok and got != want:
                tags = ["oracle:history"]
                how = f"{_op_str(a)}; " + ("result[0,0] = MUTATED_BY_CALLER; " if mutate else "")
                diff = [(i, j) for i in range(min(got.rows, want.rows))
                        for j in range(min(got.cols, want.cols)) if got[i, j] != want[i, j]]
                first = diff[0] if diff else None
                res["violations"].append({
                    "msg": (f"history [{how}{_op_str(b)}]: result differs from the same call in a"
                            f" fresh state (shape {got.shape} vs {want.shape}, first differing"
                            f" element {first}"
                            + (f": {str(got[first])[:80]} vs {str(want[first])[:80]}"
                               if first else "") + ")"),
                    "tags": tags, "detail": {"a": a, "b": b, "mutate": mutate}})
            note(("history+mutation:" if mutate else "history:") + ("same" if ok else "DIFFERENT"))
            res["nontrivial"].append(key)
            if "sample" not in res:
                res["sample"] = {"history": key, "same_as_fresh": ok,
                                 "element[0,0]": str(got[0, 0])[:120]}
    _fresh_state()
    res["states"] = len(states)
    res["counters"] = {"history_states": res["states"],
                       "history_transitions": res["transitions"],
                       "history_traces_validated_against_impl": res["traces"]}
    return res


# ------------------------------------------------------------------------ dispatch
def eval_case(case):
    family = case["family"]
    if family == "numeric":
        return _eval_numeric(case)
    if family == "provenance":
        return _eval_provenance(case)
    if family == "reduction":
        return _eval_reduction(case)
    if family == "history":
        return _eval_history(case)
    msg = f"unknown case family {family}"
    raise ValueError(msg)
