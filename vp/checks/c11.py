"""C11 - all phase-space-factor variants agree where they must.

Bounded-exhaustive enumeration of (mass configuration x way the masses are bound x
symbol assumptions x cse) ; every configuration is run through the real
``X(s, m1, m2).doit()`` + ``sympy.lambdify(..., "numpy")`` for the five factor classes,
``BreakupMomentumSquared`` and ``chew_mandelstam_s_wave`` and evaluated on a
deterministic lattice of s that contains every region and every boundary the code
distinguishes (s < 0, 0 < s < (m1-m2)^2, pseudo-threshold, between, threshold, above,
asymptotic, threshold (1 +- eps)), once with a real-dtype array (a user's data) and once
with a complex-dtype array.  Oracles are the identities of the statement plus the PDG
closed forms of ``vp.ref.dyn`` (region-wise real arithmetic, validated against mpmath)
plus ``evalf`` of the same expression below threshold.

NaN never agrees with anything: a real-dtype evaluation outside the real domain of a
variant (numpy.sqrt of a negative number) is counted as *skipped*, a NaN inside the
domain is a violation.
"""

from __future__ import annotations

import collections
import math

from vp.ref import dyn
from vp.util import irr

PROPERTY = "C11"
LEVEL = "exploration"
RULE = (
    "all (mass configuration in {equal, ratio 2, ratio 1e3, generic, each swapped; exactly"
    " representable and seed-shifted} x binding in {symbols, numbers, same symbol twice} x"
    " assumptions in {plain, real/positive} x cse in {F,T}); per configuration the 7"
    " expressions x 2 dtypes (+ the pure-Python 'math' lambdify backend, point by point) x the s lattice (every region and boundary, thr(1+-eps) for"
    " eps in 1e-3,1e-6,1e-9, seed-shifted interior points); non-trivial = a comparison"
    " that was really made on finite numbers; distinct = (identity/class, region, mass"
    " configuration, binding, cse, dtype)"
)
ASSUMPTIONS = [
    "s = 0 (a pole of q^2 for every variant) is excluded; lattice points keep to the"
    " listed regions and boundaries, agreement is shown there and nowhere else",
    "float64: tolerances are scaled by the condition number of sqrt(q^2) at the point"
    " (|s|+thr)/|s-edge| and, for Chew-Mandelstam, by u (s/(m1 m2))^2",
    "PhaseSpaceFactor and PhaseSpaceFactorAbs have no documented value for s < 0 (sign of"
    " a signed zero decides the branch of numpy's complex sqrt); they are evaluated there"
    " but compared with nothing",
    "vp.ref.dyn closed forms are trusted (self-tested against 40-digit mpmath)",
]
CHUNK = 1

CLASSES = [
    "BreakupMomentumSquared",
    "PhaseSpaceFactor",
    "PhaseSpaceFactorAbs",
    "PhaseSpaceFactorComplex",
    "PhaseSpaceFactorSWave",
    "EqualMassPhaseSpaceFactor",
    "chew_mandelstam_s_wave",
]
FIVE = CLASSES[1:6]
USES_CM = {"PhaseSpaceFactorSWave", "chew_mandelstam_s_wave"}
EPS = [1e-3, 1e-6, 1e-9]
U = dyn.U
KAPPA_EXT = 0.05  # above this the PDG form of the logarithm has ~no reliable digit in
# float64 (NaN / log(0) / wrong sign are all possible): those points are checked on the
# same unfolded library expression with evalf(50) instead (counter
# checked_in_extended_precision), never in float64
TAG_NEG = "equal-mass-phsp-negative-s"


# ------------------------------------------------------------------ alphabet
def mass_configs(tier: str, seed: int) -> list[dict]:
    g = 0.3 + 0.4 * irr(seed, 1)
    r = 1.2 + 1.5 * irr(seed, 2)
    out = [
        ("equal:a", 0.25, 0.25, True),
        ("equal:b", 1.0, 1.0, True),
        ("ratio2", 0.25, 0.5, True),
        ("ratio2-swapped", 0.5, 0.25, True),
        ("ratio1e3", 2.0**-10, 1.0, True),
        ("ratio1e3-swapped", 1.0, 2.0**-10, True),
        ("equal:g", g, g, False),
        ("ratio2:g", g, 2 * g, False),
        ("ratio2:g-swapped", 2 * g, g, False),
        ("generic", g, g * r, False),
        ("generic-swapped", g * r, g, False),
        ("ratio1e3:g", g * 1e-3, g, False),
        ("ratio1e3:g-swapped", g, g * 1e-3, False),
    ]
    if tier == "thorough":
        out += [
            ("equal:c", 2.0**-7, 2.0**-7, True),
            ("equal:d", 8.0, 8.0, True),
            ("near-equal", 1.0, 1.0 + 2.0**-20, True),
            ("near-equal-swapped", 1.0 + 2.0**-20, 1.0, True),
            ("ratio1e6", 2.0**-20, 1.0, True),
            ("ratio1e6-swapped", 1.0, 2.0**-20, True),
            ("ratio3:g", g, 3 * g * (1 + 0.01 * irr(seed, 3)), False),
            ("ratio3:g-swapped", 3 * g * (1 + 0.01 * irr(seed, 3)), g, False),
        ]
    return [{"cfg": a, "m1": b, "m2": c, "exact": d} for a, b, c, d in out]


def cases(tier, seed):
    out = []
    for cfg in mass_configs(tier, seed):
        bindings = ["symbols", "numbers"]
        if cfg["m1"] == cfg["m2"]:
            bindings.append("same-symbol")
        for binding in bindings:
            for assume in ("plain", "real"):
                for cse in (False, True):
                    out.append({
                        **cfg, "binding": binding, "assume": assume, "cse": cse,
                        "tier": tier, "seed": seed,
                    })
    return out


def s_lattice(m1: float, m2: float, tier: str, seed: int) -> list[tuple[str, float]]:
    pthr, thr = dyn.thresholds(m1, m2)
    pts: list[tuple[str, float]] = []
    for k in (10.0, 1.0, 0.1):
        pts.append((f"neg:{k:g}", -k * thr))
    pts.append(("neg:irr", -thr * (0.2 + 3 * irr(seed, 10))))
    if pthr > 0:
        pts.append(("below-pthr:0.5", 0.5 * pthr))
        pts.append(("below-pthr:irr", pthr * (0.05 + 0.9 * irr(seed, 11))))
        pts.append(("pthr", pthr))
    gap = thr - pthr
    pts.append(("between:0.5", pthr + 0.5 * gap))
    pts.append(("between:irr", pthr + gap * (0.05 + 0.9 * irr(seed, 12))))
    for e in EPS:
        pts.append((f"thr-{e:g}", thr * (1 - e)))
    pts.append(("thr", thr))
    for e in EPS:
        pts.append((f"thr+{e:g}", thr * (1 + e)))
    for k in (1.5, 10.0, 1e3):
        pts.append((f"above:{k:g}", k * thr))
    pts.append(("above:irr", thr * (1.01 + 4 * irr(seed, 13))))
    pts.append(("asym:1e6", 1e6 * thr))
    n_asym = 8 if tier == "thorough" else 4
    for k in range(n_asym):
        pts.append((f"asym:irr{k}", 1e6 * thr * (1 + irr(seed, 20 + k))))
    if tier == "thorough":
        for k in range(6):
            pts.append((f"above:irr{k}", thr * (1 + 10 ** (-3 + k) * (1 + irr(seed, 40 + k)))))
            pts.append((f"between:irr{k}", pthr + gap * irr(seed, 50 + k)))
            pts.append((f"neg:irr{k}", -thr * 10 ** (-2 + k * 0.6) * (1 + irr(seed, 60 + k))))
        if pthr > 0:
            for e in EPS:
                pts.append((f"pthr-{e:g}", pthr * (1 - e)))
                pts.append((f"pthr+{e:g}", pthr * (1 + e)))
    return pts


def coarse_region(name: str, s: float, m1: float, m2: float) -> str:
    if name.startswith("asym"):
        return "asymptotic"
    if name.startswith(("thr-", "thr+", "pthr-", "pthr+")):
        return name.split("e")[0][:4].rstrip("+-") + ("+eps" if "+" in name else "-eps")
    return dyn.region(s, m1, m2)


# ------------------------------------------------------------------ library side
def build_functions(case):
    """doit() + lambdify for the seven expressions; returns {name: (expr, f)}, call args."""
    import sympy as sp  # noqa: PLC0415
    from ampform.dynamics import phasespace as ps  # noqa: PLC0415

    real = case["assume"] == "real"
    s = sp.Symbol("s", real=True) if real else sp.Symbol("s")
    if case["binding"] == "symbols":
        kw = {"positive": True} if real else {}
        a, b = sp.Symbol("m1", **kw), sp.Symbol("m2", **kw)
        args, vals = (s, a, b), (case["m1"], case["m2"])
        swapped_vals = (case["m2"], case["m1"])
        subs = {a: case["m1"], b: case["m2"]}
    elif case["binding"] == "same-symbol":
        kw = {"positive": True} if real else {}
        a = b = sp.Symbol("m", **kw)
        args, vals, swapped_vals = (s, a), (case["m1"],), None
        subs = {a: case["m1"]}
    else:
        a, b = case["m1"], case["m2"]
        args, vals, swapped_vals = (s,), (), None
        subs = {}
    out = {}
    for name in CLASSES:
        expr = getattr(ps, name)(s, a, b).doit()
        out[name] = (expr, sp.lambdify(args, expr, "numpy", cse=case["cse"]),
                     sp.lambdify(args, expr, "math", cse=case["cse"]))
    q2_swapped = None
    if case["binding"] == "numbers":
        e = ps.BreakupMomentumSquared(s, b, a).doit()
        q2_swapped = sp.lambdify(args, e, "numpy", cse=case["cse"])
    return out, s, subs, vals, swapped_vals, q2_swapped


RAISED: collections.Counter = collections.Counter()


def call(f, svals, vals, dtype):
    import numpy as np  # noqa: PLC0415

    arr = np.array(svals, dtype=dtype)
    try:
        with np.errstate(all="ignore"):
            res = np.asarray(f(arr, *vals))
    except Exception as exc:  # noqa: BLE001
        # generated numpy code of a library expression raised: NaNs fail the comparisons
        RAISED[f"{type(exc).__name__}: {exc}"[:160]] += 1
        return np.full(arr.shape, complex("nan"))
    if res.shape != arr.shape:
        res = np.broadcast_to(res, arr.shape)
    return res.astype(complex)


def real_domain(name: str, s: float, m1: float, m2: float) -> bool:
    """Is the variant defined with real-dtype input at this point?"""
    if s == 0:
        return False
    if name == "BreakupMomentumSquared":
        return True
    if name == "PhaseSpaceFactor":
        return s > 0 and dyn.q2(s, m1, m2) >= 0
    return s > 0


def reference(name: str, s: float, m1: float, m2: float) -> complex:
    if name == "BreakupMomentumSquared":
        return complex(dyn.q2(s, m1, m2))
    if name == "chew_mandelstam_s_wave":
        return dyn.chew_mandelstam(s, m1, m2)
    if name == "EqualMassPhaseSpaceFactor" and s < 0:
        # defined by the identity with Chew-Mandelstam (equal masses) only; see O3
        return complex(dyn.NAN, dyn.NAN)
    if name == "PhaseSpaceFactorAbs" and s < 0:
        return complex(dyn.NAN, dyn.NAN)
    return complex(dyn.PHSP[name](s, m1, m2))


def _isnan(z: complex) -> bool:
    return z != z


# ------------------------------------------------------------------ evaluation
class Rec:
    def __init__(self, case):
        self.case = case
        # lambdify prints a sympy Float with 15 significant digits, so thresholds built
        # from numeric masses are only good to ~1e-15 relative in the generated code
        self.exact = bool(case["exact"]) and case["binding"] != "numbers"
        self.out = collections.Counter()
        self.non = set()
        self.viol: dict = {}
        self.n = 0
        self.counters = collections.Counter()

    def tol(self, s, want, ident_uses_cm, edge_inexact, uses_eq=False):
        m1, m2 = self.case["m1"], self.case["m2"]
        c = dyn.cond(s, m1, m2)
        rtol = 1e-11
        atol = 1e-12
        if edge_inexact or math.isinf(c):
            # q^2 = 0 exactly when the edge is exact in float64, else |rho| ~ sqrt(u)
            # (edge not exact: s-edge ~ u*edge instead of 0 -> |rho| ~ sqrt(u*gap/edge))
            if not self.exact:
                gap = 4 * m1 * m2
                atol += 8 * math.sqrt(4 * U * (gap + abs(s)) / abs(s))
        else:
            # relative error u*c of sqrt(q^2) -> absolute error u*c*|rho| of every variant
            atol += 64 * U * c * math.sqrt(abs(4 * dyn.q2(s, m1, m2) / s))
        if uses_eq and s > 0:
            # log|(1+rho-hat)/(1-rho-hat)|: 1 - rho-hat ~ (thr+pthr)/(2 s) for s >> thr
            atol += 16 * U * max(1.0, abs(s) / (m1 * m2))
        if ident_uses_cm:
            k = dyn.kappa_cm(s, m1, m2)
            # error of the logarithm times its prefactor 2q/sqrt(s) = sqrt|D|/|s|
            pref = math.sqrt(abs((s - (m1 + m2) ** 2) * (s - (m1 - m2) ** 2))) / abs(s)
            atol += 4 * k * max(1.0, pref)
            if m1 != m2:
                # (m1^2-m2^2)(1/s-1/thr) log(m1/m2): cancellation of 1/s - 1/thr near thr
                atol += 64 * U * abs(math.log(m1 / m2)) * max(1.0, (m1 + m2) ** 2 / abs(s))
        return atol + rtol * abs(want), atol, rtol

    def compare(self, ident, region, dtype, name, s, got, want, uses_cm=False,  # noqa: PLR0917
                extra_tags=(), what="", scale=1.0):
        """One oracle evaluation on finite expectation `want`; NaN in `got` fails."""
        case = self.case
        self.n += 1
        key = (ident, region, case["cfg"], case["binding"], case["cse"], dtype)
        self.non.add(key)
        edge = region in {"thr", "pthr"}
        bound, atol, rtol = self.tol(s, want, uses_cm, edge,
                                     uses_eq="EqualMass" in name or "rho^eq" in ident)
        bound *= scale
        if _isnan(got):
            dev = math.inf
        else:
            dev = abs(got - want)
        rel = dev / max(1.0, abs(want))
        if dev <= bound:
            if rel <= 1e-14:
                self.out["dev<=1e-14"] += 1
            elif rel <= 1e-12:
                self.out["dev<=1e-12"] += 1
            elif rel <= 1e-9:
                self.out["dev<=1e-9"] += 1
            else:
                self.out["dev<=scaled-tol(ill-conditioned point)"] += 1
            return True
        self.out["FAIL"] += 1
        tags = [f"identity:{ident}", f"region:{region}", f"dtype:{dtype}", *extra_tags]
        m1, m2 = case["m1"], case["m2"]
        vkey = (ident, dtype, region, tuple(sorted(tags)))
        old = self.viol.get(vkey)
        if old is None or dev > old["detail"]["abs_dev"]:
            self.viol[vkey] = {
                "msg": (
                    f"{ident} [{what or name}] fails in region {region} ({dtype} dtype,"
                    f" cse={case['cse']}, masses {case['binding']} {m1!r},{m2!r}): at s={s!r}"
                    f" got {got!r}, expected {want!r} (|dev|={dev:.3g} > tol {bound:.3g})"
                ),
                "tags": tags,
                "detail": {"s": s, "got": repr(got), "want": repr(want), "abs_dev": dev,
                           "tol": bound, "n_points": (old["detail"]["n_points"] + 1) if old else 1},
            }
        else:
            old["detail"]["n_points"] += 1
        return False


def _real_or_nan(z: complex) -> complex:
    return complex(dyn.NAN) if _isnan(z) else complex(z.real)


def eval_case(case):  # noqa: C901, PLR0912, PLR0915
    import sympy as sp  # noqa: PLC0415
    from ampform.dynamics import phasespace as ps  # noqa: PLC0415

    m1, m2 = case["m1"], case["m2"]
    pthr, thr = dyn.thresholds(m1, m2)
    equal = m1 == m2
    funcs, s_sym, subs, vals, swapped_vals, q2_swapped = build_functions(case)
    lattice = s_lattice(m1, m2, case["tier"], case["seed"])
    names = [n for n, _ in lattice]
    svals = [float(x) for _, x in lattice]
    regions = [coarse_region(n, x, m1, m2) for n, x in lattice]
    fine = [dyn.region(x, m1, m2) for x in svals]
    idx = {n: i for i, n in enumerate(names)}
    ill = [dyn.kappa_cm(x, m1, m2) >= KAPPA_EXT for x in svals]
    rec = Rec(case)
    exact = rec.exact
    key_tail = (case["cfg"], case["binding"], case["cse"])

    values = {}  # (class, dtype) -> complex array
    for name, (_, f, _) in funcs.items():
        for dtype in ("real", "complex"):
            values[name, dtype] = call(f, svals, vals, float if dtype == "real" else complex)

    def val(name, dtype, i):
        return complex(values[name, dtype][i])

    # exact-input, 50-digit evaluation of the same unfolded library expression
    rat = {k: sp.Rational(v) for k, v in subs.items()}
    ext_cache: dict = {}

    def ext(name, i, digits=50):
        if (name, i, digits) not in ext_cache:
            if case["binding"] == "numbers":
                # same class, masses given as the exact rational value of the float
                expr = getattr(ps, name)(s_sym, sp.Rational(m1), sp.Rational(m2)).doit()
            else:
                expr = funcs[name][0]
            try:
                v = expr.xreplace({s_sym: sp.Rational(svals[i]), **rat}).evalf(digits)
                v = complex(v)
            except (TypeError, ValueError, ZeroDivisionError):
                v = complex(dyn.NAN)
            if math.isinf(abs(v)):
                v = complex(dyn.NAN)
            ext_cache[name, i, digits] = v
        return ext_cache[name, i, digits]

    def skip_nan():
        rec.counters["skipped_nan_real_dtype_outside_domain"] += 1
        rec.out["skipped:NaN(real dtype outside real domain)"] += 1

    # ---- O6 agreement with the closed-form reference (+ NaN bookkeeping) -------
    for name in CLASSES:
        for dtype in ("real", "complex"):
            for i, s in enumerate(svals):
                got = val(name, dtype, i)
                indom = real_domain(name, s, m1, m2) if dtype == "real" else s != 0
                if not indom:
                    if _isnan(got):
                        skip_nan()
                    else:
                        rec.counters["finite_outside_real_domain_not_compared"] += 1
                    continue
                if ill[i] and name in USES_CM:
                    rec.counters["float64_illconditioned_point_not_compared_in_float64"] += 1
                    continue  # -> extended-precision pass below
                if (not exact and fine[i] in {"thr", "pthr"} and dtype == "real"
                        and name == "PhaseSpaceFactor" and _isnan(got)):
                    # q^2 = -1e-17 instead of 0 at an edge that is not exact in float64
                    rec.counters["skipped_nan_real_dtype_at_inexact_edge"] += 1
                    rec.out["skipped:NaN(real dtype, edge not exact in float64)"] += 1
                    continue
                want = reference(name, s, m1, m2)
                if _isnan(want):
                    rec.counters["no_reference_value"] += 1
                    continue
                if name == "BreakupMomentumSquared":
                    # q^2 itself: no square root, absolute error ~ u (|s|+thr)^2/|s|
                    rec.n += 1
                    rec.non.add(("ref:" + name, regions[i], *key_tail, dtype))
                    bound = 64 * U * (abs(s) + thr) * (1 + (abs(s) + thr) / abs(s))
                    if case["binding"] == "numbers":
                        bound *= 16
                    if not _isnan(got) and abs(got - want) <= bound:
                        rec.out["dev<=1e-14" if abs(got - want) <= 1e-14 * max(1, abs(want))
                                else "dev<=1e-12"] += 1
                    else:
                        rec.n -= 1
                        rec.compare("ref:" + name, regions[i], dtype, name, s, got, want, scale=0.0)
                    continue
                rec.compare("ref:" + name, regions[i], dtype, name, s, got, want,
                            uses_cm=name in USES_CM)

    # ---- O1 Re rho = 2 q / sqrt(s) above threshold, q from the library's q^2 -----
    for dtype in ("real", "complex"):
        for i, s in enumerate(svals):
            if not s > thr:
                continue
            q2v = val("BreakupMomentumSquared", dtype, i)
            if _isnan(q2v) or q2v.real < 0:
                continue  # reported by O6 / O5
            want = complex(2 * math.sqrt(q2v.real) / math.sqrt(s))
            for name in FIVE:
                if ill[i] and name in USES_CM:
                    rec.counters["float64_illconditioned_point_not_compared_in_float64"] += 1
                    continue
                rec.compare("O1:Re(rho)=2q/sqrt(s):" + name, regions[i], dtype, name, s,
                            _real_or_nan(val(name, dtype, i)), want, uses_cm=name in USES_CM)

    # ---- O2 rho^c = i rho-hat between the thresholds ---------------------------
    for dtype in ("real", "complex"):
        for i, s in enumerate(svals):
            if not (pthr < s < thr):
                continue
            a, b = val("PhaseSpaceFactorComplex", dtype, i), val("PhaseSpaceFactorAbs", dtype, i)
            if _isnan(b):
                continue  # in-domain NaN of rho-hat is reported by O6
            rec.compare("O2:rho^c=i*rho-hat", regions[i], dtype, "PhaseSpaceFactorComplex", s,
                        a, 1j * b)

    # ---- O3 equal masses: rho^eq == rho^CM on the whole lattice ----------------
    def o3(i, dtype, a, b):
        s = svals[i]
        if _isnan(a) and _isnan(b):
            rec.out["FAIL"] += 1
            rec.viol["O3nan", dtype, regions[i]] = {
                "msg": f"O3: rho^eq and rho^CM are both NaN at s={s!r} ({dtype}), m={m1!r}",
                "tags": ["identity:O3", f"region:{regions[i]}"], "detail": {"s": s}}
            return
        want, got = (b, a) if not _isnan(b) else (a, b)
        # eq's own cancellation 1 - rho-hat ~ 2 m^2/s (float64 only)
        sc = 1.0 if dtype == "extended" else 1.0 + 64 * U * abs(s) / (m1 * m2) / 1e-11
        rec.compare("O3:rho^eq=rho^CM", regions[i], dtype, "EqualMassPhaseSpaceFactor", s, got,
                    want, uses_cm=dtype != "extended", extra_tags=[TAG_NEG] if s < 0 else [],
                    scale=min(sc, 1e6),
                    what="EqualMassPhaseSpaceFactor vs PhaseSpaceFactorSWave")

    if equal:
        for dtype in ("real", "complex"):
            for i, s in enumerate(svals):
                a = val("EqualMassPhaseSpaceFactor", dtype, i)
                b = val("PhaseSpaceFactorSWave", dtype, i)
                if dtype == "real" and not s > 0:
                    if _isnan(a) and _isnan(b):
                        skip_nan()
                        continue
                if ill[i]:
                    rec.counters["float64_illconditioned_point_not_compared_in_float64"] += 1
                    continue
                o3(i, dtype, a, b)

    # ---- extended precision where float64 cannot decide (Chew-Mandelstam) -------
    for i, s in enumerate(svals):
        if not ill[i]:
            continue
        for name in sorted(USES_CM):
            got = ext(name, i)
            rec.counters["checked_in_extended_precision"] += 1
            rec.compare("ref:" + name, regions[i], "extended", name, s, got,
                        reference(name, s, m1, m2))
        if s > thr:
            rec.counters["checked_in_extended_precision"] += 1
            rec.compare("O1:Re(rho)=2q/sqrt(s):PhaseSpaceFactorSWave", regions[i], "extended",
                        "PhaseSpaceFactorSWave", s, _real_or_nan(ext("PhaseSpaceFactorSWave", i)),
                        complex(dyn.rho(s, m1, m2)))
        if equal:
            rec.counters["checked_in_extended_precision"] += 1
            o3(i, "extended", ext("EqualMassPhaseSpaceFactor", i), ext("PhaseSpaceFactorSWave", i))

    # ---- O4 continuity at threshold of both continuations ----------------------
    for name in ("EqualMassPhaseSpaceFactor", "PhaseSpaceFactorSWave", "chew_mandelstam_s_wave"):
        for dtype in ("real", "complex"):
            at = val(name, dtype, idx["thr"])
            for e in EPS:
                up, dn = val(name, dtype, idx[f"thr+{e:g}"]), val(name, dtype, idx[f"thr-{e:g}"])
                bound = 4 * math.sqrt(e) + (0.0 if exact else 1e-6)
                for lab, x, y in (("f(thr+e)-f(thr-e)", up, dn), ("f(thr+e)-f(thr)", up, at),
                                  ("f(thr)-f(thr-e)", at, dn)):
                    rec.n += 1
                    rec.non.add((f"O4:continuity:{name}", f"eps={e:g}", *key_tail, dtype))
                    d = math.inf if (_isnan(x) or _isnan(y)) else abs(x - y)
                    if d <= bound:
                        rec.out["continuity:|jump|<=4sqrt(eps)"] += 1
                    else:
                        rec.out["FAIL"] += 1
                        rec.viol["O4", name, dtype, e, lab] = {
                            "msg": f"O4 continuity at threshold: {name} {lab} = {d:.3g} >"
                                   f" 4 sqrt(eps) = {bound:.3g} for eps={e:g} ({dtype} dtype,"
                                   f" cse={case['cse']}, masses {m1!r},{m2!r}): {x!r} vs {y!r}",
                            "tags": ["identity:O4", f"class:{name}", f"dtype:{dtype}"],
                            "detail": {"eps": e, "values": [repr(x), repr(y)]}}

    # ---- O5 q^2 symmetric in the masses, zero at (m1 +- m2)^2 -------------------
    q2f = funcs["BreakupMomentumSquared"][1]
    for dtype in ("real", "complex"):
        np_dtype = float if dtype == "real" else complex
        if swapped_vals is not None:
            sw = call(q2f, svals, swapped_vals, np_dtype)
        elif q2_swapped is not None:
            sw = call(q2_swapped, svals, (), np_dtype)
        else:
            sw = None  # the same symbol twice: nothing to swap
        if sw is not None:
            for i, s in enumerate(svals):
                a, b = val("BreakupMomentumSquared", dtype, i), complex(sw[i])
                rec.n += 1
                rec.non.add(("O5:q2-symmetric", regions[i], *key_tail, dtype))
                d = math.inf if (_isnan(a) or _isnan(b)) else abs(a - b)
                if d <= 16 * U * (abs(s) + thr) * (1 + (abs(s) + thr) / abs(s)):
                    rec.out["dev<=1e-14"] += 1
                else:
                    rec.out["FAIL"] += 1
                    rec.viol["O5s", dtype, regions[i]] = {
                        "msg": f"O5 q^2 not symmetric in the masses at s={s!r}:"
                               f" q2(m1,m2)={a!r}, q2(m2,m1)={b!r} ({dtype}, masses {m1!r},{m2!r})",
                        "tags": ["identity:O5"], "detail": {"s": s}}
        for edge_name in ("thr", "pthr"):
            if edge_name not in idx:
                continue
            i = idx[edge_name]
            a = val("BreakupMomentumSquared", dtype, i)
            rec.n += 1
            rec.non.add(("O5:q2-zero-at-edge", edge_name, *key_tail, dtype))
            bound = 0.0 if exact else 64 * U * (4 * m1 * m2 + svals[i])
            if not _isnan(a) and abs(a) <= bound:
                rec.out["q2(edge)=0"] += 1
            else:
                rec.out["FAIL"] += 1
                sign = "+" if edge_name == "thr" else "-"
                rec.viol["O5z", dtype, edge_name] = {
                    "msg": f"O5 q^2 does not vanish at s=(m1{sign}m2)^2={svals[i]!r}: {a!r}"
                           f" ({dtype}, masses {m1!r},{m2!r})",
                    "tags": ["identity:O5"], "detail": {"s": svals[i]}}

    # ---- O7 complex-dtype lambdify == evalf of the same expression, s < thr ------
    picked = {}
    for i, s in enumerate(svals):
        if s < thr and fine[i] not in picked and not names[i].startswith("thr-"):
            picked[fine[i]] = i
    picked["thr-eps"] = idx["thr-1e-06"]
    for i in sorted(set(picked.values())):
        s = svals[i]
        if (not exact) and fine[i] in {"thr", "pthr"}:
            rec.counters["evalf_skipped_edge_of_inexact_masses"] += 1
            continue
        for name in CLASSES:
            if name in {"PhaseSpaceFactor", "PhaseSpaceFactorAbs"} and s < 0:
                rec.counters["no_reference_value"] += 1
                continue
            if ill[i] and name in USES_CM:
                rec.counters["float64_illconditioned_point_not_compared_in_float64"] += 1
                continue
            ev = ext(name, i, 30)
            if _isnan(ev):
                rec.counters["evalf_gave_no_number"] += 1
                continue
            rec.compare("O7:lambdify(complex)=evalf:" + name, regions[i], "complex", name, s,
                        val(name, "complex", i), ev,
                        uses_cm=name in USES_CM or name == "EqualMassPhaseSpaceFactor")

    # ---- O8 the pure-Python ("math") lambdify backend, called event by event with Python
    #      floats, gives the value of the NumPy backend wherever both are defined
    for name in CLASSES:
        fm = funcs[name][2]
        for i, s in enumerate(svals):
            if not real_domain(name, s, m1, m2) or (ill[i] and name in USES_CM):
                continue
            want = val(name, "real", i)
            if _isnan(want) or math.isinf(abs(want)):
                continue  # in-domain NaN is reported by O6
            try:
                got = complex(fm(float(s), *vals))
            except (ValueError, ZeroDivisionError, OverflowError, TypeError) as exc:
                # math.sqrt / math.log raise where numpy returns nan / inf, and math.log
                # does not take the complex numbers that ComplexSqrt hands it
                rec.counters[f"math_backend_raised_{type(exc).__name__}"] += 1
                continue
            rec.compare("O8:lambdify(math)=lambdify(numpy):" + name, regions[i], "math", name, s,
                        got, want, uses_cm=name in USES_CM or name == "EqualMassPhaseSpaceFactor")

    i_show, j_show = idx["above:1.5"], idx["between:0.5"]
    sample = {
        "config": {k: case[k] for k in ("cfg", "m1", "m2", "binding", "assume", "cse")},
        "s=1.5thr (real dtype)": {n: repr(val(n, "real", i_show)) for n in CLASSES},
        "s=mid-between (real dtype)": {n: repr(val(n, "real", j_show)) for n in FIVE},
        "s=-thr (complex dtype)": {
            n: repr(val(n, "complex", idx["neg:1"]))
            for n in ("PhaseSpaceFactorSWave", "EqualMassPhaseSpaceFactor")},
        "lattice": [[n, x] for n, x in zip(names, svals)][:12],
        "lattice_points": len(svals),
    }
    rec.counters["numpy_evaluation_of_library_expression_raised"] += sum(RAISED.values())
    if RAISED:
        for v in rec.viol.values():
            v["detail"]["numpy_evaluation_raised"] = dict(RAISED)
        RAISED.clear()
    return {
        "violations": list(rec.viol.values()),
        "evaluations": rec.n,
        "nontrivial": [list(k) for k in rec.non],
        "outcomes": dict(rec.out),
        "sample": sample,
        "counters": dict(rec.counters),
    }


def finalize(ctx):
    ctx.extra["lattice"] = {
        "masses": "equal (0.25, 1; thorough 2^-7, 8), ratio 2, ratio 1e3 (2^-10:1), each swapped,"
                  " exactly representable; the same shapes shifted by irr(seed); thorough:"
                  " near-equal (1, 1+2^-20), ratio 1e6, ratio 3",
        "s": "-thr*{10,1,0.1,irr}; pthr*{0.5,irr}; pthr; pthr+(thr-pthr)*{0.5,irr};"
             " thr*(1-eps); thr; thr*(1+eps) for eps in 1e-3,1e-6,1e-9; thr*{1.5,10,1e3,irr};"
             " 1e6*thr*{1, 1+irr_k}; thorough adds pthr*(1+-eps) and 18 more shifted points",
        "extended_precision": "points with u*((m1^2+m2^2-s)/(m1 m2))^2 >= 0.05 (asymptotic s of"
                              " unequal masses): Chew-Mandelstam identities checked on"
                              " evalf(50) of the same unfolded expression, not in float64",
    }
