"""C12 - line-shape normalisations hold and the builder API equals the function API.

Four families of cases, all run on the real ampform code:

``bw``      Blatt-Weisskopf B_L^2(z): L = 0..10 (more in thorough) through every path
            (Python int / sympy Integer -> polynomial cache; symbolic L substituted with
            subs / xreplace -> Hankel-function sum), z symbol plain / positive, cse F/T,
            real and complex dtype; oracles B(1)=1, z^L law over three decades, bounded by
            (and increasing towards) |h_L(1)|^2, every path = scipy Hankel reference.
``hist``    operation-history exploration of the polynomial cache (an lru_cache(20)):
            every order of a small set of L requests (with re-requests) and, in thorough,
            > 20 distinct L in one process in several orders so that eviction and refill
            happen; each answer must equal the scipy reference and the first answer for
            that L - independent of the history.
``width``   EnergyDependentWidth for the five phase-space factors x L = 0..4: Gamma(m0^2)
            = Gamma0 (numeric s = m0^2 and symbolic s -> m0^2) and Gamma(s) = the closed
            form of vp.ref.dyn on an s lattice.
``builder`` RelativisticBreitWignerBuilder x (form_factor, energy_dependent_width) in
            {F,T}^2 x phase-space factor in {default, 5 classes} and the three convenience
            builders x L in {None, 0..4} x resonance with/without ``latex``: expression
            (parameter defaults substituted) = the documented composition of the public
            functions = vp.ref.dyn, on an m lattice; defaults = mass, width, radius 1.
"""

from __future__ import annotations

import collections
import itertools
import math

from vp.ref import dyn
from vp.util import irr

PROPERTY = "C12"
LEVEL = "exploration"
RULE = (
    "bw: L in 0..10 (0..16 thorough) x z-symbol assumption x cse, inside: 4 paths x 2 dtypes"
    " x z lattice (1e-8..1e6, z=1, seed-shifted); hist: all permutations of {0,1,2,5} with"
    " re-request, all length-3 words over {1,2,10}, all ordered pairs a,b,a of 0..10 (thorough: 15 two-pass orders over 23"
    " distinct L > lru maxsize 20); width: 5 phase-space factors x L 0..4 x cse, inside mass"
    " configurations x m0 positions x radii x dtypes; builder: (4 flag combinations x 6"
    " phsp choices + 3 convenience builders) x L in {None,0..4}, inside latex set/unset x"
    " resonance/mass configurations x m lattice x dtypes (x cse in thorough);"
    " non-trivial = a comparison made on finite numbers (NaN pairs are counted as skipped)"
)
ASSUMPTIONS = [
    "documented composition: (F,F) relativistic_breit_wigner; (T,F) FormFactor *"
    " relativistic_breit_wigner; (T,T) relativistic_breit_wigner_with_ff with that"
    " phsp_factor; (F,T) m0 G0/(m0^2 - s - i m0 EnergyDependentWidth(s)) (builder docstring:"
    " 'Use an EnergyDependentWidth in the denominator'); radius default 1",
    "m0^2 exactly at threshold (rho0 = 0, Gamma = 0/0) and z = -1-like poles of B_L^2 for"
    " q^2 < 0 are excluded from the lattice",
    "B_L^2(z) and FormFactor are only referenced for z >= 0 (Hankel function of a real"
    " argument); below threshold only builder = function (both library) is compared",
    "scipy.special.spherical_jn/yn are trusted; vp.ref.dyn closed forms are trusted",
    "real numbers: agreement is shown on the listed lattices only",
]
CHUNK = 1

PHSP = [
    "PhaseSpaceFactor",
    "PhaseSpaceFactorAbs",
    "PhaseSpaceFactorComplex",
    "PhaseSpaceFactorSWave",
    "EqualMassPhaseSpaceFactor",
]
U = dyn.U


# ===================================================================== cases
def _hist_sequences(tier):
    seqs = []
    for perm in itertools.permutations([0, 1, 2, 5]):
        seqs.append(list(perm) + list(reversed(perm)))
    for word in itertools.product([1, 2, 10], repeat=3):
        seqs.append(list(word))
    # every ordered pair of the property's L range: b requested between two requests of a
    for a, b in itertools.permutations(range(11), 2):
        seqs.append([a, b, a])
    if tier == "thorough":
        n = 23
        base = list(range(n))
        firsts = {
            "asc": base,
            "desc": base[::-1],
            "even-odd": base[::2] + base[1::2],
            "middle-out": [x for pair in zip(base[n // 2:], base[n // 2 - 1::-1]) for x in pair]
            + [n - 1],
            "rot7": base[7:] + base[:7],
        }
        for a_name, first in firsts.items():
            first = list(dict.fromkeys(first))
            for b_name in ("same", "reversed", "rot5"):
                second = {"same": first, "reversed": first[::-1],
                          "rot5": first[5:] + first[:5]}[b_name]
                seqs.append(first + second + [0, n - 1, 0])
    return seqs


def cases(tier, seed):
    out = []
    max_l = 16 if tier == "thorough" else 10
    for ell in range(max_l + 1):
        for zassume in ("plain", "positive"):
            for cse in (False, True):
                out.append({"kind": "bw", "L": ell, "z": zassume, "cse": cse,
                            "seed": seed, "tier": tier})
    for seq in _hist_sequences(tier):
        out.append({"kind": "hist", "seq": seq, "seed": seed, "tier": tier})
    for phsp in PHSP:
        for ell in range(5):
            for cse in (False, True):
                out.append({"kind": "width", "phsp": phsp, "L": ell, "cse": cse,
                            "seed": seed, "tier": tier})
    specs = []
    for ff in (False, True):
        for edw in (False, True):
            for phsp in [None, *PHSP]:
                specs.append({"builder": "class", "ff": ff, "edw": edw, "phsp": phsp})
    for name in ("create_relativistic_breit_wigner", "create_relativistic_breit_wigner_with_ff",
                 "create_analytic_breit_wigner"):
        specs.append({"builder": name})
    for spec in specs:
        for ell in (None, 0, 1, 2, 3, 4):
            out.append({"kind": "builder", **spec, "L": ell, "seed": seed, "tier": tier})
    # one representative of every family first (the samples kept in the evidence are the
    # first few results), then the expensive histories so that the pool is well used
    def rank(c):
        rep = (
            (c["kind"] == "bw" and c["L"] == 3 and c["z"] == "plain" and not c["cse"])
            or (c["kind"] == "width" and c["L"] == 1 and not c["cse"]
                and c["phsp"] == "PhaseSpaceFactorSWave")
            or (c["kind"] == "builder" and c["L"] == 2
                and c["builder"] == "create_analytic_breit_wigner")
            or (c["kind"] == "builder" and c["L"] == 1 and c.get("ff") is False
                and c.get("edw") is True and c.get("phsp") == "PhaseSpaceFactorComplex")
            or (c["kind"] == "hist" and c["seq"] == [0, 1, 2, 5, 5, 2, 1, 0])
        )
        return (0 if rep else 1, -len(c.get("seq", ())))

    out.sort(key=rank)
    return out


# =================================================================== helpers
class Rec:
    def __init__(self):
        self.out = collections.Counter()
        self.non = set()
        self.viol: dict = {}
        self.n = 0
        self.counters = collections.Counter()

    def fail(self, key, msg, tags, detail=None):
        self.out["FAIL"] += 1
        if key not in self.viol:
            self.viol[key] = {"msg": msg, "tags": list(tags), "detail": detail or {}, "_n": 1}
        else:
            self.viol[key]["_n"] += 1

    def close(self, key, nkey, got, want, tol, msg, tags):
        """One comparison on a finite expectation; NaN in got fails."""
        self.n += 1
        self.non.add(nkey)
        got, want = complex(got), complex(want)
        dev = math.inf if got != got else abs(got - want)
        if dev <= tol:
            rel = dev / max(1.0, abs(want))
            self.out["dev<=1e-14" if rel <= 1e-14 else "dev<=1e-12" if rel <= 1e-12
                     else "dev<=1e-9" if rel <= 1e-9 else "dev<=scaled-tol"] += 1
            return True
        self.fail(key, f"{msg}: got {got!r}, expected {want!r} (|dev|={dev:.3g} > tol {tol:.3g})",
                  tags, {"got": repr(got), "want": repr(want)})
        return False

    def result(self, sample):
        viols = []
        for v in self.viol.values():
            v = dict(v)
            v["detail"] = {**v["detail"], "n_points": v.pop("_n")}
            if _RAISED:
                v["detail"]["numpy_evaluation_raised"] = dict(_RAISED)
            viols.append(v)
        self.counters["numpy_evaluation_of_library_expression_raised"] += sum(_RAISED.values())
        _RAISED.clear()
        return {
            "violations": viols,
            "evaluations": self.n,
            "nontrivial": [list(k) for k in self.non],
            "outcomes": dict(self.out),
            "sample": sample,
            "counters": dict(self.counters),
        }


_RAISED: collections.Counter = collections.Counter()


def _isnan(z):
    z = complex(z)
    return z != z or math.isinf(abs(z))


def _call(f, args, dtype):
    import numpy as np  # noqa: PLC0415

    # every input has the dtype of the mode (a real scalar parameter next to a complex
    # data array would re-introduce numpy's real sqrt for sub-threshold resonances)
    arrs = [np.array(a, dtype=dtype) if isinstance(a, (list, tuple)) else dtype(a) for a in args]
    shape = next(a.shape for a in arrs if getattr(a, "shape", ()) != ())
    try:
        with np.errstate(all="ignore"):
            res = np.asarray(f(*arrs))
    except Exception as exc:  # noqa: BLE001
        # the generated numpy code of a library expression raised: not a harness error;
        # the NaNs fail every comparison made with them and the message is kept
        _RAISED[f"{type(exc).__name__}: {exc}"[:160]] += 1
        return np.full(shape, complex("nan"))
    if res.shape != shape:
        res = np.broadcast_to(res, shape)
    return res.astype(complex)


def z_lattice(seed, tier):
    zs = [1e-8, 1e-7, 1e-6, 1e-4, 1e-2, 0.5, 1.0, 2.0, 10.0, 1e3, 1e6]
    n = 8 if tier == "thorough" else 4
    zs += [10 ** (-6 + 12 * irr(seed, 100 + k)) for k in range(n)]
    return sorted(zs)


# ======================================================================== bw
def _bw_paths(ell, zsym):
    import sympy as sp  # noqa: PLC0415
    from ampform.dynamics.form_factor import BlattWeisskopfSquared  # noqa: PLC0415

    l_int = sp.Symbol("L", integer=True, nonnegative=True)
    l_plain = sp.Symbol("ell")
    return {
        "int": lambda: BlattWeisskopfSquared(zsym, ell).doit(),
        "sp.Integer": lambda: BlattWeisskopfSquared(zsym, sp.Integer(ell)).doit(),
        "symbolic-subs": lambda: BlattWeisskopfSquared(zsym, l_int).doit().subs(l_int, ell).doit(),
        "symbolic-xreplace": lambda: BlattWeisskopfSquared(zsym, l_plain).doit().xreplace(
            {l_plain: sp.Integer(ell)}).doit(),
    }


def eval_bw(case):
    import sympy as sp  # noqa: PLC0415

    ell, cse = case["L"], case["cse"]
    zsym = sp.Symbol("z", positive=True) if case["z"] == "positive" else sp.Symbol("z")
    zs = z_lattice(case["seed"], case["tier"])
    rec = Rec()
    ref = [dyn.blatt_weisskopf_squared(z, ell) for z in zs]
    limit = dyn.blatt_weisskopf_limit(ell)
    const = dyn.blatt_weisskopf_threshold_constant(ell)
    vals = {}
    exprs = {}
    for path, make in _bw_paths(ell, zsym).items():
        exprs[path] = make()
        f = sp.lambdify(zsym, exprs[path], "numpy", cse=cse)
        for dtype in ("real", "complex"):
            vals[path, dtype] = _call(f, [zs], float if dtype == "real" else complex)
    rtol = 1e-11 * (1 + ell)
    for (path, dtype), arr in vals.items():
        tail = (ell, path, case["z"], cse, dtype)
        what = f"B_{ell}^2 via {path} ({dtype} dtype, z {case['z']}, cse={cse})"
        tags = ["kind:bw", f"path:{path}", f"L:{ell}"]
        # scipy reference on the whole lattice
        for z, got, want in zip(zs, arr, ref):
            rec.close(("ref", path, dtype), ("bw:ref", *tail, f"z~1e{round(math.log10(z))}"),
                      got, want, rtol * want, f"{what} at z={z!r} vs scipy Hankel reference",
                      [*tags, "oracle:scipy"])
        # B(1) = 1
        rec.close(("one", path, dtype), ("bw:B(1)=1", *tail), arr[zs.index(1.0)], 1.0, 1e-12,
                  f"{what} at z=1", [*tags, "oracle:B(1)=1"])
        # z^L law: ratio constant over three decades and equal to the reference constant
        ratios = [complex(arr[zs.index(z)]) / z**ell for z in (1e-6, 1e-7, 1e-8)]
        rec.n += 1
        rec.non.add(("bw:z^L", *tail))
        if any(_isnan(r) for r in ratios) or max(
            abs(r / ratios[0] - 1) for r in ratios
        ) > 1e-5 or abs(ratios[-1] / const - 1) > 1e-5:
            rec.fail(("zL", path, dtype),
                     f"{what}: B(z)/z^L at z=1e-6,1e-7,1e-8 = {ratios!r}, not constant (1e-5) /"
                     f" not the threshold constant {const!r}", [*tags, "oracle:z^L"])
        else:
            rec.out["z^L-law:ratio-constant<=1e-5"] += 1
        # bounded by and increasing towards its limit
        rec.n += 1
        rec.non.add(("bw:bounded", *tail))
        re = [complex(x) for x in arr]
        bad = [z for z, x in zip(zs, re) if _isnan(x) or abs(x.imag) > 1e-12 * limit
               or x.real > limit * (1 + 1e-12) or x.real < 0]
        mono = all(b.real >= a.real * (1 - 1e-12) for a, b in itertools.pairwise(re))
        if bad or not mono:
            rec.fail(("bounded", path, dtype),
                     f"{what}: not within [0, |h_L(1)|^2={limit!r}] or not increasing on the"
                     f" lattice (offending z: {bad[:3]!r}, monotone={mono})",
                     [*tags, "oracle:bounded"])
        else:
            rec.out["bounded<=limit&monotone"] += 1
    # polynomial path == Hankel path (pairwise, same dtype)
    for dtype in ("real", "complex"):
        for other in ("sp.Integer", "symbolic-subs", "symbolic-xreplace"):
            for z, a, b in zip(zs, vals["int", dtype], vals[other, dtype]):
                rec.close(("paths", other, dtype),
                          ("bw:poly=hankel", ell, other, case["z"], cse, dtype,
                           f"z~1e{round(math.log10(z))}"),
                          b, a, rtol * max(abs(complex(a)), 1e-300),
                          f"B_{ell}^2: path {other} vs polynomial path at z={z!r} ({dtype})",
                          ["kind:bw", "oracle:poly=hankel", f"L:{ell}"])
    sample = {"kind": "bw", "L": ell, "polynomial": str(exprs["int"])[:200],
              "B(z) real dtype": {f"{z:.3g}": float(complex(v).real)
                                  for z, v in list(zip(zs, vals["int", "real"]))[::3]},
              "limit |h_L(1)|^2": limit, "threshold constant": const}
    return rec.result(sample)


# ====================================================================== hist
def eval_hist(case):
    import sympy as sp  # noqa: PLC0415
    from ampform.dynamics import form_factor as ffmod  # noqa: PLC0415

    rec = Rec()
    cache_fn = getattr(ffmod, "_get_polynomial_blatt_weisskopf", None)
    if hasattr(cache_fn, "cache_clear"):
        cache_fn.cache_clear()  # defined start state (also makes the case replayable)
    zsym = sp.Symbol("z")
    zs = [1e-3, 0.37 + irr(case["seed"], 7), 1.0, 41.0]
    first: dict = {}
    seq = case["seq"]
    for step, ell in enumerate(seq):
        expr = ffmod.BlattWeisskopfSquared(zsym, ell).doit()
        f = sp.lambdify(zsym, expr, "numpy")
        got = _call(f, [zs], float)
        hist = seq[: step + 1]
        for z, g in zip(zs, got):
            want = dyn.blatt_weisskopf_squared(z, ell)
            rec.close(("hist-ref", ell), ("hist", tuple(hist[-4:]), len(set(hist)) > 20),
                      g, want, 1e-11 * (1 + ell) * want,
                      f"B_{ell}^2 after request history {hist[-6:]!r} (step {step}) at z={z!r}"
                      " vs scipy reference", ["kind:hist", "oracle:scipy", f"L:{ell}"])
        if ell in first:
            rec.n += 1
            if expr != first[ell]:
                rec.fail(("hist-same", ell),
                         f"B_{ell}^2 differs from the first answer for the same L after history"
                         f" {hist[-6:]!r}: {str(expr)[:80]} vs {str(first[ell])[:80]}",
                         ["kind:hist", "oracle:history-independent"])
            else:
                rec.out["same-as-first-answer"] += 1
        else:
            first[ell] = expr
    info = cache_fn.cache_info() if hasattr(cache_fn, "cache_info") else None
    if info is not None:
        rec.counters["polynomial_cache_misses"] += info.misses
        rec.counters["polynomial_cache_hits"] += info.hits
        rec.counters["polynomial_cache_evictions"] += max(0, info.misses - info.currsize)
    rec.counters["history_steps"] += len(seq)
    rec.counters["histories_with_more_than_20_distinct_L"] += int(len(set(seq)) > 20)
    sample = {"kind": "hist", "requests": seq[:12], "n_requests": len(seq),
              "distinct_L": len(set(seq)), "cache_info": str(info)}
    res = rec.result(sample)
    res["states"] = len(seq)
    return res


# ===================================================================== width
def width_configs(seed, tier):
    g = 0.25 + 0.3 * irr(seed, 30)
    cfgs = [
        ("unequal", 0.3, 0.5),
        ("swapped", 0.5, 0.3),
        ("equal", 0.4, 0.4),
        ("ratio1e3", 0.001, 1.0),
        ("generic", g, g * (1.3 + irr(seed, 31))),
    ]
    if tier == "thorough":
        cfgs += [("ratio2", 0.25, 0.5), ("heavy", 1.9, 5.3), ("generic-eq", g, g)]
    return cfgs


def eval_width(case):  # noqa: C901, PLR0912, PLR0915
    import sympy as sp  # noqa: PLC0415
    from ampform.dynamics import EnergyDependentWidth, phasespace  # noqa: PLC0415

    rec = Rec()
    phsp_name, ell, cse = case["phsp"], case["L"], case["cse"]
    phsp = getattr(phasespace, phsp_name)
    s, m0, g0, ma, mb, d = sp.symbols("s m0 Gamma0 m_a m_b d", positive=True)
    width = EnergyDependentWidth(s, m0, g0, ma, mb, ell, d, phsp_factor=phsp)
    expr = width.doit()
    f = sp.lambdify((s, m0, g0, ma, mb, d), expr, "numpy", cse=cse)
    # symbolic s -> m0^2 (the normalisation as an identity of the expression)
    expr0 = EnergyDependentWidth(m0**2, m0, g0, ma, mb, ell, d, phsp_factor=phsp).doit()
    f0 = sp.lambdify((m0, g0, ma, mb, d), expr0, "numpy", cse=cse)
    seed = case["seed"]
    shown = {}
    for cfg, m1, m2 in width_configs(seed, case["tier"]):
        pthr, thr = dyn.thresholds(m1, m2)
        rt = math.sqrt(thr)
        positions = {
            "above": rt * 1.5,
            "far-above": rt * 7.0,
            "just-above": rt * (1 + 1e-3),
            "above-irr": rt * (1.05 + 2 * irr(seed, 32)),
            "below": math.sqrt(pthr + (thr - pthr) * (0.3 + 0.5 * irr(seed, 33))),
        }
        for pos, mass0 in positions.items():
            for radius in (0.5, 1.0, 3.0 + irr(seed, 34)):
                gamma0 = 0.05 + 0.2 * irr(seed, 35)
                for dtype in ("real", "complex"):
                    np_t = float if dtype == "real" else complex
                    tail = (phsp_name, ell, cfg, pos, cse, dtype)
                    what = (f"EnergyDependentWidth[{phsp_name}, L={ell}] masses {m1!r},{m2!r}"
                            f" m0={mass0!r} d={radius!r} ({dtype} dtype, cse={cse})")
                    tags = ["kind:width", f"phsp:{phsp_name}", f"L:{ell}"]
                    # (a) numeric s = m0^2, (b) symbolic s -> m0^2
                    for how, val in (
                        ("s=m0^2 numeric", _call(f, [[mass0 * mass0], mass0, gamma0, m1, m2, radius],
                                                 np_t)[0]),
                        ("s->m0^2 symbolic", _call(f0, [[mass0], gamma0, m1, m2, radius], np_t)[0]),
                    ):
                        if _isnan(val):
                            real_ok = (dtype == "real" and (
                                pos == "below"))  # sqrt of a negative q^2 / B_L^2 in real dtype
                            if real_ok:
                                rec.counters["skipped_nan_real_dtype_below_threshold"] += 1
                                rec.out["skipped:NaN(real dtype, m0 below threshold)"] += 1
                                continue
                        tol = 1e-9 * gamma0
                        if phsp_name == "PhaseSpaceFactorSWave":
                            # rho(s) and rho(m0^2) are printed differently, so the float64
                            # error of the Chew-Mandelstam logarithm does not cancel
                            k = dyn.kappa_cm(mass0**2, m1, m2)
                            tol += 16 * k * gamma0 / abs(dyn.rho_cm(mass0**2, m1, m2))
                        rec.close(("norm", how, dtype, pos), ("width:norm", how, *tail), val,
                                  gamma0, tol,
                                  f"{what}: Gamma(m0^2) [{how}] != Gamma0", [*tags, "oracle:norm"])
                    shown[cfg, pos] = True
                    # (c) closed form on an s lattice (only where the reference is defined)
                    if pos == "below":
                        continue
                    svals = [thr * (1 + 1e-6), thr * 1.2, 0.5 * (thr + mass0**2), mass0**2 * 1.1,
                             mass0**2 * (1.5 + irr(seed, 36)), 40 * thr]
                    if phsp_name != "PhaseSpaceFactor" or dtype == "complex":
                        svals = [pthr + (thr - pthr) * 0.6, *svals]
                    got = _call(f, [svals, mass0, gamma0, m1, m2, radius], np_t)
                    for sv, gv in zip(svals, got):
                        want = dyn.energy_dependent_width(sv, mass0, gamma0, m1, m2, ell, radius,
                                                          phsp_name)
                        if _isnan(want):
                            # form factor below threshold: no reference (see ASSUMPTIONS)
                            rec.counters["no_reference_value"] += 1
                            continue
                        if phsp_name == "PhaseSpaceFactorSWave" and max(
                                dyn.kappa_cm(sv, m1, m2), dyn.kappa_cm(mass0**2, m1, m2)) > 1e-3:
                            rec.counters["float64_illconditioned_not_compared"] += 1
                            continue
                        c = max(dyn.cond(sv, m1, m2), dyn.cond(mass0**2, m1, m2))
                        tol = (1e-10 + 256 * U * c * (1 + ell)) * abs(want) + 1e-14
                        if phsp_name == "PhaseSpaceFactorSWave":
                            tol += 64 * (dyn.kappa_cm(sv, m1, m2) + dyn.kappa_cm(mass0**2, m1, m2)) \
                                * (gamma0 + abs(want)) * max(1.0, 1 / abs(dyn.rho_cm(mass0**2, m1, m2)))
                        reg = "between" if sv < thr else "above"
                        rec.close(("ref", dtype, reg), ("width:ref", *tail, reg), gv, want, tol,
                                  f"{what}: Gamma(s={sv!r}) vs closed form", [*tags, "oracle:ref"])
    sample = {"kind": "width", "phsp": phsp_name, "L": ell,
              "Gamma(m0^2)/Gamma0 (unequal, above, d=1)": repr(complex(
                  _call(f, [[1.2**2 * 1.0], 1.2, 0.1, 0.3, 0.5, 1.0], complex)[0] / 0.1)),
              "configs x m0 positions": len(shown)}
    return rec.result(sample)


# =================================================================== builder
def resonance_configs(seed, tier):
    g = 0.2 + 0.3 * irr(seed, 40)
    cfgs = [
        # label, m1, m2, m0, width
        ("unequal", 0.3, 0.5, 1.5, 0.2),
        ("swapped", 0.5, 0.3, 1.5, 0.2),
        ("equal", 0.4, 0.4, 1.2, 0.1),
        ("sub-threshold", 0.5, 0.5, 0.98, 0.06),
        ("generic", g, g * (1.5 + irr(seed, 41)), 4 * g * (1 + irr(seed, 42)), 0.05 + 0.3 * irr(seed, 43)),
    ]
    if tier == "thorough":
        cfgs += [("ratio1e3", 0.001, 1.0, 1.8, 0.3), ("narrow", 0.14, 0.14, 0.77, 1e-3),
                 ("broad", 0.14, 0.49, 0.9, 0.6)]
    return cfgs


def m_lattice(m1, m2, m0, seed):
    rt = m1 + m2
    pts = {
        "below:0.5": 0.5 * rt,
        "below:irr": rt * (0.3 + 0.6 * irr(seed, 44)),
        "thr-1e-6": rt * (1 - 1e-6),
        "thr+1e-6": rt * (1 + 1e-6),
        "at-m0": m0,
        "m0+irr": m0 * (1.02 + 0.5 * irr(seed, 45)),
        "m0-irr": m0 * (0.98 - 0.1 * irr(seed, 46)),
        "far-above": 3.0 * max(m0, rt),
    }
    if m0 > rt:
        pts["between-thr-m0"] = 0.5 * (rt + m0)
    return pts


def _documented_composition(ff, edw, phsp, ell):
    """Function-API expression in symbols (x = invariant mass, a, b, M, G, d)."""
    import sympy as sp  # noqa: PLC0415
    from ampform import dynamics as dy  # noqa: PLC0415

    x, a, b = sp.symbols("x a b", nonnegative=True)
    big_m, big_g, d = sp.symbols("M G d", positive=True)
    s = x**2
    if not ff and not edw:
        expr = dy.relativistic_breit_wigner(s, big_m, big_g)
    elif ff and not edw:
        expr = dy.FormFactor(s, a, b, ell, d) * dy.relativistic_breit_wigner(s, big_m, big_g)
    elif ff and edw:
        expr = dy.relativistic_breit_wigner_with_ff(s, big_m, big_g, a, b, ell, d, phsp_factor=phsp)
    else:
        width = dy.EnergyDependentWidth(s, big_m, big_g, a, b, ell, d, phsp_factor=phsp)
        expr = big_m * big_g / (big_m**2 - s - width * big_m * sp.I)
    return expr, (x, a, b, big_m, big_g, d)


def eval_builder(case):  # noqa: C901, PLR0912, PLR0914, PLR0915
    import sympy as sp  # noqa: PLC0415
    from ampform.dynamics import builder as bmod  # noqa: PLC0415
    from ampform.dynamics import phasespace  # noqa: PLC0415
    from qrules.particle import Parity, Particle  # noqa: PLC0415

    rec = Rec()
    ell, seed, tier = case["L"], case["seed"], case["tier"]
    if case["builder"] == "class":
        ff, edw, phsp_name = case["ff"], case["edw"], case["phsp"]
        phsp = None if phsp_name is None else getattr(phasespace, phsp_name)
        build = bmod.RelativisticBreitWignerBuilder(
            form_factor=ff, energy_dependent_width=edw, phsp_factor=phsp)
        label = f"RelativisticBreitWignerBuilder(ff={ff}, edw={edw}, phsp={phsp_name})"
    else:
        build = getattr(bmod, case["builder"])
        ff, edw, phsp_name = {
            "create_relativistic_breit_wigner": (False, False, None),
            "create_relativistic_breit_wigner_with_ff": (True, True, "PhaseSpaceFactor"),
            "create_analytic_breit_wigner": (True, True, "EqualMassPhaseSpaceFactor"),
        }[case["builder"]]
        label = case["builder"]
    eff_phsp_name = phsp_name or "PhaseSpaceFactor"  # documented default
    eff_phsp = getattr(phasespace, eff_phsp_name)
    tags = ["kind:builder", f"builder:{label}", f"L:{ell}"]
    m_in, m_1, m_2, theta, phi = sp.symbols("m_12 m_1 m_2 theta_1^12 phi_1^12", nonnegative=True)
    pool = bmod.TwoBodyKinematicVariableSet(
        incoming_state_mass=m_in, outgoing_state_mass1=m_1, outgoing_state_mass2=m_2,
        helicity_theta=theta, helicity_phi=phi, angular_momentum=ell)
    pool_syms = {m_in, m_1, m_2, theta, phi}
    needs_l = ff or edw
    cses = (False, True) if tier == "thorough" else (False,)
    fn_cache: dict = {}
    lam_cache: dict = {}
    sample = {"kind": "builder", "builder": label, "L": ell}

    for latex in ("set", "unset"):
        for cfg, m1, m2, mass0, width0 in resonance_configs(seed, tier):
            res = Particle(name="R(1500)", pid=9900150, spin=1, mass=mass0, width=width0,
                           parity=Parity(1), latex=R"R_{1500}" if latex == "set" else None)
            # ---------------------------------------------------- call the builder
            if ell is None and needs_l:
                rec.n += 1
                rec.non.add(("builder:L=None->ValueError", label, latex))
                try:
                    build(res, pool)
                except ValueError:
                    rec.out["ValueError(L=None, documented)"] += 1
                else:
                    rec.fail(("noraise", latex), f"{label}: L=None but no ValueError raised", tags)
                continue
            expr, defaults = build(res, pool)
            # ------------------------------------------------ parameter defaults
            rec.n += 1
            rec.non.add(("builder:defaults", label, ell, latex, cfg))
            want_vals = sorted([mass0, width0] + ([1.0] if needs_l else []))
            got_vals = sorted(float(v) for v in defaults.values())
            free = set(expr.free_symbols) - pool_syms
            ident = res.latex or res.name
            if got_vals != want_vals or not free <= set(defaults) or not all(
                    ident in k.name for k in defaults):
                rec.fail(("defaults", latex),
                         f"{label} L={ell} latex {latex}: parameter defaults {defaults!r} are not"
                         f" {{mass {mass0!r}, width {width0!r}" + (", radius 1" if needs_l else "")
                         + f"}} named after {ident!r}, or the expression has parameters without a"
                         f" default: {sorted(map(str, free - set(defaults)))}",
                         [*tags, "oracle:defaults"])
            else:
                rec.out["defaults=mass,width[,radius 1]"] += 1
            if theta in expr.free_symbols or phi in expr.free_symbols:
                rec.fail(("angles", latex), f"{label}: line shape depends on helicity angles", tags)
            # ------------------------------- numeric evaluation of both APIs
            params = sorted(defaults, key=lambda k: k.name)
            pts = m_lattice(m1, m2, mass0, seed)
            xs = list(pts.values())
            for cse in cses:
                lkey = (latex, cse)
                if lkey not in lam_cache or lam_cache[lkey][0] != expr:
                    lam_cache[lkey] = (expr, sp.lambdify(
                        (m_in, m_1, m_2, *params), expr.doit(), "numpy", cse=cse))
                f_b = lam_cache[lkey][1]
                if cse not in fn_cache:
                    fexpr, fargs = _documented_composition(ff, edw, eff_phsp, ell)
                    fn_cache[cse] = sp.lambdify(fargs, fexpr.doit(), "numpy", cse=cse)
                f_f = fn_cache[cse]
                for dtype in ("real", "complex"):
                    np_t = float if dtype == "real" else complex
                    got = _call(f_b, [xs, m1, m2, *[float(defaults[k]) for k in params]], np_t)
                    fun = _call(f_f, [xs, m1, m2, mass0, width0, 1.0], np_t)
                    for (pname, xv), gv, fv in zip(pts.items(), got, fun):
                        tail = (label, ell, latex, cfg, pname, cse, dtype)
                        what = (f"{label} L={ell} latex {latex}, resonance m0={mass0!r}"
                                f" G0={width0!r}, decay masses {m1!r},{m2!r}, m={xv!r} ({dtype}"
                                f" dtype, cse={cse})")
                        if _isnan(gv) and _isnan(fv):
                            # NaN never agrees: counted, not compared
                            key = ("skipped_nan_both_real_dtype" if dtype == "real"
                                   else "skipped_nan_both_complex_dtype")
                            rec.counters[key] += 1
                            rec.out["skipped:NaN on both sides"] += 1
                            continue
                        want = fv if not _isnan(fv) else gv
                        have = gv if not _isnan(fv) else fv
                        sv = xv * xv
                        # the two APIs print rho^CM differently: float64 error of the
                        # Chew-Mandelstam logarithm (vp.ref.dyn.kappa_cm) does not cancel
                        extra = 0.0
                        if edw and eff_phsp_name == "PhaseSpaceFactorSWave":
                            gam = dyn.energy_dependent_width(sv, mass0, width0, m1, m2, ell, 1.0,
                                                             eff_phsp_name)
                            grow = 1.0 if _isnan(gam) else max(1.0, abs(gam) / width0)
                            extra = 16 * grow * max(1.0, mass0 / width0) * (
                                dyn.kappa_cm(sv, m1, m2) / abs(dyn.rho_cm(sv, m1, m2))
                                + dyn.kappa_cm(mass0**2, m1, m2) / abs(dyn.rho_cm(mass0**2, m1, m2)))
                        rec.close(("api", latex, dtype, pname), ("builder=function", *tail), have,
                                  want, (1e-10 + extra) * max(1.0, abs(want)),
                                  f"{what}: builder expression != documented function composition",
                                  [*tags, "oracle:builder=function"])
                        # closed-form reference (where defined)
                        if not needs_l:
                            ref = dyn.relativistic_breit_wigner(sv, mass0, width0)
                        elif ff and not edw:
                            ref = dyn.form_factor(sv, m1, m2, ell) * dyn.relativistic_breit_wigner(
                                sv, mass0, width0)
                        else:
                            ref = dyn.breit_wigner_energy_dependent(
                                sv, mass0, width0, m1, m2, ell, 1.0, eff_phsp_name, with_ff=ff)
                        if _isnan(ref):
                            rec.counters["no_reference_value"] += 1
                            continue
                        c = max(dyn.cond(sv, m1, m2), dyn.cond(mass0**2, m1, m2))
                        tol = (1e-9 + extra + 256 * U * c * (1 + (ell or 0))
                               * max(1.0, mass0 / width0)) * max(1.0, abs(ref))
                        rec.close(("ref", latex, dtype, pname), ("builder=ref", *tail), gv, ref, tol,
                                  f"{what}: builder expression != closed-form reference",
                                  [*tags, "oracle:ref"])
                    if "values" not in sample and cfg == "unequal":
                        sample["values"] = {p: repr(complex(v)) for p, v in zip(pts, got)}
                        sample["defaults"] = {str(k): float(v) for k, v in defaults.items()}
    return rec.result(sample)


# ================================================================== dispatch
def eval_case(case):
    return {"bw": eval_bw, "hist": eval_hist, "width": eval_width,
            "builder": eval_builder}[case["kind"]](case)


def finalize(ctx):
    ctx.extra["lattice"] = {
        "z": "1e-8,1e-7,1e-6,1e-4,1e-2,0.5,1,2,10,1e3,1e6 + seed-shifted 10^(-6+12 irr)",
        "width": "masses {unequal, swapped, equal, ratio 1e3, seed-shifted}; m0 in {1.5 sqrt(thr),"
                 " 7 sqrt(thr), (1+1e-3) sqrt(thr), seed-shifted above, between thresholds};"
                 " radius in {0.5, 1, 3+irr}; s in {between, thr(1+1e-6), 1.2 thr, mid, 1.1 m0^2,"
                 " (1.5+irr) m0^2, 40 thr}",
        "builder": "m in {0.5 rt, irr rt, rt(1-1e-6), rt(1+1e-6), between, m0 exactly, m0(1+-irr),"
                   " 3 max(m0, rt)} with rt = m1+m2; resonances above and below threshold",
    }
