"""C13 - dynamics attach to the right decay with the right variables and defaults.

Engine SEQ with merging.  State = the selector's map decay -> builder tag; transition =
one `builder.dynamics.assign(selection, builder)` executed on the real selector; BFS over
all assignment histories of bounded depth, merging states with equal maps.  For every
state a fresh builder is made, the history that first reached the state is replayed and
`formulate()` is called; every transition out of a state is executed on the live
selector and compared with the plain-dict selector model of `vp.ref.sets`.

Oracles in every state
  (map)   the real selector's map equals the reference map (keys incl. the decays of
          symmetrisation images);
  (spy)   SPY builders return an undefined function of everything a builder is handed;
          the set of SPY atoms of every chain component / amplitude sum equals the
          prediction (right nodes, nothing else, right variables of *that* node);
  (num)   metamorphic: the model of the state equals, numerically on a lattice, the
          "universal" model (every decay carries its own undefined function UNI_d) with
          UNI_d replaced by the public line-shape function of the predicted builder
          evaluated with the particle table's mass and width on the predicted
          variables - for every amplitude sum (all symmetrisation terms) and component;
  (par)   the non-coefficient parameter defaults are exactly those the predicted
          builders return for the predicted nodes, values = particle table (mass, width,
          radius 1); one name - one value;
  (err)   BW with form factor on a node without L (helicity formalism, half-integer
          parent): the documented ValueError, nothing else;
  (log)   an unknown name logs a warning and changes nothing; a known name logs none.
"""

from __future__ import annotations

import hashlib
import logging
import math
from fractions import Fraction

import numpy as np

from vp import reactions as R
from vp.ref import helicity as H
from vp.ref import sets as S
from vp.util import irr

PROPERTY = "C13"
LEVEL = "model_checking"
RULE = (
    "reactions: factory (1, 2, 3 resonances on one / two topologies; the same resonance in"
    " 2 and 3 topologies; a resonance name that is a prefix of another; 4-body cascade and"
    " two-resonance topology; canonical formalism with several L per decay and L != parent"
    " spin; half-integer parents; identical final-state particles whose exchange changes the"
    " topology) and catalogue (jpsi_gpipi_f0f2, jpsi_ksp_sigma_n, lc_pkpi, jpsi_gpipi_omega;"
    " .hel/.can); alphabet per (reaction, variant) = selections {every resonance name, an"
    " unknown name that is a proper prefix of a resonance name, Particle, TwoBodyDecay of a"
    " resonance node, TwoBodyDecay of an image-only node, (transition, node); 'full' variants"
    " add the initial-state name and the TwoBodyDecay of a root node} x builders = a subset of"
    " {non_dynamic, BW, BW+ff, analytic BW, SPY1, SPY2} (3-6 of them, rotated over the"
    " reactions so that every builder meets every reaction family; the variant is part of the"
    " reaction id in the samples); all assignment histories of depth <= 3 (quick) / 4"
    " (thorough; 3 for the 'full' variants, 2 for the heaviest canonical reactions), BFS with"
    " merging of equal selector maps; every state is re-built on a fresh builder by replaying"
    " its history and formulated; every transition is executed on the real selector;"
    " non-trivial = distinct (reaction variant, selector map) states in which the reference"
    " predicts >= 1 SPY atom and the spy oracle ran"
)
ASSUMPTIONS = [
    "merging: the selector's observable state is its map decay -> builder (checked against"
    " the reference on every transition), so equal maps have equal futures",
    "the numeric oracle evaluates both sides with one memoised interpreter (Add/Mul/Pow by"
    " recursion, WignerD by vp.ref.spin, every other node by sympy.lambdify of its doit())"
    " on a lattice of 4 points in the masses/angles; it is a lattice, not a proof",
    "parameter *names* are taken from calling the assigned builder on the predicted"
    " variable set (builder protocol); parameter *values* from the particle table",
    "which decays exist (incl. images) comes from vp.ref.helicity.permuted_graphs",
    "components['A_...'] of symmetrised chains hold only the last image (known quirk, not"
    " judged): SPY atoms of such chains are checked on the amplitude sums",
    "a collision of equal-named parameters with *different* tabulated values (two"
    " particles sharing a LaTeX name) makes the statement unsatisfiable and is not generated",
]
CHUNK = 1
TAGS = ["none", "bw", "bwff", "abw", "spy1", "spy2"]
FF_TAGS = ("bwff", "abw")
STATES_PER_SHARD = {"quick": 40, "thorough": 160}
G = 4  # lattice points


# ------------------------------------------------------------------ reactions
def _four_body(formalism, topo, JA="1", sX="1"):
    outer = {"-1": R.P("A", JA, 4.0, -1), "0": R.P("B", 0, 0.2, -1), "1": R.P("C", 0, 0.3, -1),
             "2": R.P("D", 0, 0.4, -1), "3": R.P("E", 0, 0.5, -1)}
    tp = R.isobar_topologies(4)[topo]
    inter = sorted(tp.intermediate_edge_ids)
    res = {str(inter[0]): R.P("R1", sX, 1.5, -1), str(inter[1]): R.P("R2", 1, 1.1, -1)}
    return {"formalism": formalism, "init": "full", "outer": outer,
            "chains": [{"n": 4, "topo": topo, "perm": [0, 1, 2, 3], "res": res,
                        "pc": {"0": False, "1": False, "2": False}}]}


T4A = ["none", "bw", "spy1", "spy2"]
T4B = ["none", "bwff", "abw", "spy1"]
T3 = ["none", "bwff", "spy1"]


def base_reactions() -> dict:
    out = {}
    r1, r2, r3 = R.P("R1", 1, 1.2, -1), R.P("R2", 0, 1.0, 1), R.P("R3", 1, 1.4, -1)
    r1x = R.P("R1x", 1, 1.3, -1)
    par = (-1, -1, -1, -1)
    for f, fs in (("helicity", "hel"), ("canonical-helicity", "can")):
        out[f"one-res.{fs}"] = R.three_body_spec(1, 0, 0, 0, [(0, r1, False, False)], parities=par, formalism=f)
        out[f"two-res-one-topology.{fs}"] = R.three_body_spec(
            1, 0, 0, 0, [(0, r1, False, False), (0, r2, False, False)], parities=par, formalism=f)
        out[f"two-res-two-topologies.{fs}"] = R.three_body_spec(
            1, 0, 0, 0, [(0, r1, False, False), (1, r3, False, False)], parities=par, formalism=f)
        out[f"same-res-three-topologies.{fs}"] = R.three_body_spec(
            1, 0, 0, 0, [(0, r1, True, True), (1, r1, True, True), (2, r1, True, True)], parities=par, formalism=f)
        out[f"three-res.{fs}"] = R.three_body_spec(
            1, 0, 0, 0, [(0, r1, False, False), (0, r2, False, False), (1, r3, False, False)],
            parities=par, formalism=f)
        # half-integer parents: no L at all in the helicity formalism
        out[f"half-integer-res.{fs}"] = R.three_body_spec(
            1, "1/2", "1/2", 0, [(0, R.P("R4", "1/2", 1.2, 1), False, False),
                                 (1, R.P("R5", "1/2", 1.5, -1), False, False)],
            parities=(-1, 1, -1, -1), formalism=f)
        # identical spin-0 particles: the exchange moves the resonance to another topology
        spec = R.three_body_spec(1, 1, 0, 0, [(1, R.P("R6", 1, 0.8, -1), False, False)],
                                 parities=par, formalism=f, masses=(3.0, 0.0, 0.14, 0.14))
        spec["outer"]["2"] = spec["outer"]["1"]
        out[f"identical-particles-image.{fs}"] = spec
        for topo in (0, 1):
            out[f"four-body-topology{topo}.{fs}"] = _four_body(f, topo)
    out["same-res-two-topologies+prefix-name.hel"] = R.three_body_spec(
        1, 0, 0, 0, [(0, r1, False, False), (2, r1, False, False), (0, r1x, False, False)],
        parities=par, formalism="helicity")
    # canonical formalism, several (L, S) for one decay, L != parent spin
    # (the resonance decays into spin 1 + spin 0 with L in {0, 2}, never its own spin 1)
    out["several-L.can"] = R.three_body_spec(
        1, 1, 0, 0, [(2, R.P("R1", 1, 1.2, -1), True, True)], parities=(-1, 1, -1, -1),
        formalism="canonical-helicity")
    out["several-L-spin2.can"] = R.three_body_spec(
        1, 0, 0, 0, [(0, R.P("R2", 2, 1.2, 1), False, False), (1, r3, False, False)], parities=par,
        formalism="canonical-helicity")
    return out


# (reaction, selections, builder tags, depth); "full" = "cat" + initial-state name + root decay
TA, TB, TC, TD = ["none", "bw", "spy1"], ["none", "bwff", "spy2"], ["none", "abw", "spy1"], ["none", "spy1", "spy2"]
QUICK = [
    ("one-res.hel", "full", T4A, 3), ("one-res.can", "full", TB, 3),
    ("two-res-one-topology.hel", "full", TC, 3), ("two-res-one-topology.can", "cat", T4A, 3),
    ("two-res-two-topologies.hel", "cat", T4A, 3), ("two-res-two-topologies.can", "cat", TD, 3),
    ("same-res-three-topologies.hel", "cat", TAGS, 3), ("same-res-three-topologies.can", "cat", T4A, 3),
    ("three-res.hel", "cat", T4A, 3), ("three-res.can", "cat", TA, 2),
    ("same-res-two-topologies+prefix-name.hel", "cat", T4B, 3),
    ("several-L.can", "cat", T4B, 3), ("several-L-spin2.can", "cat", TC, 3),
    ("half-integer-res.hel", "cat", T4B, 3),
    ("identical-particles-image.hel", "cat", T4A, 3), ("identical-particles-image.hel", "cat", TB, 3),
    ("four-body-topology0.hel", "cat", T4A, 3), ("four-body-topology1.hel", "cat", T4B, 3),
    ("jpsi_gpipi_f0f2.hel", "cat", TAGS, 3), ("jpsi_gpipi_f0f2.can", "cat", T4B, 3),
    ("jpsi_gpipi_omega.hel", "cat", T4B, 3), ("jpsi_gpipi_omega.can", "cat", TB, 3),
    ("lc_pkpi.hel", "cat", TA, 3), ("lc_pkpi.can", "cat", ["bwff", "spy1"], 2),
    ("jpsi_ksp_sigma_n.hel", "cat", T4B, 3), ("jpsi_ksp_sigma_n.can", "cat", TB, 2),
    # helicity-coupling mode
    ("one-res.hel+H", "cat", T4A, 2), ("two-res-two-topologies.can+H", "cat", TD, 2),
    ("jpsi_gpipi_f0f2.hel+H", "cat", T4B, 2),
]
HEAVY = {"half-integer-res.can", "identical-particles-image.can", "four-body-topology0.can",
         "four-body-topology1.can"}
FULL_D3 = {"one-res.hel", "identical-particles-image.hel"}
D4_REDUCED = {"two-res-two-topologies.can", "three-res.can", "several-L-spin2.can", "three-res.hel",
              "four-body-topology1.hel", "two-res-two-topologies.hel"}


def thorough_table() -> list:
    out = []
    for name in base_reactions():
        if name in HEAVY:
            out.append((name, "cat", TB if "half" not in name else TC, 2))
            continue
        out.append((name, "cat", TAGS if name not in D4_REDUCED else T4A, 4))
        if name in FULL_D3:
            out.append((name, "full", TAGS, 3))
        elif name.endswith(".hel"):
            out.append((name, "full", T4B, 3))
        else:
            out.append((name, "full", T4A if "several" not in name else T4B, 3))
    out += [
        ("jpsi_gpipi_f0f2.hel", "cat", TAGS, 4), ("jpsi_gpipi_f0f2.hel", "full", TAGS, 3),
        ("jpsi_gpipi_f0f2.can", "cat", TAGS, 4), ("jpsi_gpipi_f0f2.can", "full", T4B, 3),
        ("jpsi_gpipi_omega.hel", "cat", TAGS, 4), ("jpsi_gpipi_omega.hel", "full", T4A, 3),
        ("jpsi_gpipi_omega.can", "cat", T4A, 4), ("jpsi_gpipi_omega.can", "full", T4B, 3),
        ("lc_pkpi.hel", "cat", TAGS, 3), ("lc_pkpi.hel", "cat", T4A, 4), ("lc_pkpi.can", "cat", T4B, 3),
        ("jpsi_ksp_sigma_n.hel", "cat", T4B, 4), ("jpsi_ksp_sigma_n.can", "cat", T4B, 3),
        # helicity-coupling mode
        ("one-res.hel+H", "cat", TAGS, 3), ("two-res-two-topologies.can+H", "cat", TD, 3),
        ("jpsi_gpipi_f0f2.hel+H", "cat", T4B, 3), ("same-res-three-topologies.hel+H", "cat", T4A, 3),
        ("identical-particles-image.hel+H", "cat", T4A, 3),
    ]
    return out


def reaction_list(tier: str) -> list[dict]:
    """[{rid, reaction, tags, depth, sel}] - `sel` picks the selection families."""
    base = base_reactions()
    out = []
    for name, sel, tags, depth in (QUICK if tier == "quick" else thorough_table()):
        couplings = name.endswith("+H")  # the same reaction in helicity-coupling mode
        plain = name[:-2] if couplings else name
        rdesc = {"spec": base[plain]} if plain in base else {"catalogue": plain}
        out.append({"rid": f"{name}|{sel}|{len(tags)}tags|d{depth}", "name": name, "reaction": rdesc,
                    "tags": list(tags), "depth": depth, "sel": sel, "couplings": couplings})
    return out


# ------------------------------------------------------------------ alphabet
def build_alphabet(reaction, nodes, entry) -> tuple[list, list]:
    """(selections, ops); JSON-able, deterministic."""
    init = next(iter(reaction.initial_state.values())).name
    all_names = {n["parent_name"] for n in nodes}
    for t in reaction.transitions:
        all_names |= {s.particle.name for s in t.states.values()}
    res = sorted({n["parent_name"] for n in nodes if n["parent_name"] != init})
    sels = [["name", n] for n in res]
    unknown = res[0][:-1]
    if unknown in all_names or not unknown:
        unknown = res[0] + "?"
    sels.append(["name", unknown])
    if entry["sel"] == "full":
        sels.append(["name", init])
    sels.append(["particle", res[-1]])
    where = {}
    for n in nodes:
        where.setdefault(n["key"], [n["ti"], n["gi"], n["node"]])
    orig_keys = {n["key"] for n in nodes if n["gi"] == 0}
    res_keys = [k for k in where if k[0][1] != init]
    img_only = [k for k in res_keys if k not in orig_keys]
    chosen = [res_keys[0]]
    if img_only:
        chosen.append(img_only[0])
    sels += [["decay", where[k]] for k in chosen]
    rest = [k for k in res_keys if k not in chosen]
    if rest:
        sels.append(["tnode", where[rest[-1]]])
    if entry["sel"] == "full":
        root_keys = [k for k in where if k[0][1] == init]
        sels.append(["decay", where[root_keys[len(root_keys) // 2]]])
    ops = [[*s, tag] for s in sels for tag in entry["tags"]]
    return sels, ops


def ref_apply(model: S.SelectorModel, op, key_of) -> bool:
    """Apply an op to the reference; returns whether a *name* selection found a decay."""
    kind, what, tag = op
    if kind in {"name", "particle"}:
        return model.assign_name(what, tag)
    model.assign_key(key_of[tuple(what)], tag)
    return True


def explore(nodes, ops, depth):
    """Reference BFS with merging -> ordered [(canon, history, depth, model)]."""
    key_of = {(n["ti"], n["gi"], n["node"]): n["key"] for n in nodes}
    m0 = S.SelectorModel(nodes)
    seen = {m0.canon(): 0}
    order = [(m0.canon(), [], 0, m0)]
    frontier = [0]
    for d in range(depth):
        new = []
        for si in frontier:
            _, hist, _, model = order[si]
            for oi, op in enumerate(ops):
                m2 = model.copy()
                ref_apply(m2, op, key_of)
                c2 = m2.canon()
                if c2 not in seen:
                    seen[c2] = len(order)
                    order.append((c2, [*hist, oi], d + 1, m2))
                    new.append(seen[c2])
        frontier = new
    return order, key_of


def cases(tier, seed):
    out = []
    for entry in reaction_list(tier):
        reaction = R.reaction_from(entry["reaction"])
        nodes, _ = S.enumerate_nodes(reaction)
        _, ops = build_alphabet(reaction, nodes, entry)
        order, _ = explore(nodes, ops, entry["depth"])
        nshards = max(1, math.ceil(len(order) / STATES_PER_SHARD[tier]))
        for shard in range(nshards):
            out.append({**entry, "shard": shard, "nshards": nshards, "seed": seed, "tier": tier,
                        "n_states": len(order)})
    # big shards first (pool balance)
    out.sort(key=lambda c: (-min(c["n_states"], STATES_PER_SHARD[tier]), c["rid"], c["shard"]))
    return out


# ------------------------------------------------------------------ builders
def _stable(text: str, k: int = 0) -> float:
    h = hashlib.sha256(f"{k}:{text}".encode()).digest()
    return int.from_bytes(h[:6], "big") / 2**48


_BUILDERS = {}


def builders():
    if _BUILDERS:
        return _BUILDERS
    import sympy as sp  # noqa: PLC0415
    from ampform.dynamics.builder import (  # noqa: PLC0415
        create_analytic_breit_wigner,
        create_non_dynamic,
        create_relativistic_breit_wigner,
        create_relativistic_breit_wigner_with_ff,
    )

    def spy(tag):
        fn = sp.Function(f"SPY{tag}")

        def builder(resonance, v):
            L = -1 if v.angular_momentum is None else v.angular_momentum
            expr = fn(sp.Symbol(resonance.name), v.incoming_state_mass, v.outgoing_state_mass1,
                      v.outgoing_state_mass2, L, v.helicity_phi, v.helicity_theta)
            return expr, {sp.Symbol(f"par{tag}_{resonance.name}"): resonance.mass}

        return builder

    _BUILDERS.update({
        "none": create_non_dynamic, "bw": create_relativistic_breit_wigner,
        "bwff": create_relativistic_breit_wigner_with_ff, "abw": create_analytic_breit_wigner,
        "spy1": spy(1), "spy2": spy(2),
    })
    return _BUILDERS


def tag_of(fn) -> str:
    for tag, b in builders().items():
        if fn is b or fn == b:
            return tag
    return f"?{fn!r}"


_UNI = {}


def uni_builder(i: int):
    import sympy as sp  # noqa: PLC0415

    if i not in _UNI:
        fn = sp.Function(f"UNI{i}")

        def builder(resonance, v, fn=fn):
            L = -1 if v.angular_momentum is None else v.angular_momentum
            return fn(v.incoming_state_mass, v.outgoing_state_mass1, v.outgoing_state_mass2, L,
                      v.helicity_phi, v.helicity_theta), {}

        _UNI[i] = builder
    return _UNI[i]


# ------------------------------------------------------------------ numerics
def spy_standin(k, name, m_in, m1, m2, L, phi, theta):
    return ((0.3 + 0.17 * k + _stable(name)) + 1.1 * m_in + 0.7 * m1**2 - 0.45 * m2**3
            + 0.21 * (L + 2) ** 2 * m_in * m1 + 1j * (0.3 * phi + 0.17 * theta**2 + 0.05 * k * m2))


_LINESHAPE_FN = {}


def lineshape_fn(tag, mass, width, L):
    """Public line-shape function with the table's numbers, lambdified over (m_in, m1, m2)."""
    import sympy as sp  # noqa: PLC0415
    from ampform.dynamics import relativistic_breit_wigner, relativistic_breit_wigner_with_ff  # noqa: PLC0415
    from ampform.dynamics.phasespace import EqualMassPhaseSpaceFactor, PhaseSpaceFactor  # noqa: PLC0415

    key = (tag, mass, width, L)
    if key not in _LINESHAPE_FN:
        x, a, b = sp.symbols("x a b", nonnegative=True)
        if tag == "bw":
            expr = relativistic_breit_wigner(x**2, sp.Float(mass), sp.Float(width))
        else:
            phsp = PhaseSpaceFactor if tag == "bwff" else EqualMassPhaseSpaceFactor
            expr = relativistic_breit_wigner_with_ff(x**2, sp.Float(mass), sp.Float(width), a, b, L, 1, phsp)
        _LINESHAPE_FN[key] = sp.lambdify([x, a, b], expr.doit(), "numpy")
    return _LINESHAPE_FN[key]


_LEAF_FN = {}


class Unevaluable(Exception):
    pass


class Interp:
    """Memoised numeric interpreter (one instance per environment)."""

    def __init__(self, env: dict, undef=None, amplitudes=None) -> None:
        self.env = env
        self.undef = undef or {}
        self.amplitudes = amplitudes  # {Indexed: definition} for models given by `intensity`
        self.memo = {}

    def __call__(self, e):
        try:
            return self.memo[e]
        except KeyError:
            pass
        v = self._eval(e)
        self.memo[e] = v
        return v

    def _eval(self, e):
        import sympy as sp  # noqa: PLC0415
        from sympy.core.function import AppliedUndef  # noqa: PLC0415
        from sympy.physics.quantum.spin import WignerD  # noqa: PLC0415

        from vp.ref import spin as refspin  # noqa: PLC0415

        if e.is_Symbol:
            if e.name not in self.env:
                raise Unevaluable(e.name)
            return self.env[e.name]
        if e.is_Number or e.is_NumberSymbol:
            return float(e)
        if e is sp.I:
            return 1j
        if e.is_Add:
            tot = 0.0
            for a in e.args:
                tot = tot + self(a)
            return tot
        if e.is_Mul:
            tot = 1.0
            for a in e.args:
                tot = tot * self(a)
            return tot
        if e.is_Pow:
            base, ex = self(e.base), self(e.exp)
            return np.asarray(base, dtype=complex) ** ex if not (e.exp.is_Integer) else base ** int(e.exp)
        if isinstance(e, AppliedUndef):
            name = e.func.__name__
            for prefix, fn in self.undef.items():
                if name.startswith(prefix):
                    return fn(self, e)
            raise Unevaluable(name)
        if isinstance(e, WignerD):
            j, m, mp = (Fraction(int(x.p), int(x.q)) for x in e.args[:3])
            return refspin.wigner_D(j, m, mp, self(e.args[3]), self(e.args[4]), self(e.args[5]))
        if isinstance(e, sp.Abs):
            return np.abs(self(e.args[0]))
        if isinstance(e, sp.conjugate):
            return np.conj(self(e.args[0]))
        if type(e).__name__ == "PoolSum":
            import itertools  # noqa: PLC0415

            idx = [i for i, _ in e.indices]
            tot = 0.0
            for combo in itertools.product(*[pool for _, pool in e.indices]):
                tot = tot + self(e.expression.xreplace(dict(zip(idx, combo))))
            return tot
        if isinstance(e, sp.Indexed):
            if self.amplitudes is None or e not in self.amplitudes:
                raise Unevaluable(str(e))
            return self(self.amplitudes[e])
        # any other node: the library's own doit() and NumPy printer
        if e not in _LEAF_FN:
            free = sorted(e.free_symbols, key=lambda s: s.name)
            _LEAF_FN[e] = (free, sp.lambdify(free, e.doit(), "numpy"))
        free, fn = _LEAF_FN[e]
        for s in free:
            if s.name not in self.env:
                raise Unevaluable(s.name)
        with np.errstate(all="ignore"):
            return fn(*[self.env[s.name] for s in free])


def lattice_value(name: str, seed: int):
    """Generic value of a kinematic symbol on the G lattice points."""
    t = np.arange(G) / G
    if name.startswith("m_") and name[2:].isdigit():
        k = len(name) - 2
        base = 0.3 * k**1.6
        return base + 0.04 * (_stable(name) - 0.5) + 0.03 * ((t + irr(seed, 3)) % 1.0)
    if name.startswith("phi"):
        return -math.pi + 2 * math.pi * ((_stable(name) + 0.61803 * t + irr(seed, 5)) % 1.0)
    if name.startswith("theta"):
        return 0.05 + (math.pi - 0.1) * ((_stable(name) + 0.41421 * t + irr(seed, 7)) % 1.0)
    return None


def coefficient_value(name: str):
    return complex(0.4 + _stable(name, 1), _stable(name, 2) - 0.5)


def close(a, b) -> bool:
    a = np.broadcast_to(np.asarray(a, dtype=complex), (G,)) if np.ndim(a) == 0 else np.asarray(a, dtype=complex)
    b = np.broadcast_to(np.asarray(b, dtype=complex), (G,)) if np.ndim(b) == 0 else np.asarray(b, dtype=complex)
    if np.any(np.isnan(a)) or np.any(np.isnan(b)):
        return False
    scale = max(float(np.max(np.abs(b))), float(np.max(np.abs(a))), 1e-3)
    return bool(np.max(np.abs(a - b)) <= 1e-9 * scale)


# ------------------------------------------------------------------ set-up
_SETUP = {}


def new_builder(reaction, couplings: bool):
    """A fresh builder; `couplings`: helicity-coupling mode (a builder configuration in which
    assigned dynamics must attach exactly as in coefficient mode)."""
    import ampform  # noqa: PLC0415

    b = ampform.get_builder(reaction)
    if couplings:
        b.config.use_helicity_couplings = True
    return b


class Setup:
    def __init__(self, entry, seed) -> None:
        import ampform  # noqa: PLC0415
        from ampform.helicity.decay import TwoBodyDecay  # noqa: PLC0415
        from ampform.helicity.naming import create_amplitude_symbol  # noqa: PLC0415

        self.entry = entry
        self.seed = seed
        self.couplings = bool(entry.get("couplings"))
        self.reaction = R.reaction_from(entry["reaction"])
        self.canonical = self.reaction.formalism != "helicity"
        self.nodes, self.images = S.enumerate_nodes(self.reaction)
        self.sels, self.ops = build_alphabet(self.reaction, self.nodes, entry)
        self.order, self.key_of = explore(self.nodes, self.ops, entry["depth"])
        self.keys = list(S.SelectorModel(self.nodes).parent)
        self.key_index = {k: i for i, k in enumerate(self.keys)}
        self.nodes_of_key = {}
        for n in self.nodes:
            self.nodes_of_key.setdefault(n["key"], []).append(n)
        self.particles = {p.name: p for t in self.reaction.transitions for p in
                          (s.particle for s in t.states.values())}
        self.lib_decay = {}
        for n in self.nodes:
            if n["key"] not in self.lib_decay:
                g = self.images[n["ti"]][n["gi"]]
                self.lib_decay[n["key"]] = TwoBodyDecay.from_transition(g, n["node"])
        # names of chains and of amplitude sums
        b = new_builder(self.reaction, self.couplings)
        self.chain_name = {}
        self.amp_of = {}
        for ti, t in enumerate(self.reaction.transitions):
            self.chain_name[ti] = "A_{" + b.naming.generate_amplitude_name(t) + "}"
            self.amp_of[ti] = create_amplitude_symbol(t)
        counts = {}
        for name in self.chain_name.values():
            counts[name] = counts.get(name, 0) + 1
        self.plain_chain = {ti for ti, name in self.chain_name.items()
                            if counts[name] == 1 and len(self.images[ti]) == 1}
        self.n_imaged = sum(1 for ti in self.images if len(self.images[ti]) > 1)
        self.universal = None
        self.universal_violations = []
        self.env0 = None

    # -- library objects ------------------------------------------------
    def apply_real(self, selector, op) -> None:
        kind, what, tag = op
        fn = builders()[tag]
        if kind == "name":
            selector.assign(what, fn)
        elif kind == "particle":
            selector.assign(self.particles[what], fn)
        elif kind == "decay":
            selector.assign(self.lib_decay[self.key_of[tuple(what)]], fn)
        else:
            ti, gi, node = what
            selector.assign((self.images[ti][gi], node), fn)

    def read_map(self, selector) -> dict:
        out = {}
        for decay, fn in selector.items():
            k = S.lib_decay_key(decay)
            if k in out:
                out[k] = "?duplicate"
            else:
                out[k] = tag_of(fn)
        return out

    # -- the universal model ----------------------------------------------
    def get_universal(self):
        import ampform  # noqa: PLC0415

        if self.universal is None:
            b = new_builder(self.reaction, self.couplings)
            for k, i in self.key_index.items():
                b.dynamics.assign(self.lib_decay[k], uni_builder(i))
            model = b.formulate()
            self.universal = model
            # the reference must itself carry the right atoms: UNI_d on d's own variables
            want = {}
            for n in self.nodes:
                v = n["vars"]
                atom = (self.key_index[n["key"]], v["m_in"], v["m1"], v["m2"],
                        -1 if v["L"] is None else v["L"], v["phi"], v["theta"])
                want.setdefault(self.amp_of[n["ti"]], set()).add(atom)
            for sym, expr in model.amplitudes.items():
                got = {(int(a.func.__name__[3:]), *_atom_args(a.args)) for a in _undef_atoms(expr, "UNI")}
                if got != want.get(sym, set()):
                    self.universal_violations.append(
                        f"one builder per decay: amplitude {sym} carries {_fmt(got - want.get(sym, set()))}"
                        f" but not {_fmt(want.get(sym, set()) - got)}")
        return self.universal

    def environment(self, names) -> dict:
        env = {}
        for name in names:
            v = lattice_value(name, self.seed)
            if v is not None:
                env[name] = v
        return env


def _undef_atoms(expr, prefix):
    from sympy.core.function import AppliedUndef  # noqa: PLC0415

    return [a for a in expr.atoms(AppliedUndef) if a.func.__name__.startswith(prefix)]


def _atom_args(args):
    m_in, m1, m2, L, phi, theta = args
    return (m_in.name, m1.name, m2.name, int(L), phi.name, theta.name)


def _fmt(atoms) -> str:
    return "{" + ", ".join(str(a) for a in sorted(atoms, key=str)[:4]) + (", ..." if len(atoms) > 4 else "") + "}"


def get_setup(case) -> Setup:
    key = (case["rid"], case["tier"], case.get("seed", 0))
    if key not in _SETUP:
        _SETUP.clear()
        _SETUP[key] = Setup({k: case.get(k) for k in ("rid", "name", "reaction", "tags", "depth", "sel", "couplings")},
                            case.get("seed", 0))
    return _SETUP[key]


class _Capture(logging.Handler):
    def __init__(self) -> None:
        super().__init__(level=logging.WARNING)
        self.records = []

    def emit(self, record) -> None:
        self.records.append(record.getMessage())


# ------------------------------------------------------------------ evaluation
def eval_case(case):
    import ampform  # noqa: PLC0415

    from vp.core import lib_exception_violation  # noqa: PLC0415

    su = get_setup(case)
    rid = case["rid"]
    viol, outcomes, nontrivial, counters = [], {}, [], {}
    n_eval = n_states = n_trans = n_traces = 0
    sample = None
    feats = [f"reaction:{case['name']}", f"formalism:{'canonical' if su.canonical else 'helicity'}"]
    if su.n_imaged:
        feats.append("symmetrised-images")

    def bad(kind, msg, hist, extra=()):
        viol.append({
            "msg": f"{kind}: {msg} [{rid}; history {describe_history(su, hist)}]",
            "tags": [kind, *feats, *extra],
            "detail": {"history": [su.ops[o] for o in hist]},
        })

    def count(o):
        outcomes[o] = outcomes.get(o, 0) + 1

    # initial registration: the selector knows exactly the decays of all chains + images
    if case["shard"] == 0:
        b0 = new_builder(su.reaction, su.couplings)
        got = su.read_map(b0.dynamics)
        n_eval += 1
        if set(got) != set(su.keys):
            missing = [k for k in su.keys if k not in got]
            extra = [k for k in got if k not in su.key_index]
            bad("registered-decays", f"selector registers {len(got)} decays, reference {len(su.keys)};"
                f" missing e.g. {missing[:1]}, unexpected e.g. {extra[:1]}", [])
        su.get_universal()
        for msg in su.universal_violations:
            bad("decay-variables", msg, [], ["universal-model"])
    logger = logging.getLogger("ampform.helicity")
    handler = _Capture()

    for si, (canon, hist, depth, ref) in enumerate(su.order):
        if si % case["nshards"] != case["shard"]:
            continue
        n_states += 1
        n_traces += 1
        builder = new_builder(su.reaction, su.couplings)
        for oi in hist:
            su.apply_real(builder.dynamics, su.ops[oi])
        real = su.read_map(builder.dynamics)
        n_eval += 1
        if real != ref.map:
            diff = [(k[0], real.get(k), ref.map.get(k)) for k in set(real) | set(ref.map)
                    if real.get(k) != ref.map.get(k)]
            bad("selector-map", f"{len(diff)} decays differ from the reference after replay, e.g."
                f" {diff[0][0]}: library {diff[0][1]}, reference {diff[0][2]}", hist)
            count("map-differs")
            continue
        # ---- formulate ------------------------------------------------------
        tag_at = [ref.map[n["key"]] for n in su.nodes]
        need_L = [n for n, tag in zip(su.nodes, tag_at) if tag in FF_TAGS and n["vars"]["L"] is None]
        model = None
        try:
            model = builder.formulate()
        except ValueError as exc:
            if lib_exception_violation(exc) is None:
                raise
            if need_L and "ngular momentum" in str(exc):
                count("documented-ValueError-no-L")
            else:
                bad("formulate-raises", f"ValueError: {exc}", hist)
                count("unexpected-exception")
        except Exception as exc:  # noqa: BLE001
            v = lib_exception_violation(exc)
            if v is None:
                raise
            bad("formulate-raises", v["msg"], hist)
            count("unexpected-exception")
        if model is not None:
            if need_L:
                # the statement does not demand the error; the other oracles do not apply
                count("formulated-although-L-undefined")
            else:
                res = check_model(su, model, ref, tag_at, hist, bad)
                n_eval += res["n"]
                count(res["outcome"])
                if res["spy_atoms"]:
                    nontrivial.append([rid, _canon_digest(canon)])
                for k, v in res["counters"].items():
                    counters[k] = counters.get(k, 0) + v
                if sample is None and res["spy_atoms"] and len(hist) >= 2:
                    sample = {"reaction": rid, "history": describe_history(su, hist),
                              "selector_map": _map_summary(ref),
                              "predicted_spy_atoms": res["example_atoms"],
                              "outcome": res["outcome"]}
        # ---- transitions out of this state ----------------------------------
        if depth >= su.entry["depth"]:
            continue
        selector = builder.dynamics
        before = dict(selector.items())
        for oi, op in enumerate(su.ops):
            n_trans += 1
            n_traces += 1
            n_eval += 1
            ref2 = ref.copy()
            found = ref_apply(ref2, op, su.key_of)
            handler.records.clear()
            logging.disable(logging.NOTSET)
            logger.addHandler(handler)
            try:
                su.apply_real(selector, op)
            finally:
                logger.removeHandler(handler)
                logging.disable(logging.CRITICAL)
            real2 = su.read_map(selector)
            warned = list(handler.records)
            if real2 != ref2.map:
                diff = [(k[0], real2.get(k), ref2.map.get(k)) for k in set(real2) | set(ref2.map)
                        if real2.get(k) != ref2.map.get(k)]
                bad("assign", f"assign({op[0]}:{_short(su, op)}, {op[2]}) -> {len(diff)} decays differ from the"
                    f" reference, e.g. {diff[0][0]}: library {diff[0][1]}, reference {diff[0][2]}", [*hist, oi],
                    [f"selection:{op[0]}"] + (["unknown-name"] if not found else []))
            if op[0] == "name" and not found:
                if not warned:
                    bad("no-warning", f"assign(unknown name {op[1]!r}) logged no warning", [*hist, oi],
                        ["unknown-name"])
                count("unknown-name-warned" if warned else "unknown-name-silent")
            elif handler.records:
                bad("spurious-warning", f"assign({op[0]}:{_short(su, op)}) logged {handler.records[:1]}", [*hist, oi])
            # restore the live selector through the public API; rebuild if that fails
            after = dict(selector.items())
            ok = set(after) == set(before)
            if ok:
                for d, fn in after.items():
                    if fn is not before[d]:
                        selector.assign(d, before[d])
                ok = all(fn is before[d] for d, fn in selector.items())
            if not ok:
                counters["selector_rebuilt"] = counters.get("selector_rebuilt", 0) + 1
                builder = new_builder(su.reaction, su.couplings)
                for o in hist:
                    su.apply_real(builder.dynamics, su.ops[o])
                selector = builder.dynamics
                before = dict(selector.items())
    res = {
        "violations": viol[:40],
        "evaluations": n_eval,
        "nontrivial": nontrivial,
        "outcomes": outcomes,
        "states": n_states,
        "transitions": n_trans,
        "traces": n_traces,
        "counters": {**counters, "violations_total": len(viol)} if viol else counters,
    }
    if case["shard"] == 0:
        res["counters"] = {**res["counters"], "reactions": 1, "decay_keys": len(su.keys),
                           "alphabet_ops": len(su.ops), "chains_with_images": su.n_imaged}
    if sample is not None:
        res["sample"] = sample
    return res


def _canon_digest(canon) -> str:
    return hashlib.sha256(repr(canon).encode()).hexdigest()[:16]


def _short(su, op) -> str:
    if op[0] in {"name", "particle"}:
        return str(op[1])
    key = su.key_of[tuple(op[1])]
    return f"{key[0][1]}[{key[0][2]:+g}]->{'+'.join(f'{c[1]}[{c[2]:+g}]#{c[0]}' for c in key[1])}"


def describe_history(su, hist) -> str:
    return " ; ".join(f"{su.ops[o][0]}:{_short(su, su.ops[o])}:={su.ops[o][2]}" for o in hist) or "<initial>"


def _map_summary(ref) -> dict:
    out = {}
    for k, tag in ref.map.items():
        if tag != "none":
            label = f"{k[0][1]}#{k[0][0]}->" + "+".join(f"#{c[0]}" for c in k[1])
            out.setdefault(tag, set()).add(label)
    return {t: sorted(v) for t, v in out.items()}


def check_model(su, model, ref, tag_at, hist, bad) -> dict:
    """Oracles (spy), (num), (par) on a formulated state."""
    import sympy as sp  # noqa: PLC0415
    from ampform.dynamics.builder import TwoBodyKinematicVariableSet  # noqa: PLC0415

    n = 0
    counters = {}
    tags_present = {t for t in tag_at if t != "none"}
    # ---------------- (spy) predicted atoms per (transition, image)
    pred_chain, pred_amp = {}, {}
    for node, tag in zip(su.nodes, tag_at):
        pred_chain.setdefault(node["ti"], set())
        pred_amp.setdefault(su.amp_of[node["ti"]], set())
        if tag.startswith("spy"):
            v = node["vars"]
            atom = (int(tag[3:]), node["parent_name"], v["m_in"], v["m1"], v["m2"],
                    -1 if v["L"] is None else v["L"], v["phi"], v["theta"])
            pred_chain[node["ti"]].add(atom)
            pred_amp[su.amp_of[node["ti"]]].add(atom)
    n_pred = sum(len(v) for v in pred_amp.values())

    def observed(expr):
        return {(int(a.func.__name__[3:]), str(a.args[0]), *_atom_args(a.args[1:]))
                for a in _undef_atoms(expr, "SPY")}

    ok_spy = True
    for ti in sorted(su.plain_chain):
        name = su.chain_name[ti]
        n += 1
        if name not in model.components:
            bad("component-missing", f"no component {name}", hist)
            ok_spy = False
            continue
        got = observed(model.components[name])
        if got != pred_chain.get(ti, set()):
            ok_spy = False
            bad("spy-atoms", f"component {name}: unexpected {_fmt(got - pred_chain[ti])}, missing"
                f" {_fmt(pred_chain[ti] - got)}", hist, _diff_tags(got, pred_chain[ti]))
    for sym, expr in model.amplitudes.items():
        n += 1
        got = observed(expr)
        want = pred_amp.get(sym, set())
        if got != want:
            ok_spy = False
            bad("spy-atoms", f"amplitude {sym}: unexpected {_fmt(got - want)}, missing {_fmt(want - got)}",
                hist, _diff_tags(got, want))
    counters["spy_atoms_predicted"] = n_pred
    # ---------------- (par) parameter defaults
    pred_par = {}
    clash = False
    for node, tag in zip(su.nodes, tag_at):
        if tag == "none":
            continue
        v = node["vars"]
        varset = TwoBodyKinematicVariableSet(
            incoming_state_mass=sp.Symbol(v["m_in"], nonnegative=True),
            outgoing_state_mass1=sp.Symbol(v["m1"], nonnegative=True),
            outgoing_state_mass2=sp.Symbol(v["m2"], nonnegative=True),
            helicity_theta=sp.Symbol(v["theta"], real=True),
            helicity_phi=sp.Symbol(v["phi"], real=True),
            angular_momentum=v["L"],
        )
        _, pars = builders()[tag](node["particle"], varset)
        p = node["particle"]
        if not tag.startswith("spy"):
            table = sorted([float(p.mass), float(p.width)] + ([1.0] if tag in FF_TAGS else []))
            if sorted(float(x) for x in pars.values()) != table:
                bad("builder-defaults", f"builder {tag} for {p.name} suggests {pars}, table has mass {p.mass}"
                    f" width {p.width}", hist)
        for s, val in pars.items():
            if s.name in pred_par and pred_par[s.name] != val:
                clash = True
            pred_par[s.name] = val
    got_par = {}
    dup = []
    for s, val in model.parameter_defaults.items():
        name = getattr(s, "name", str(s))
        if name.startswith(("C_", "H_")):
            continue
        if name in got_par:
            dup.append(name)
        got_par[name] = val
    n += 1
    if dup:
        bad("parameter-defaults", f"two parameter symbols share the name {dup[:2]}", hist)
    if not clash and got_par != pred_par:
        extra = sorted(set(got_par) - set(pred_par))
        missing = sorted(set(pred_par) - set(got_par))
        wrong = sorted(k for k in set(got_par) & set(pred_par) if got_par[k] != pred_par[k])
        bad("parameter-defaults", f"unexpected {extra[:3]}, missing {missing[:3]}, wrong value"
            f" {[(k, got_par[k], pred_par[k]) for k in wrong[:2]]}", hist)
    # ---------------- (num) against the universal model
    uni = su.get_universal()
    names = set()
    for e in uni.amplitudes.values():
        names |= {s.name for s in e.free_symbols}
    for e in model.amplitudes.values():
        names |= {s.name for s in e.free_symbols}
    env = su.environment(names)
    for s, val in model.parameter_defaults.items():
        env[s.name] = complex(val) if isinstance(val, complex) else float(val)
    for name in names:
        if name.startswith(("C_", "H_")):
            env[name] = coefficient_value(name)

    def spy_handler(interp, e):
        k = int(e.func.__name__[3:])
        a = e.args
        return spy_standin(k, str(a[0]), interp(a[1]), interp(a[2]), interp(a[3]), int(a[4]),
                           interp(a[5]), interp(a[6]))

    def uni_handler(interp, e):
        i = int(e.func.__name__[3:])
        key = su.keys[i]
        tag = ref.map[key]
        if tag == "none":
            return 1.0
        a = e.args
        m_in, m1, m2 = interp(a[0]), interp(a[1]), interp(a[2])
        L = int(a[3])
        node = su.nodes_of_key[key][0]
        p = node["particle"]
        if tag.startswith("spy"):
            return spy_standin(int(tag[3:]), p.name, m_in, m1, m2, L, interp(a[4]), interp(a[5]))
        fn = lineshape_fn(tag, float(p.mass), float(p.width), L if tag in FF_TAGS else None)
        with np.errstate(all="ignore"):
            return fn(m_in, m1, m2)

    lib = Interp(env, {"SPY": spy_handler})
    want = Interp(env, {"UNI": uni_handler})
    ok_num = True
    pairs = [(f"amplitude {sym}", expr, uni.amplitudes.get(sym)) for sym, expr in model.amplitudes.items()]
    pairs += [(f"component {name}", expr, uni.components.get(name)) for name, expr in model.components.items()
              if name.startswith("A_")]
    for label, e_lib, e_uni in pairs:
        n += 1
        if e_uni is None:
            bad("model-keys", f"{label} exists only with these dynamics", hist)
            continue
        try:
            a, b = lib(e_lib), want(e_uni)
        except Unevaluable as exc:
            ok_num = False
            bad("undefined-symbol", f"{label}: no value for symbol/function {exc} (not a parameter with a"
                " default, not a kinematic variable of a node)", hist)
            break
        if not close(a, b):
            ok_num = False
            bad("lineshape-value", f"{label} differs from (same chain without dynamics) x (public line-shape"
                f" function of the assigned builder on the node's variables): max|lib|={np.max(np.abs(a)):.4g}"
                f" max|ref|={np.max(np.abs(b)):.4g} max dev={np.max(np.abs(np.asarray(a) - np.asarray(b))):.3g}",
                hist, sorted(f"builder:{t}" for t in tags_present))
            break
    counters["numeric_comparisons"] = len(pairs)
    if not (ok_spy and ok_num):
        outcome = "violation"
    elif not tags_present:
        outcome = "ok-no-dynamics"
    elif n_pred and tags_present - {"spy1", "spy2"}:
        outcome = "ok-spy+lineshapes"
    elif n_pred:
        outcome = "ok-spy-only"
    else:
        outcome = "ok-lineshapes-only"
    example = [f"SPY{a[0]}({', '.join(str(x) for x in a[1:])})"
               for a in sorted(set().union(*pred_amp.values()) if pred_amp else [], key=str)[:3]]
    return {"n": n, "outcome": outcome, "spy_atoms": n_pred if ok_spy or n_pred else 0,
            "counters": counters, "example_atoms": example}


def _diff_tags(got, want) -> list[str]:
    """Which argument of the SPY atoms differs (input-independent diagnosis, for reading)."""
    tags = []
    fields = ["tag", "resonance", "m_in", "m1", "m2", "L", "phi", "theta"]
    for g in got - want:
        best = None
        for w in want - got:
            d = [f for f, x, y in zip(fields, g, w) if x != y]
            if best is None or len(d) < len(best):
                best = d
        if best:
            tags.extend(f"differs:{f}" for f in best)
    return sorted(set(tags))
