"""C14 - unevaluated expressions obey substitution, equality and folding laws.

Engine SHAPE over the class registry (`vp.registry`): every `sympy.Basic` subclass that
the ampform package defines is found by walking the package; for every class the bounded
space of argument shapes (symbols with/without assumptions, positive rationals, compound
expressions, nested @unevaluated instances, every admissible non-SymPy attribute) is
enumerated, and for every shape every substitution map with <= 2 simultaneous
replacements, through `.subs` and `.xreplace`.

Laws (oracles)
 1  e.apply(m).doit() == e.doit().apply(m): structurally, else numerically on a
    deterministic lattice (exact rationals + evalf; lambdify on (n, 4) arrays for the
    array classes); 1c: the non-SymPy attributes survive the substitution;
 2  a == b  <=>  (class, arguments, non-SymPy attributes) equal, by a structural key
    that does not use the library's __eq__/__hash__; equal => equal hash;
 3  e.func(*e.args) == e when all fields are SymPy arguments (with the attributes passed
    as keywords otherwise);
 4  printable folded form: lambdify(e) == lambdify(e.doit()), cse off/on, and (4c) equal to
    the code of the same class with its compound arguments abstracted into symbols; otherwise
    lambdify(e.doit()) with cse off == cse on == exact evaluation of e.doit() (scalar
    classes) / == event-by-event evaluation (array classes).
"""

from __future__ import annotations

import hashlib
import itertools
import json

from vp import registry as R

R.CLOSURES_ENABLED = True  # function-valued non-SymPy attributes that share a qualified name

PROPERTY = "C14"
LEVEL = "exploration"
KNOWN_TAG = "astuple-recursion-nested-unevaluated-argument"
# witness predicate (on the input): a private printable implementation class (name starts
# with "_", no evaluate()) has a direct argument that is a sum (prints without parentheses)
SUM_TAG = "implementation-class-with-sum-argument"
RULE = (
    "classes = every sympy.Basic subclass defined in the ampform package"
    " (pkgutil.walk_packages; deprecated module and symplot skipped); per @unevaluated class:"
    " field sorts from name/annotation (four-momentum array, 3-vector, event count, angular"
    " momentum, scalar, non-SymPy attribute), alphabet per sort {plain symbol, symbol with"
    " assumptions, positive rational, compound expression, nested @unevaluated instances"
    " (quick: 3 representatives of the sort, 1 level; thorough: every class of the sort whose"
    " unfolded form has <= 20 operations, 2 levels for the representatives)}, angular momentum {1, 0, 2, symbol, integer symbol,"
    " symbol+1}, non-SymPy attributes {every phase-space callable found in the package, None,"
    " name strings}; full product of the alphabets if <= 60 (thorough 500) shapes, else base +"
    " all one-field variations + diagonals + two-field variations over nested values +"
    " attribute x nested; helper classes (PoolSum, Array*, ComplexSqrt, integral/sum) from"
    " recipes, unknown ones from generic attempts (a class without recipe is a cap); per shape"
    " every single map symbol -> {same-assumption symbol, positive rational, compound"
    " expression containing the symbol, exactly 0}; pair maps: base shape = neighbouring pairs x 3 target"
    " combinations + swap (thorough: all pairs of the first 8 symbols x 9 + swap), other"
    " shapes = first pair (symbol inside a nested argument, neighbour) (thorough: first six x"
    " 3 + swap); shapes with a symbolic angular momentum: maps of that symbol only; each map"
    " via subs and via xreplace; every instance is also built with its keywords in reversed"
    " order (same object required); merging maps symbol -> neighbouring symbol of the same"
    " category; PoolSum: bound index -> 5 together with a free symbol -> fresh symbol; law 2: all pairs of instances of a class + twin objects +"
    " classes with the same field signature; non-trivial = the map changes the expression /"
    " the compared objects were built separately; distinct = (class, shape, map, method)"
)
ASSUMPTIONS = [
    "numeric agreement is shown on a deterministic lattice only (2 exact rational points, or"
    " 3 events for array classes; s-like symbols above threshold, masses small); structural"
    " equality needs no lattice",
    "symbols with assumptions are only replaced by expressions that satisfy the same"
    " assumptions; bound variables of sympy's own Integral/Sum are never replaced; a PoolSum"
    " index is replaced only together with a free symbol (the index must stay, the free"
    " symbol must go; C18 covers index-only maps)",
    "a symbolic angular momentum is combined with symbol / number / compound arguments only and"
    " only that symbol is substituted: the symbolic-L Blatt-Weisskopf form |h_L(1)|^2 /"
    " (z |h_L(sqrt z)|^2) equals the polynomial form used for integer L for z >= 0 only",
    "for classes whose folded form is not printable by design (or contains an argument that"
    " must be unfolded first), law 4 compares code generated from the unfolded form with cse"
    " off/on and with an evaluation that does not use the NumPy printer (evalf) or, for array"
    " classes, with event-by-event evaluation; cse=True is skipped for expressions with bound"
    " variables (sympy's cse extracts sub-expressions of Integral/Sum that contain them)",
    "NumPy code is evaluated on complex-valued input with zero imaginary part; a disagreement"
    " that disappears on real-valued input or at a generic complex point off the real axis"
    " (signed zeros on a branch cut) is recorded as an outcome, not a violation",
    "points at which both sides are NaN are skipped and never counted as agreement",
    "a class that brings its own pure-Python printer method (_pythoncode: ComplexSqrt today)"
    " is additionally run through lambdify(..., 'math') with Python floats at the lattice"
    " points and their negatives, embedded as 2*X + 1, and compared with the unfolded form"
    " (exact evaluation when the class is its own unfolded form)",
    "a phsp_factor attribute of None is constructed, compared, rebuilt (laws 2, 3) but not"
    " unfolded (the attribute must be callable)",
]
CHUNK = 1

# rough seconds per (map, method) evaluation, used only to balance the pool
COST = {"EnergyDependentWidth": 0.12, "FormFactor": 0.08, "BlattWeisskopfSquared": 0.05,
        "Kibble": 0.05, "EqualMassPhaseSpaceFactor": 0.2, "PhaseSpaceFactorSWave": 0.1,
        "PhaseSpaceFactorAbs": 0.08, "PhaseSpaceFactor": 0.05}
TARGET_CASE_SECONDS = {"quick": 8.0, "thorough": 25.0}


def shape_weight(desc, name: str, tier: str, is_base: bool) -> float:
    maps = enumerate_maps(desc, tier, is_base)
    w = (2 * len(maps) + 8) * COST.get(name, 0.03)
    if any(_category(leaf) == "int" for leaf in unique_leaves(desc)):
        w *= 12
    return w


def cases(tier, seed):
    out = [{"kind": "registry", "tier": tier, "seed": seed, "w": 0}]
    infos = R.infos()
    by_signature = {}
    for q, i in infos.items():
        shapes = R.shapes_for(q, tier)
        if not shapes:
            continue
        chunk, weight, first = [], 0.0, 0
        for k, d in enumerate(shapes):
            w = shape_weight(d, i.name, tier, k == 0)
            if chunk and weight + w > TARGET_CASE_SECONDS[tier]:
                out.append({"kind": "laws", "cls": q, "first": first, "shapes": chunk, "tier": tier,
                            "seed": seed, "w": round(weight, 1)})
                chunk, weight, first = [], 0.0, k
            chunk.append(d)
            weight += w
        out.append({"kind": "laws", "cls": q, "first": first, "shapes": chunk, "tier": tier, "seed": seed,
                    "w": round(weight, 1)})
        out.append({"kind": "pairs", "cls": q, "tier": tier, "seed": seed, "w": round(len(shapes) ** 2 * 2e-4, 1)})
        if i.unevaluated:
            by_signature.setdefault(tuple(f.name for f in i.fields), []).append(q)
    for sig, quals in sorted(by_signature.items()):
        if len(quals) > 1:
            out.append({"kind": "cross", "classes": quals, "tier": tier, "seed": seed, "w": 0.1})
    # heavy cases first so that the pool is not left waiting for one straggler
    out.sort(key=lambda c: -c["w"])
    return out


# ------------------------------------------------------------------------- maps
def unique_leaves(desc):
    """Distinct symbols of a shape with the depth of nesting below the top-level instance."""
    seen, out = {}, []
    top = 1 if desc[0] == "inst" else 0
    for kind, name, ass, depth in R.leaves(desc):
        depth -= top
        key = (kind, name, ass)
        if key in seen:
            out[seen[key]][3] = max(out[seen[key]][3], depth)
            continue
        seen[key] = len(out)
        out.append([kind, name, ass, depth])
    return out


def _leaf_desc(leaf):
    kind, name, ass, _ = leaf
    return ["arr", name] if kind == "arr" else ["sym", name, json.loads(ass)]


def _category(leaf) -> str:
    """arr (by first letter: four-momentum / 3-vector), int (angular momenta, event counts)
    or scalar; symbols are only swapped within a category."""
    kind, name, ass, _ = leaf
    if kind == "arr":
        return f"arr:{name[0]}"
    a = json.loads(ass)
    if a.get("integer") or name in R._INT_NAMES:
        return "int"
    if name in R._SIZE_NAMES or name.startswith("n_"):
        return "size"
    return "scalar"


def targets(leaf, pos: int) -> dict:
    kind, name, ass, _ = leaf
    if kind == "arr":
        fresh = ["arr", f"{name[0]}7"]
        return {"sym": fresh, "cmp": ["new", R.find("ArraySum"), [["arr", name], fresh]]}
    a = json.loads(ass)
    fresh = ["sym", f"{name}_r", a]
    base = name
    intlike = _category(leaf) in {"int", "size"}
    if intlike:
        size = base in R._SIZE_NAMES or base.startswith("n_")
        return {"sym": fresh, "num": ["int", R.N_EVENTS if size else 2], "cmp": ["cmp", "inc", [fresh]]}
    out = {"sym": fresh, "num": ["num", f"{7 + 2 * pos}/{3 + pos}"],
           "cmp": ["cmp", "avg", [["sym", name, a], fresh]]}
    if not any(a.get(k) for k in ("positive", "negative", "nonzero")):
        out["zero"] = ["int", 0]  # a whole argument becomes exactly 0 (single maps only)
    return out


def enumerate_maps(desc, tier: str, is_base: bool = False) -> list:
    """[(label, [[leaf descriptor, target descriptor], ...], hits_nested)]

    Single maps: every symbol x every target.  Pair maps: on the base shape of a class
    every pair of symbols (quick: neighbouring pairs) x target combinations + swap; on the
    other shapes the pairs (symbol inside a nested argument, neighbouring symbol) (quick: the
    first such pair; thorough: the first six).  Shapes with a *symbolic* angular momentum: only the maps of that symbol
    (the symbolic-L form of the Blatt-Weisskopf factor is defined for z >= 0 only, see
    TR-029, and its symbolic sums are slow)."""
    lv = unique_leaves(desc)
    tg = [targets(leaf, k) for k, leaf in enumerate(lv)]
    symbolic_l = any(_category(leaf) == "int" for leaf in lv)
    out = []
    for k, leaf in enumerate(lv):
        if symbolic_l and _category(leaf) != "int":
            continue
        for tk, t in tg[k].items():
            out.append((f"{leaf[1]}->{tk}", [[_leaf_desc(leaf), t]], leaf[3] > 0))
    n = len(lv)
    # PoolSum: a map that names a bound index next to a free symbol replaces the free symbol
    # only (sympy's own Integral/Sum do not define xreplace of a bound variable: not tried)
    if desc[0] == "new" and desc[1].endswith(".PoolSum") and not symbolic_l:
        bound = sorted({json.dumps(b) for b in R.bound_leaves(desc)})
        for k, leaf in enumerate(lv[:2]):
            for b in bound[:2]:
                out.append((f"{json.loads(b)[1]}(bound)->5,{leaf[1]}->sym",
                            [[json.loads(b), ["int", 5]], [_leaf_desc(leaf), tg[k]["sym"]]], leaf[3] > 0))
    if symbolic_l or n < 2:
        return out
    thorough = tier == "thorough"
    # merging maps: a symbol is replaced by ANOTHER symbol of the expression (equal masses,
    # coinciding pool values, ...)
    merge_pairs = [(k, k + 1) for k in range(n - 1)] + [(k + 1, k) for k in range(n - 1)]
    if not (is_base or thorough or desc[0] == "new"):
        merge_pairs = merge_pairs[:1] + merge_pairs[n - 1:n]
    for i, j in merge_pairs:
        if _category(lv[i]) == _category(lv[j]) and lv[i][2] == lv[j][2]:
            out.append((f"{lv[i][1]}->{lv[j][1]}(merge)", [[_leaf_desc(lv[i]), _leaf_desc(lv[j])]],
                        lv[i][3] > 0 or lv[j][3] > 0))
    if is_base:
        pairs = list(itertools.combinations(range(min(n, 8)), 2)) if thorough else [(k, k + 1) for k in range(n - 1)]
        if not thorough and n > 2:
            pairs.append((0, n - 1))
        combos_wanted = None if thorough else (("sym", "sym"), ("num", "cmp"), ("cmp", "num"), ("cmp", "sym"))
        n_combos = 9 if thorough else 3
        swap = True
    else:
        nested = [k for k, leaf in enumerate(lv) if leaf[3] > 0]
        pairs = []
        for k in nested:
            for j in (k - 1, k + 1):
                if 0 <= j < n and (min(j, k), max(j, k)) not in pairs:
                    pairs.append((min(j, k), max(j, k)))
        if not pairs:  # no nested argument: the first neighbouring pair(s)
            pairs = [(k, k + 1) for k in range(min(n - 1, 2))]
        pairs = pairs[:6] if thorough else pairs[:1]
        combos_wanted = (("sym", "sym"), ("num", "cmp"), ("cmp", "num"))
        n_combos = 3 if thorough else 1
        swap = True
    for i, j in pairs:
        if combos_wanted is None:
            combos = list(itertools.product(tg[i], tg[j]))
        else:
            combos = [c for c in combos_wanted if c[0] in tg[i] and c[1] in tg[j]]
        for ti, tj in combos[:n_combos]:
            out.append((f"{lv[i][1]}->{ti},{lv[j][1]}->{tj}",
                        [[_leaf_desc(lv[i]), tg[i][ti]], [_leaf_desc(lv[j]), tg[j][tj]]],
                        lv[i][3] > 0 or lv[j][3] > 0))
        if swap and _category(lv[i]) == _category(lv[j]):
            out.append((f"{lv[i][1]}<->{lv[j][1]}",
                        [[_leaf_desc(lv[i]), _leaf_desc(lv[j])], [_leaf_desc(lv[j]), _leaf_desc(lv[i])]],
                        lv[i][3] > 0 or lv[j][3] > 0))
    return out


undummy = R.undummy


def apply_map(expr, rule: dict, method: str):
    if method == "xreplace":
        return expr.xreplace(rule)
    if len(rule) == 1:
        return expr.subs(rule)
    return expr.subs(rule, simultaneous=True)


# ------------------------------------------------------------------- evaluation
class Recorder:
    def __init__(self, cls_name: str) -> None:
        self.cls_name = cls_name
        self.viol = []
        self.outcomes = {}
        self.nontrivial = []
        self.counters = {}
        self.n_eval = 0
        self.sample = None
        self.sum_in_implementation = False

    def out(self, key: str, n: int = 1) -> None:
        self.outcomes[key] = self.outcomes.get(key, 0) + n

    def count(self, key: str, n: int = 1) -> None:
        self.counters[key] = self.counters.get(key, 0) + n

    def bad(self, law: str, msg: str, desc, known: bool, extra=(), detail=None) -> None:
        tags = [f"law:{law}", f"class:{self.cls_name}", *extra]
        if known:
            tags.append(KNOWN_TAG)
        if law in {"4", "4c"} and self.sum_in_implementation:
            tags.append(SUM_TAG)
        self.viol.append({
            "msg": f"law {law}: {msg} [{R.describe(desc)}]",
            "tags": tags,
            "detail": {"shape": desc, **(detail or {})},
        })
        self.out(f"law{law}:violation")

    def result(self) -> dict:
        return {"violations": self.viol, "evaluations": self.n_eval, "nontrivial": self.nontrivial,
                "outcomes": self.outcomes, "counters": self.counters, "caps": getattr(self, "caps", []),
                **({"sample": self.sample} if self.sample is not None else {})}


def _short(obj, n=160) -> str:
    s = str(obj)
    return s if len(s) <= n else s[:n] + "..."


def _shape_id(desc) -> str:
    return hashlib.sha256(json.dumps(desc, sort_keys=True).encode()).hexdigest()[:10]


CODEGEN_ERRORS = ("NameError", "AttributeError", "SyntaxError", "KeyError", "PrintMethodNotImplementedError")


def only_symbol_leaves(desc) -> bool:
    tag = desc[0]
    if tag in {"num", "int"}:
        return False
    if tag == "cmp":
        return all(only_symbol_leaves(d) for d in desc[2])
    if tag == "inst":
        return all(only_symbol_leaves(d) for d in desc[2].values())
    if tag == "new":
        return all(only_symbol_leaves(d) for d in desc[2])
    if tag == "tuple":
        return True
    return True


def fully_printable(expr) -> bool:
    """Every node of a registry class inside the folded form has its own NumPy printer
    (a printable class around an argument that must be unfolded first is not printable)."""
    import sympy as sp  # noqa: PLC0415

    infos = R.infos()
    for node in sp.preorder_traversal(expr):
        i = infos.get(R.qualname(type(node)))
        if i is not None and not i.printable and (i.unevaluated or i.name in {"PoolSum"}):
            return False
    return True


def has_limits(expr) -> bool:
    import sympy as sp  # noqa: PLC0415
    from sympy.concrete.expr_with_limits import ExprWithLimits  # noqa: PLC0415

    return any(isinstance(n, ExprWithLimits) for n in sp.preorder_traversal(expr))


def _all_close(arrays: list):
    """equal / differ / undefined over the entries that are finite in every array."""
    import numpy as np  # noqa: PLC0415

    try:
        bc = np.broadcast_arrays(*[np.asarray(a, dtype=complex) for a in arrays])
    except ValueError:
        return "differ"
    finite = np.ones(bc[0].shape, dtype=bool)
    for a in bc:
        finite &= np.isfinite(a)
    for a in bc:
        if np.any(np.isfinite(a) != finite) and np.any(np.isfinite(bc[0]) != np.isfinite(a)):
            return "differ"
    if not np.any(finite):
        return "undefined"
    for a in bc[1:]:
        if R.arrays_close(a[finite], bc[0][finite])[0] != "equal":
            return "differ"
    return "equal"


def check_compositional(rec: Recorder, e, info, desc, seed: int, known: bool, value) -> None:
    """Law 4c: code generation commutes with abstraction of an argument: replacing every
    compound scalar argument a_k by a fresh symbol that is fed the numeric value of a_k must
    give the same numbers (catches printers that paste argument code into a larger
    expression without regard to operator precedence)."""
    import numpy as np  # noqa: PLC0415
    import sympy as sp  # noqa: PLC0415
    from sympy.tensor.array.expressions.array_expressions import ArraySymbol  # noqa: PLC0415

    new_args, overrides = [], {}
    for k, a in enumerate(e.args):
        new_args.append(a)
        if not isinstance(a, sp.Basic) or a.is_Symbol or a.is_Number or isinstance(a, ArraySymbol):
            continue
        r = R.np_values([a.doit()], seed)
        if r[0] != "ok":
            continue
        v = r[1][0]
        if isinstance(v, (int, np.integer)) or np.shape(v) not in {(), (R.N_EVENTS,)}:
            continue
        name = f"abstracted{k}"
        new_args[-1] = sp.Symbol(name)
        overrides[name] = np.asarray(v, dtype=complex)
    if not overrides:
        return
    try:
        abstract = e.func(*new_args)
    except Exception:  # noqa: BLE001
        return
    rec.n_eval += 1
    r = R.np_values([abstract], seed, overrides=overrides)
    if r[0] != "ok":
        rec.out("law4c:abstraction-not-evaluable")
        return
    verdict = _all_close([r[1][0], value])
    if verdict == "differ":
        rec.bad("4c", f"lambdify(folded) = {_short(value, 120)} but with the compound arguments"
                      f" {sorted(overrides)} replaced by symbols carrying their values the same printer gives"
                      f" {_short(r[1][0], 120)}", desc, known, ["compositional"])
    else:
        rec.out(f"law4c:printing-commutes-with-abstraction-{verdict}")


def check_python_backend(rec: Recorder, e, ed, desc, seed: int, known: bool) -> None:
    """Law 4 for classes that bring their own pure-Python printer method (_pythoncode):
    lambdify(..., "math") of the folded form against the unfolded form, called with Python
    floats at the lattice points and at their negatives (both branches of a sign test)."""
    import sympy as sp  # noqa: PLC0415

    if not any("_pythoncode" in vars(c) for c in type(e).__mro__ if c.__module__.startswith("ampform")):
        return
    syms, arrs = R._symbols_of([e, ed])
    if arrs:
        return
    try:
        # embedded in a product and a sum, so that operator precedence of the generated
        # code takes part: value = 2*e + 1
        f_folded = sp.lambdify(syms, 2 * e + 1, "math")
        f_unfolded = sp.lambdify(syms, 2 * ed + 1, "math")
    except Exception as exc:  # noqa: BLE001
        if type(exc).__name__ == "PrintMethodNotImplementedError" and any(
                R.is_unevaluated_instance(n) for a in e.args for n in sp.preorder_traversal(a)):
            rec.out("law4py:folded-form-needs-unfolding-of-an-argument")
            return
        rec.bad("4", f"lambdify(..., 'math') raised {type(exc).__name__}: {_short(exc)}", desc, known,
                ["codegen-error", "python-backend"])
        return
    for j in range(2):
        for sign in (1, -1):
            pt = [sign * float(R.scalar_value(x, j, seed)) for x in syms]
            rec.n_eval += 1
            try:
                if ed != e:
                    want = complex(f_unfolded(*pt))
                else:  # the class is its own unfolded form: exact evaluation on numbers
                    want = 2 * complex(sp.N(e.xreplace({x: sp.Rational(v) for x, v in zip(syms, pt)}).doit(), 30)) + 1
            except (ValueError, ZeroDivisionError, OverflowError, TypeError):
                rec.out("law4py:unfolded-form-not-evaluable-with-math")
                continue
            try:
                got = complex(f_folded(*pt))
            except Exception as exc:  # noqa: BLE001
                rec.bad("4", f"code of the folded form for the 'math' backend raised {type(exc).__name__}:"
                             f" {_short(exc)} at {pt} where the unfolded form gives {want}", desc, known,
                        ["codegen-one-sided", "python-backend"])
                continue
            if abs(got - want) <= 1e-9 * max(1.0, abs(want)):
                rec.out("law4py:folded=unfolded(math backend)")
                rec.nontrivial.append([type(e).__name__, _shape_id(desc), "math-backend", f"{j},{sign}"])
            else:
                rec.bad("4", f"'math' backend: code of the folded form gives {got} but the unfolded form {want}"
                             f" at {dict(zip(map(str, syms), pt))}", desc, known, ["values", "python-backend"])


def check_law4(rec: Recorder, e, ed, info, desc, seed: int, known: bool) -> None:
    import numpy as np  # noqa: PLC0415

    strict = only_symbol_leaves(desc)
    forms = {"unfolded": ed}
    if info.printable and fully_printable(e):
        forms["folded"] = e
    elif info.printable:
        rec.out("law4:folded-form-needs-unfolding-of-an-argument")
    limits = has_limits(ed) or has_limits(e)
    modes = (False,) if limits else (False, True)
    if limits:
        rec.out("law4:cse-skipped(bound-variables)")

    def evaluate(real_input: bool, off_axis: bool = False) -> dict:
        out = {}
        for form, expr in forms.items():
            for cse in modes:
                out[form, cse] = R.np_values([expr], seed, cse=cse, real_input=real_input, off_axis=off_axis)
                rec.n_eval += 1
        return out

    vals = evaluate(False)
    errors = {k: v[1] for k, v in vals.items() if v[0] != "ok"}
    if errors:
        if len(errors) < len(vals):
            k_ok = next(k for k in vals if k not in errors)
            k_bad = next(iter(errors))
            rec.bad("4", f"code from the {k_bad[0]} form (cse={k_bad[1]}) fails ({errors[k_bad]}) while the"
                         f" {k_ok[0]} form (cse={k_ok[1]}) evaluates", desc, known, ["codegen-one-sided"])
            return
        msg = next(iter(errors.values()))
        if strict and msg.split(":", 1)[0] in CODEGEN_ERRORS and info.unevaluated:
            rec.bad("4", f"generated NumPy code is not executable: {msg}", desc, known, ["codegen-error"])
            return
        rec.out("law4:not-evaluable-on-arrays")
        return
    keys = list(vals)
    verdict = _all_close([vals[k][1][0] for k in keys])
    label = "folded=unfolded" if "folded" in forms else "unfolded,cse-on=off"
    if verdict == "differ":
        # complex-valued input with signed zeros can sit on either side of a branch cut;
        # real-valued input decides
        real = evaluate(True)
        if all(v[0] == "ok" for v in real.values()):
            verdict_real = _all_close([real[k][1][0] for k in keys])
        else:
            verdict_real = "differ"
        if verdict_real == "differ":
            # real input can still meet a cut through the complex constants of a Piecewise
            # branch (i sqrt(-x)); a generic complex point is on no cut at all
            generic = evaluate(False, off_axis=True)
            verdict_generic = "differ"
            if all(v[0] == "ok" for v in generic.values()):
                verdict_generic = _all_close([generic[k][1][0] for k in keys])
            if verdict_generic != "equal":
                shown = {f"{k[0]},cse={k[1]}": _short(vals[k][1][0], 90) for k in keys}
                rec.bad("4", f"generated code disagrees between forms / cse modes: {shown}", desc, known, ["values"])
                return
            rec.out(f"law4:{label}:off-the-real-axis-only(branch-cut)")
        else:
            rec.out(f"law4:{label}:on-real-input-only(branch-cut)")
    elif verdict == "undefined":
        rec.out("law4:all-nan")
        return
    else:
        rec.out(f"law4:{label}")
    ref = vals["unfolded", False][1][0]
    if "folded" in forms and info.unevaluated:
        check_compositional(rec, e, info, desc, seed, known, vals["folded", False][1][0])
    # reference that does not go through the NumPy printer
    ex = R.exact_values(ed, seed, n_points=R.N_EVENTS)
    rec.n_eval += 1
    if ex[0] == "ok":
        want = np.array(ex[1])
        got = np.asarray(ref, dtype=complex)
        if got.ndim == 0:
            got = np.full(want.shape, got)
        verdict = _all_close([got, want])
        if verdict == "differ":
            real = R.np_values([ed], seed, real_input=True)
            verdict_real = "differ"
            if real[0] == "ok":
                r = np.asarray(real[1][0], dtype=complex)
                if r.ndim == 0:
                    r = np.full(want.shape, r)
                fin = np.isfinite(r)
                verdict_real = "undefined" if not np.any(fin) else R.arrays_close(r[fin], want[fin])[0]
            if verdict_real == "differ":
                rec.bad("4", f"lambdify(unfolded) = {_short(got)} but exact evaluation gives {_short(want)}",
                        desc, known, ["reference:evalf"])
            else:
                rec.out(f"law4:reference-evalf-{verdict_real}-on-real-input(branch-cut)")
        else:
            rec.out("law4:reference-evalf-" + verdict)
    elif np.ndim(ref) >= 1 and np.shape(ref)[0] == R.N_EVENTS and R._symbols_of([ed])[1]:
        rows = []
        for j in range(R.N_EVENTS):
            one = R.np_values([ed], seed, events=[j])
            if one[0] != "ok":
                rows = None
                break
            v = np.asarray(one[1][0])
            rows.append(v[0] if v.ndim >= 1 and v.shape[0] == 1 else v)
        if rows is None:
            rec.out("law4:no-reference")
        else:
            verdict = _all_close([np.array(rows), ref])
            if verdict == "differ":
                rec.bad("4", f"batch evaluation {_short(ref)} != event-by-event evaluation {_short(np.array(rows))}",
                        desc, known, ["reference:event-by-event"])
            else:
                rec.out("law4:reference-event-by-event-" + verdict)
    else:
        rec.out("law4:no-reference")


def check_shape(rec: Recorder, desc, tier: str, seed: int, is_base: bool = False) -> None:
    import sympy as sp  # noqa: PLC0415

    qual = desc[1]
    info = R.info(qual)
    try:
        e = R.build(desc)
    except (TypeError, ValueError, IndexError) as exc:
        rec.out(f"shape-rejected:{type(exc).__name__}")
        rec.count("shape_rejected")
        return
    rec.n_eval += 1
    if not isinstance(e, info.cls):
        rec.out("constructor-evaluates")
        return
    known = R.has_nested_unevaluated(e, require_attr_field=True)
    rec.sum_in_implementation = bool(
        info.unevaluated and info.printable and not info.unfolds and info.name.startswith("_")
        and any(getattr(a, "is_Add", False) or getattr(a.doit(), "is_Add", False) for a in e.args)
    )
    if known:
        rec.count("shapes_with_known_predicate")
    sid = _shape_id(desc)

    # ---- law 2 (construction): keyword arguments written in another order give the same object
    if desc[0] == "inst" and len(desc[2]) > 1:
        try:
            kwargs = {k: R.build(v) for k, v in reversed(list(desc[2].items()))}
            e_rev = info.cls(**kwargs)
            rec.n_eval += 1
            if not (e_rev == e) or hash(e_rev) != hash(e) or e_rev.args != e.args or R.canon(e_rev) != R.canon(e):
                rec.bad("2", f"keywords in reversed order build {_short(e_rev)} with args {_short(e_rev.args)},"
                             f" in field order {_short(e)} with args {_short(e.args)}", desc, False,
                        ["keyword-order"])
            else:
                rec.out("law2:keyword-order-irrelevant")
        except Exception as exc:  # noqa: BLE001
            rec.bad("2", f"construction with reversed keyword order raised {type(exc).__name__}: {_short(exc)}",
                    desc, False, ["keyword-order", "exception"])

    # ---- law 3: rebuild from own arguments
    attrs = R.nonsympy_attrs(e)
    try:
        rebuilt = e.func(*e.args, **attrs) if attrs else e.func(*e.args)
        rec.n_eval += 1
        if not (rebuilt == e) or rebuilt != e or hash(rebuilt) != hash(e) or R.canon(rebuilt) != R.canon(e):
            rec.bad("3", f"e.func(*e.args{', **attributes' if attrs else ''}) = {_short(rebuilt)} != e = {_short(e)}",
                    desc, False)
        else:
            rec.out("law3:rebuilt-with-attributes" if attrs else "law3:rebuilt")
            rec.nontrivial.append([info.name, sid, "rebuild", "func(*args)"])
    except Exception as exc:  # noqa: BLE001
        rec.bad("3", f"e.func(*e.args) raised {type(exc).__name__}: {exc}", desc, False, ["exception"])

    # ---- unfolding
    if info.unevaluated and any(f.sort == "attr:phsp" and desc[2].get(f.name) == ["none"] for f in info.attr_fields):
        rec.out("callable-attribute-is-None:unfolding-not-applicable")
        return
    try:
        ed = e.doit()
    except Exception as exc:  # noqa: BLE001
        rec.bad("1", f"doit() raised {type(exc).__name__}: {_short(exc)}", desc, known, ["exception", "doit"])
        return
    rec.n_eval += 1
    if info.unfolds and any(R.is_unevaluated_instance(n) and R.info(R.qualname(type(n))).unfolds
                            for n in sp.preorder_traversal(ed)):
        left = sorted({type(n).__name__ for n in sp.preorder_traversal(ed)
                       if R.is_unevaluated_instance(n) and R.info(R.qualname(type(n))).unfolds})
        rec.bad("4", f"doit() leaves foldable nodes {left} in the unfolded form {_short(ed)}", desc, known,
                ["incomplete-unfolding"])

    # ---- law 4: generated code
    check_law4(rec, e, ed, info, desc, seed, known)
    check_python_backend(rec, e, ed, desc, seed, known)

    # ---- law 1: substitution commutes with unfolding
    maps = enumerate_maps(desc, tier, is_base)
    for label, pairs, nested in maps:
        rule = {R.build(a): R.build(b) for a, b in pairs}
        for method in ("xreplace", "subs"):
            rec.n_eval += 1
            try:
                folded = apply_map(e, rule, method)
                lhs = folded.doit()
                try:
                    rhs = apply_map(ed, rule, method)
                except RecursionError:
                    # SymPy itself recurses without end when the map makes the UNFOLDED
                    # expression degenerate (m2 -> m1 inside nested Piecewise conditions);
                    # the folded route went through: nothing to compare with
                    rec.out("law1:sympy-recursion-on-the-unfolded-side(not judged)")
                    continue
            except Exception as exc:  # noqa: BLE001
                if label.endswith("->zero") and (isinstance(exc, ZeroDivisionError) or "NaN" in str(exc)):
                    rec.out("law1:zero-is-a-singular-point(not judged)")
                    continue
                rec.bad("1", f"{method}({label}) raised {type(exc).__name__}: {_short(exc)}", desc, known,
                        ["exception", method], {"map": pairs})
                continue
            changed = folded != e
            if changed:
                rec.nontrivial.append([info.name, sid, label, method])
                if nested:
                    rec.count("maps_hitting_a_nested_argument")
            else:
                rec.out("law1:map-without-effect")
            if isinstance(folded, info.cls) and attrs:
                lost = {k: v for k, v in attrs.items() if getattr(folded, k, "<missing>") is not v and getattr(folded, k, "<missing>") != v}
                if lost:
                    rec.bad("1c", f"{method}({label}) changed the non-SymPy attributes {sorted(lost)}:"
                                  f" {R.nonsympy_attrs(folded)} != {attrs}", desc, known, [method, "attribute-lost"],
                            {"map": pairs})
                    continue
            if label.endswith("->zero") and (lhs.has(sp.nan, sp.zoo, sp.oo, -sp.oo) or rhs.has(sp.nan, sp.zoo, sp.oo, -sp.oo)):
                # 0 is a singular point of the expression (0/0, 1/0): which of the two
                # orders meets the singularity first is not fixed by the statement
                rec.out("law1:zero-is-a-singular-point(not judged)")
            elif lhs == rhs or undummy(lhs) == undummy(rhs):
                rec.out("law1:structurally-equal")
            else:
                verdict, how, detail = R.numeric_compare(lhs, rhs, seed)
                if verdict == "equal":
                    rec.out(f"law1:numerically-equal-{how}")
                elif verdict == "undefined":
                    rec.out("law1:undefined-on-lattice")
                else:
                    rec.bad("1", f"{method}({label}).doit() = {_short(lhs)} != doit().{method}({label}) = {_short(rhs)}"
                                 f" ({how}: {_short(detail, 200)})", desc, known, [method],
                            {"map": pairs, "folded_after_map": _short(folded, 300)})
                    continue
            if rec.sample is None and changed and nested:
                rec.sample = {"class": info.name, "shape": R.describe(desc), "map": label, "method": method,
                              "substituted_then_unfolded": _short(lhs, 240)}


class TimeLimit(BaseException):
    """Raised by the watchdog; a BaseException so that no guard swallows it."""


SHAPE_TIME_LIMIT = {"quick": 150, "thorough": 300}


def _alarm(signum, frame):  # noqa: ARG001
    raise TimeLimit


def eval_laws(case) -> dict:
    import signal  # noqa: PLC0415

    info = R.info(case["cls"])
    rec = Recorder(info.name)
    caps = []
    for k, desc in enumerate(case["shapes"]):
        old = signal.signal(signal.SIGALRM, _alarm)
        signal.alarm(SHAPE_TIME_LIMIT[case["tier"]])
        try:
            check_shape(rec, desc, case["tier"], case.get("seed", 0), is_base=(case.get("first", 0) + k == 0))
        except TimeLimit:
            rec.out("time-limit:shape-abandoned")
            caps.append(f"time limit ({SHAPE_TIME_LIMIT[case['tier']]} s) hit for a shape of {info.name}")
        finally:
            signal.alarm(0)
            signal.signal(signal.SIGALRM, old)
    rec.caps = caps
    if case.get("first", 0) != 0 and not (rec.sample or {}).get("map"):
        rec.sample = None
    elif rec.sample is None and case["shapes"]:
        rec.sample = {"class": info.name, "shape": R.describe(case["shapes"][0]), "shapes_in_case": len(case["shapes"])}
    return rec.result()


def _built(shapes):
    out = []
    for desc in shapes:
        try:
            a, b = R.build(desc), R.build(desc)
        except (TypeError, ValueError, IndexError):
            continue
        out.append((desc, a, b, json.dumps(R.canon(a), sort_keys=True)))
    return out


def _compare_pair(rec: Recorder, da, a, ka, db, b, kb) -> None:
    rec.n_eval += 1
    want = ka == kb
    try:
        eq, ne = a == b, a != b
    except Exception as exc:  # noqa: BLE001
        rec.bad("2", f"== raised {type(exc).__name__}: {exc} for {_short(a)} and {_short(b)}", da, False, ["exception"])
        return
    if bool(eq) != want:
        rec.bad("2", f"({_short(a, 100)} == {_short(b, 100)}) is {eq} but (class, arguments, attributes) are"
                     f" {'equal' if want else 'different'}: {R.describe(da)} vs {R.describe(db)}", da, False,
                ["equal-but-different" if eq else "unequal-but-same"], {"other": db})
        return
    if bool(ne) == bool(eq):
        rec.bad("2", f"!= and == agree for {_short(a)} and {_short(b)}", da, False, ["ne-inconsistent"], {"other": db})
        return
    if eq and hash(a) != hash(b):
        rec.bad("2", f"equal objects with different hash: {_short(a)}", da, False, ["hash"], {"other": db})
        return
    rec.out("law2:equal-pair" if want else "law2:unequal-pair")


def eval_pairs(case) -> dict:
    info = R.info(case["cls"])
    rec = Recorder(info.name)
    built = _built(R.shapes_for(case["cls"], case["tier"]))
    built = [t for t in built if isinstance(t[1], info.cls)]
    for i, (da, a, a2, ka) in enumerate(built):
        # separately constructed twin
        _compare_pair(rec, da, a, ka, da, a2, json.dumps(R.canon(a2), sort_keys=True))
        rec.nontrivial.append([info.name, _shape_id(da), "twin", "=="])
        if len({a, a2}) != 1:
            rec.bad("2", f"a set of two equal instances has {len({a, a2})} elements: {_short(a)}", da, False, ["set"])
        for db, b, _, kb in built[i + 1:]:
            _compare_pair(rec, da, a, ka, db, b, kb)
    if built:
        rec.sample = {"class": info.name, "instances": len(built), "pairs": rec.n_eval,
                      "example_unequal": [R.describe(built[0][0]), R.describe(built[-1][0])]}
    return rec.result()


def eval_cross(case) -> dict:
    rec = Recorder("|".join(q.rsplit(".", 1)[1] for q in case["classes"]))
    per = {}
    for q in case["classes"]:
        per[q] = [t for t in _built(R.shapes_for(q, case["tier"])[:12])]
    for qa, qb in itertools.combinations(case["classes"], 2):
        for (da, a, _, ka), (db, b, _, kb) in zip(per[qa], per[qb]):
            _compare_pair(rec, da, a, ka, db, b, kb)
            rec.nontrivial.append([qa.rsplit(".", 1)[1], qb.rsplit(".", 1)[1], _shape_id(da), "cross-class"])
    rec.sample = {"cross_class_group": [q.rsplit(".", 1)[1] for q in case["classes"]], "pairs": rec.n_eval}
    return rec.result()


def eval_registry(case) -> dict:
    infos = R.infos()
    rec = Recorder("registry")
    rec.n_eval = len(infos)
    caps = []
    for q, i in infos.items():
        if i.abstract:
            rec.out("class:abstract-interface-not-instantiated")
            continue
        n = len(R.shapes_for(q, case["tier"]))
        if n == 0:
            rec.out("class:no-recipe")
            caps.append(f"no constructor recipe for helper class {q}")
        else:
            rec.out("class:unevaluated" if i.unevaluated else "class:helper")
        if i.unevaluated and R.value_sort(q) == "unknown":
            rec.out("class:value-sort-unknown")
    for f in R.import_failures():
        caps.append(f"module not importable: {f}")
    res = rec.result()
    res["caps"] = caps
    res["counters"] = {
        "classes_found": len(infos),
        "unevaluated_classes": sum(i.unevaluated for i in infos.values()),
        "classes_with_non_sympy_fields": sum(bool(i.attr_fields) for i in infos.values()),
        "printable_folded_classes": sum(i.printable for i in infos.values()),
        "shapes": sum(len(R.shapes_for(q, case["tier"])) for q in infos),
    }
    res["sample"] = {"classes": [i.name for i in infos.values()]}
    return res


def eval_case(case):
    import warnings  # noqa: PLC0415

    warnings.simplefilter("ignore")
    kind = case["kind"]
    if kind == "laws":
        return eval_laws(case)
    if kind == "pairs":
        return eval_pairs(case)
    if kind == "cross":
        return eval_cross(case)
    return eval_registry(case)
