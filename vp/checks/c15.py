"""C15 - pickle round trip of a model (or of any library expression) is the identity.

Engine SHAPE.  (a) every instance of C14's pool (`vp.registry.instance_descriptors`) x
pickle protocols 2..5 x {same process, fresh interpreter}; (b) formulated models from
C01's space (factory reactions + catalogue x alignment x dynamics incl. the analytic
Breit-Wigner, whose width carries a non-default non-SymPy attribute) x protocols x {same,
fresh}; (c) a model whose parameter mapping was re-ordered (ParameterValues keeps insertion
order).  The fresh interpreter (one per case = batch) runs with another PYTHONHASHSEED,
loads the pickles from a temporary file and reports hash-independent digests (structural
key incl. non-SymPy attributes, `sympy.srepr`, unfolded form) and numeric values as JSON.
"""

from __future__ import annotations

import hashlib
import json
import os
import pickle  # noqa: S403
import shutil
import subprocess  # noqa: S404
import sys
import tempfile
from pathlib import Path

PROPERTY = "C15"
LEVEL = "exploration"
KNOWN_TAG = "astuple-recursion-nested-unevaluated-argument"
PROTOCOLS = (2, 3, 4, 5)
RULE = (
    "(a) every expression instance of C14's pool (all classes found by walking the ampform"
    " package x all argument shapes of the tier) x pickle protocols 2-5 x {same process, fresh"
    " interpreter with another PYTHONHASHSEED}; (b) models: factory reactions (stride over"
    " C01's factory_specs) + catalogue reactions x alignment {none, axis-angle, DPD(1) where"
    " admissible} x dynamics {none, BW, BW+ff, analytic BW (non-default phsp_factor attribute)}"
    " x protocols x {same, fresh}; (c) the same model with its parameter mapping re-ordered;"
    " non-trivial = the object has a nested @unevaluated argument or a non-default non-SymPy"
    " attribute (expressions) / >= 2 amplitudes and >= 1 kinematic variable (models);"
    " distinct = (instance or model, protocol, same/fresh)"
)
ASSUMPTIONS = [
    "numeric identity is shown on 3 lattice events per model (vp.ref.frames.lattice_events) and"
    " on the lattice of vp.registry for expressions; values of the fresh interpreter are"
    " computed there from the loaded object and compared to 1e-12",
    "numeric values are computed for the highest protocol and for every protocol whose loaded"
    " object differs structurally from it",
    "the fresh interpreter imports ampform from the same tree ($VERIF_REPO/src)",
]
CHUNK = 1
EXPR_BATCH = {"quick": 56, "thorough": 80}
N_FACTORY = {"quick": 31, "thorough": 90}
MAX_TRANSITIONS = {"quick": 24, "thorough": 60}
CHILD_HASHSEED = "4242"


# ---------------------------------------------------------------------- cases
def model_variants(index: int, n_final: int, n_transitions: int, tier: str) -> list:
    """quick: every reaction unaligned without dynamics and with one line shape (cycling
    BW / BW+ff / analytic BW), plus axis-angle and DPD(1) where admissible (with or without
    BW, alternating); thorough: alignment x {none, BW, BW+ff, analytic}."""
    aa_ok = n_final <= 3 and n_transitions <= (8 if tier == "quick" else 16)
    dpd_ok = n_final == 3 and n_transitions <= (12 if tier == "quick" else 40)
    if tier == "quick":
        out = [["none", "none"], ["none", ("bw", "bwff", "analytic")[index % 3]]]
        if aa_ok:
            out.append(["aa", "none" if index % 2 else "bw"])
        if dpd_ok:
            out.append(["dpd1", "bw" if index % 2 else "none"])
        return out
    out = [["none", d] for d in ("none", "bw", "bwff", "analytic")]
    if aa_ok:
        out += [["aa", "none"], ["aa", "bw"]]
    if dpd_ok:
        out += [["dpd1", "none"], ["dpd1", "bw"], ["dpd1", "analytic"], ["dpd2", "none"], ["dpd3", "none"]]
    return out


def cases(tier, seed):
    from vp import reactions as RX  # noqa: PLC0415
    from vp import registry as R  # noqa: PLC0415
    from vp.checks import c01  # noqa: PLC0415

    out = []
    entries = []
    specs = []
    for spec in c01.factory_specs("quick"):
        try:
            r = RX.build_reaction(spec)
        except ValueError:
            continue
        if len(r.transitions) > MAX_TRANSITIONS[tier]:
            continue
        specs.append((spec, r))
    stride = max(1, len(specs) // N_FACTORY[tier])
    for spec, r in specs[::stride][: N_FACTORY[tier]]:
        entries.append(({"spec": spec}, r))
    for name in RX.catalogue_names():
        if tier == "quick" and name.rsplit(".", 1)[0] not in c01.CATALOGUE_QUICK:
            continue
        r = RX.load_catalogue(name)
        if len(r.transitions) > MAX_TRANSITIONS[tier]:
            continue
        entries.append(({"catalogue": name}, r))
    for index, (rdesc, r) in enumerate(entries):
        variants = model_variants(index, len(r.final_state), len(r.transitions), tier)
        heavy = len(r.transitions) > 6
        groups = [[v] for v in variants] if heavy else [[v for v in variants if v[0] == "none"],
                                                        *[[v] for v in variants if v[0] != "none"]]
        for gi, g in enumerate(groups):
            if g:
                aligned = any(v[0] != "none" for v in g)
                out.append({"kind": "model", "reaction": rdesc, "variants": g, "reorder": gi == 0, "seed": seed,
                            "tier": tier, "w": len(r.transitions) * len(g) * (4 if aligned else 1)})
    pool = R.instance_descriptors(tier)
    n = EXPR_BATCH[tier]
    for k in range(0, len(pool), n):
        out.append({"kind": "expr", "first": k, "descs": pool[k:k + n], "seed": seed, "tier": tier, "w": 30})
    out.sort(key=lambda c: -c["w"])
    return out


# ---------------------------------------------------------------- child process
def run_child(payload: dict) -> dict:
    """Write the payload to a temp file, load it in ONE fresh interpreter, return its JSON."""
    from vp.core import ROOT, HarnessError  # noqa: PLC0415

    tmp = tempfile.mkdtemp(prefix="c15-")
    try:
        path = Path(tmp) / "payload.pkl"
        with open(path, "wb") as f:
            pickle.dump(payload, f, protocol=4)
        env = dict(os.environ)
        env["PYTHONPATH"] = str(ROOT) + (os.pathsep + env["PYTHONPATH"] if env.get("PYTHONPATH") else "")
        env["PYTHONHASHSEED"] = CHILD_HASHSEED
        proc = subprocess.run(  # noqa: S603
            ["/venv/bin/python", "-W", "ignore", "-m", "vp.checks.c15", "child", str(path)],
            capture_output=True, text=True, env=env, timeout=1800, check=False, cwd=str(ROOT),
        )
        if proc.returncode != 0:
            msg = f"fresh interpreter failed (exit {proc.returncode}): {proc.stderr[-1500:]}"
            raise HarnessError(msg)
        line = [ln for ln in proc.stdout.splitlines() if ln.startswith("RESULT ")]
        if not line:
            msg = f"fresh interpreter printed no result: {proc.stdout[-500:]} {proc.stderr[-500:]}"
            raise HarnessError(msg)
        return json.loads(line[-1][7:])
    finally:
        shutil.rmtree(tmp, ignore_errors=True)


def _sha(text: str) -> str:
    return hashlib.sha256(text.encode()).hexdigest()[:20]


def expr_report(obj, seed: int, with_value: bool) -> dict:
    """Hash-independent description of one expression (used on both sides)."""
    import sympy as sp  # noqa: PLC0415

    from vp import registry as R  # noqa: PLC0415

    rep = {
        "canon": _sha(json.dumps(R.canon(obj))),
        "srepr": _sha(sp.srepr(obj)),
        "attrs": [[k, R.attr_key(v)] for k, v in R.nonsympy_attrs(obj).items()],
        "str": str(obj)[:200],
    }
    try:
        unfolded = obj.doit()
        rep["doit"] = _sha(json.dumps(R.canon(R.undummy(unfolded))))
    except Exception as exc:  # noqa: BLE001
        rep["doit"] = f"raised {type(exc).__name__}"
    if with_value:
        rep["value"] = R.numeric_value(obj, seed)
    return rep


def parameter_access(pv) -> list:
    """What the public interface of a ParameterValues mapping answers: look-up by symbol,
    by name and by position, membership, get(); a loaded mapping must answer the same
    (an attribute that `==` does not look at can still be lost in the pickle)."""
    out = []

    def probe(fn):
        try:
            return repr(fn())
        except Exception as exc:  # noqa: BLE001
            return f"raised {type(exc).__name__}"

    keys = list(pv.keys())
    for i, k in enumerate(keys):
        name = getattr(k, "name", str(k))
        out.append([name, probe(lambda k=k: pv[k]), probe(lambda name=name: pv[name]), probe(lambda i=i: pv[i]),
                    probe(lambda name=name: name in pv), probe(lambda k=k: k in pv),
                    probe(lambda name=name: pv.get(name, "<absent>") if hasattr(pv, "get") else None)])
    out.append(["<unknown>", probe(lambda: pv["no such parameter"]), probe(lambda: "no such parameter" in pv),
                probe(lambda: len(pv))])
    return out


def model_report(model, events, seed: int, with_value: bool) -> dict:
    import sympy as sp  # noqa: PLC0415

    from vp import registry as R  # noqa: PLC0415

    def d(obj):
        return [_sha(json.dumps(R.canon(obj))), _sha(sp.srepr(obj))]

    rep = {
        "intensity": d(model.intensity),
        "amplitudes": [[d(k), d(v)] for k, v in model.amplitudes.items()],
        "parameter_defaults": [[sp.srepr(k), repr(v), type(v).__name__] for k, v in model.parameter_defaults.items()],
        "parameter_access": parameter_access(model.parameter_defaults),
        "kinematic_variables": [[sp.srepr(k), d(v)] for k, v in model.kinematic_variables.items()],
        "components": [[k, d(v)] for k, v in model.components.items()],
        "types": [type(model).__name__, type(model.amplitudes).__name__, type(model.parameter_defaults).__name__,
                  type(model.kinematic_variables).__name__, type(model.components).__name__],
    }
    import qrules  # noqa: PLC0415

    rep["reaction_info"] = _sha(json.dumps(qrules.io.asdict(model.reaction_info), sort_keys=True, default=str))
    if with_value:
        rep["value"] = model_value(model, events, seed)
    return rep


def model_value(model, events, seed: int):
    """Intensity on the lattice events: ["ok", [[re, im], ...]] or ["error", message]."""
    import numpy as np  # noqa: PLC0415

    from vp.interp import Kinematics, MultiEvaluator  # noqa: PLC0415

    if events is None:
        return ["skipped", "initial state below threshold"]
    try:
        expr = model.expression
        evaluator = MultiEvaluator({"I": expr}, dict(model.parameter_defaults))
        needed = {s.name for s in evaluator.free}
        kfn = Kinematics(model.kinematic_variables, wanted=needed, fixed=dict(model.parameter_defaults))
        kv = kfn({int(k): np.asarray(v) for k, v in events.items()})
        missing = needed - set(kv)
        if missing:
            return ["error", f"no value for {sorted(missing)[:4]}"]
        val = np.asarray(evaluator(kv)["I"], dtype=complex).ravel()
    except Exception as exc:  # noqa: BLE001
        return ["error", f"{type(exc).__name__}: {str(exc)[:120]}"]
    return ["ok", [[float(z.real), float(z.imag)] for z in val]]


def child_main(path: str) -> int:
    from vp import core  # noqa: PLC0415

    core.ensure_repo_import()
    with open(path, "rb") as f:
        payload = pickle.load(f)  # noqa: S301
    seed = payload["seed"]
    out = []
    for item in payload["items"]:
        res = {"id": item["id"], "protocols": {}}
        loaded_by_canon = {}
        for proto, blob in item["pickles"].items():
            try:
                obj = pickle.loads(blob)  # noqa: S301
            except Exception as exc:  # noqa: BLE001
                res["protocols"][str(proto)] = {"error": f"{type(exc).__name__}: {str(exc)[:200]}"}
                continue
            try:
                if payload["kind"] == "expr":
                    rep = expr_report(obj, seed, with_value=False)
                else:
                    rep = model_report(obj, item.get("events"), seed, with_value=False)
            except Exception as exc:  # noqa: BLE001
                res["protocols"][str(proto)] = {"error": f"report failed: {type(exc).__name__}: {str(exc)[:200]}"}
                continue
            key = json.dumps(rep, sort_keys=True)
            if key not in loaded_by_canon:
                from vp import registry as R  # noqa: PLC0415

                if payload["kind"] == "expr":
                    rep["value"] = R.numeric_value(obj, seed)
                elif item.get("want") is not None and any(item["want"].get(k) != rep.get(k) for k in item["want"]):
                    rep["value"] = None  # structure differs: violation established without numerics
                else:
                    rep["value"] = model_value(obj, item.get("events"), seed)
                loaded_by_canon[key] = rep["value"]
            else:
                rep["value"] = loaded_by_canon[key]
            res["protocols"][str(proto)] = rep
        out.append(res)
    print("RESULT " + json.dumps({"hashseed": os.environ.get("PYTHONHASHSEED"), "items": out}))
    return 0


# ------------------------------------------------------------------ comparison
def compare_reports(want: dict, got: dict, kind: str) -> list[str]:
    """Names of the attributes that differ between the original's and a loaded report."""
    from vp import registry as R  # noqa: PLC0415

    diffs = []
    for key in want:
        if key in {"value", "str"}:
            continue
        if want[key] != got.get(key):
            if isinstance(want[key], list) and isinstance(got.get(key), list) and kind == "model":
                a, b = want[key], got[key]
                if sorted(map(json.dumps, a)) == sorted(map(json.dumps, b)):
                    diffs.append(f"{key}(order)")
                else:
                    diffs.append(key)
            else:
                diffs.append(key)
    wv, gv = want.get("value"), got.get("value")
    if wv is not None and gv is not None:
        if kind == "expr":
            verdict = R.values_close(wv, gv)
        else:
            verdict = _model_values_close(wv, gv)
        if verdict == "differ":
            diffs.append("value")
    return diffs


def _model_values_close(a, b) -> str:
    import numpy as np  # noqa: PLC0415

    if a[0] != b[0]:
        return "differ"
    if a[0] != "ok":
        return "undefined" if a[1] == b[1] else "differ"
    x = np.array([complex(*z) for z in a[1]])
    y = np.array([complex(*z) for z in b[1]])
    if x.shape != y.shape:
        return "differ"
    fx, fy = np.isfinite(x), np.isfinite(y)
    if np.any(fx != fy):
        return "differ"
    if not np.any(fx):
        return "undefined"
    scale = np.maximum(np.maximum(np.abs(x[fx]), np.abs(y[fy])), 1e-300)
    return "equal" if np.all(np.abs(x[fx] - y[fy]) <= 1e-12 * scale) else "differ"


class Rec:
    def __init__(self) -> None:
        self.viol, self.outcomes, self.nontrivial, self.counters = [], {}, [], {}
        self.n_eval = 0
        self.sample = None

    def out(self, key, n=1):
        self.outcomes[key] = self.outcomes.get(key, 0) + n

    def count(self, key, n=1):
        self.counters[key] = self.counters.get(key, 0) + n

    def bad(self, msg, tags, known: bool, detail=None):
        tags = list(tags)
        if known:
            tags.append(KNOWN_TAG)
        self.viol.append({"msg": msg, "tags": tags, "detail": detail or {}})
        self.out("violation")

    def result(self):
        return {"violations": self.viol, "evaluations": self.n_eval, "nontrivial": self.nontrivial,
                "outcomes": self.outcomes, "counters": self.counters,
                **({"sample": self.sample} if self.sample is not None else {})}


# ------------------------------------------------------------- expression cases
def eval_expr(case) -> dict:
    from vp import registry as R  # noqa: PLC0415

    rec = Rec()
    seed = case.get("seed", 0)
    items, originals = [], {}
    for k, desc in enumerate(case["descs"]):
        ident = case["first"] + k
        try:
            e = R.build(desc)
        except (TypeError, ValueError, IndexError) as exc:
            rec.out(f"shape-rejected:{type(exc).__name__}")
            continue
        info = R.info(desc[1])
        if not isinstance(e, info.cls):
            rec.out("constructor-evaluates")
            continue
        known = R.has_nested_unevaluated(e, require_attr_field=False)
        attrs = R.nonsympy_attrs(e)
        non_default = any(v is not None and v is not _default_of(info, k2) for k2, v in attrs.items())
        interesting = known or non_default
        rec.count("expressions")
        if known:
            rec.count("expressions_with_nested_unevaluated_argument")
        if non_default:
            rec.count("expressions_with_non_default_non_sympy_attribute")
        want = expr_report(e, seed, with_value=True)
        where = f"{R.describe(desc)}"
        blobs = {}
        for proto in PROTOCOLS:
            rec.n_eval += 1
            try:
                blob = pickle.dumps(e, protocol=proto)
                loaded = pickle.loads(blob)  # noqa: S301
            except Exception as exc:  # noqa: BLE001
                rec.bad(f"pickle protocol {proto} raised {type(exc).__name__}: {str(exc)[:200]} [{where}]",
                        ["exception", "same-process", f"class:{info.name}"], known, {"shape": desc})
                continue
            blobs[proto] = blob
            problems = []
            if not (loaded == e) or not (e == loaded) or loaded != e:
                problems.append("==")
            elif hash(loaded) != hash(e):
                problems.append("hash")
            for name, v in attrs.items():
                lv = getattr(loaded, name, "<missing>")
                if lv is not v and lv != v:
                    problems.append(f"attribute {name}: {lv!r} != {v!r}")
            got = expr_report(loaded, seed, with_value=(proto == PROTOCOLS[-1]))
            if proto != PROTOCOLS[-1]:
                got["value"] = None
            problems += compare_reports(want, got, "expr")
            if problems:
                rec.bad(f"same process, protocol {proto}: loaded {got['str']} differs from the original {want['str']} in"
                        f" {problems} [{where}]", ["same-process", f"class:{info.name}", *_kinds(problems)], known,
                        {"shape": desc, "protocol": proto})
            else:
                rec.out("expression:same-process:identical")
                if interesting:
                    rec.nontrivial.append([info.name, ident, proto, "same"])
        if blobs:
            items.append({"id": ident, "pickles": blobs})
            originals[ident] = (want, desc, info.name, known, interesting)
    if items:
        child = run_child({"kind": "expr", "seed": seed, "items": items})
        rec.count("fresh_interpreters")
        for res in child["items"]:
            want, desc, name, known, interesting = originals[res["id"]]
            for proto, got in res["protocols"].items():
                rec.n_eval += 1
                if "error" in got:
                    rec.bad(f"fresh interpreter, protocol {proto}: load failed: {got['error']} [{R.describe(desc)}]",
                            ["exception", "fresh-process", f"class:{name}"], known, {"shape": desc})
                    continue
                problems = compare_reports(want, got, "expr")
                if problems:
                    rec.bad(f"fresh interpreter, protocol {proto}: loaded {got['str']} differs from the original"
                            f" {want['str']} in {problems} [{R.describe(desc)}]",
                            ["fresh-process", f"class:{name}", *_kinds(problems)], known, {"shape": desc, "protocol": proto})
                else:
                    rec.out("expression:fresh-process:identical")
                    if interesting:
                        rec.nontrivial.append([name, res["id"], int(proto), "fresh"])
        if rec.sample is None:
            ident = items[0]["id"]
            rec.sample = {"expression": originals[ident][0]["str"], "protocols": list(PROTOCOLS),
                          "fresh_interpreter_hashseed": child.get("hashseed"), "batch": len(items)}
    return rec.result()


def _default_of(info, field_name):
    import dataclasses  # noqa: PLC0415

    for f in dataclasses.fields(info.cls):
        if f.name == field_name:
            return None if f.default is dataclasses.MISSING else f.default
    return None


def _kinds(problems) -> list[str]:
    out = []
    for p in problems:
        k = p.split(" ")[0].split("(")[0]
        tag = f"differs:{k}"
        if tag not in out:
            out.append(tag)
    return out


# ------------------------------------------------------------------ model cases
def model_has_nested(model) -> bool:
    from vp import registry as R  # noqa: PLC0415

    exprs = [model.intensity, *model.amplitudes.values(), *model.kinematic_variables.values(),
             *model.components.values()]
    return any(R.has_nested_unevaluated(e, require_attr_field=False) for e in exprs)


def model_has_attribute(model) -> bool:
    """Some @unevaluated node of the model carries a non-default non-SymPy attribute."""
    import dataclasses  # noqa: PLC0415

    import sympy as sp  # noqa: PLC0415

    from vp import registry as R  # noqa: PLC0415

    for e in [*model.amplitudes.values(), *model.components.values()]:
        for node in sp.preorder_traversal(e):
            if not R.is_unevaluated_instance(node):
                continue
            for f in dataclasses.fields(type(node)):
                if f.metadata.get("sympify"):
                    continue
                default = None if f.default is dataclasses.MISSING else f.default
                if getattr(node, f.name, None) is not default:
                    return True
    return False


def same_process_model_problems(model, loaded) -> list[str]:
    problems = []
    for name in ("intensity", "amplitudes", "parameter_defaults", "kinematic_variables", "components",
                 "reaction_info"):
        a, b = getattr(model, name), getattr(loaded, name)
        try:
            if not (a == b):
                problems.append(f"{name}(==)")
                continue
        except Exception as exc:  # noqa: BLE001
            problems.append(f"{name}(== raised {type(exc).__name__})")
            continue
        if hasattr(a, "keys") and list(a.keys()) != list(b.keys()):
            problems.append(f"{name}(order)")
        if type(a) is not type(b):
            problems.append(f"{name}(type {type(b).__name__})")
    if not (model == loaded):
        problems.append("model(==)")
    if parameter_access(model.parameter_defaults) != parameter_access(loaded.parameter_defaults):
        problems.append("parameter_defaults(look-up by name / position / membership)")
    return problems


def eval_model(case) -> dict:
    import attrs  # noqa: PLC0415
    import numpy as np  # noqa: PLC0415

    from vp import reactions as RX  # noqa: PLC0415
    from vp.checks import c01  # noqa: PLC0415
    from vp.ref import frames  # noqa: PLC0415

    rec = Rec()
    seed = case.get("seed", 0)
    reaction0 = RX.reaction_from(case["reaction"])
    items, originals = [], {}
    for vi, (align, dyn) in enumerate(case["variants"]):
        desc = c01._describe({"reaction": case["reaction"], "align": align, "dyn": dyn})  # noqa: SLF001
        builder, reaction = c01.make_builder(reaction0, align, dyn)
        try:
            model = builder.formulate()
        except ValueError as exc:  # documented: e.g. form factor for a decay without defined L
            rec.out(f"model:formulate-rejected:{str(exc)[:40]}")
            continue
        variants = [("formulated", model)]
        if vi == 0 and case.get("reorder", True):
            pv = model.parameter_defaults
            keys = list(pv.keys())
            if len(keys) >= 2:
                reordered = {k: pv[k] for k in reversed(keys)}
                first = keys[0]
                reordered[first] = complex(1.5, -0.25) if not isinstance(pv[first], complex) else 2
                variants.append(("re-ordered parameters", attrs.evolve(model, parameter_defaults=reordered)))
        final_ids = sorted(reaction.final_state)
        masses = [reaction.final_state[i].mass for i in final_ids]
        M = next(iter(reaction.initial_state.values())).mass
        events = None
        if M > sum(masses):
            ev0 = frames.lattice_events(M, masses, 3, seed, salt=15)
            events = {final_ids[k]: np.asarray(ev0[k]) for k in range(len(final_ids))}
        for label, m in variants:
            ident = f"{vi}:{label}"
            known = model_has_nested(m)
            nontrivial = len(m.amplitudes) >= 2 and len(m.kinematic_variables) >= 1
            rec.count("models")
            if known:
                rec.count("models_with_nested_unevaluated_argument")
            if model_has_attribute(m):
                rec.count("models_with_non_default_non_sympy_attribute")
            rec.out(f"model:align={align},dyn={dyn}")
            evaluate = label == "formulated"
            want = model_report(m, events if evaluate else None, seed, with_value=True)
            if want["value"][0] == "ok":
                rec.out("model:evaluated")
            else:
                rec.out(f"model:value-{want['value'][0]}")
            where = f"{desc} | {label}"
            blobs = {}
            reports_seen = {}
            for proto in PROTOCOLS:
                rec.n_eval += 1
                try:
                    blob = pickle.dumps(m, protocol=proto)
                    loaded = pickle.loads(blob)  # noqa: S301
                except Exception as exc:  # noqa: BLE001
                    rec.bad(f"pickle protocol {proto} of the model raised {type(exc).__name__}: {str(exc)[:200]} [{where}]",
                            ["exception", "same-process", "model"], known)
                    continue
                blobs[proto] = blob
                problems = same_process_model_problems(m, loaded)
                got = model_report(loaded, events, seed, with_value=False)
                key = json.dumps(got, sort_keys=True)
                identical = not compare_reports(want, {**got, "value": None}, "model")
                if not evaluate or (identical and (align != "none" or proto != PROTOCOLS[-1])):
                    # structurally identical => same generated code; aligned models are
                    # evaluated in the fresh interpreter only (cost)
                    got["value"] = None
                else:
                    if key not in reports_seen:
                        reports_seen[key] = model_value(loaded, events, seed)
                    got["value"] = reports_seen[key]
                for p in compare_reports(want, got, "model"):
                    if not any(q.startswith(p.split("(")[0]) for q in problems):
                        problems.append(p)
                if problems:
                    rec.bad(f"same process, protocol {proto}: loaded model differs in {problems} [{where}]",
                            ["same-process", "model", *_kinds(problems)], known, {"protocol": proto})
                else:
                    rec.out("model:same-process:identical")
                    if nontrivial:
                        rec.nontrivial.append([where, proto, "same"])
            if blobs:
                items.append({"id": ident, "pickles": blobs, "want": {k: v for k, v in want.items() if k != "value"},
                              "events": None if events is None or not evaluate else {int(k): v for k, v in events.items()}})
                originals[ident] = (want, where, known, nontrivial)
            if rec.sample is None:
                rec.sample = {"model": where, "amplitudes": len(m.amplitudes),
                              "parameters": len(m.parameter_defaults),
                              "kinematic_variables": len(m.kinematic_variables),
                              "nested_unevaluated_argument_somewhere": known,
                              "intensity_on_lattice": want["value"][1][:1] if want["value"][0] == "ok" else want["value"]}
    if items:
        child = run_child({"kind": "model", "seed": seed, "items": items})
        rec.count("fresh_interpreters")
        for res in child["items"]:
            want, where, known, nontrivial = originals[res["id"]]
            for proto, got in res["protocols"].items():
                rec.n_eval += 1
                if "error" in got:
                    rec.bad(f"fresh interpreter, protocol {proto}: load failed: {got['error']} [{where}]",
                            ["exception", "fresh-process", "model"], known)
                    continue
                problems = compare_reports(want, got, "model")
                if problems:
                    rec.bad(f"fresh interpreter, protocol {proto}: loaded model differs in {problems} [{where}]",
                            ["fresh-process", "model", *_kinds(problems)], known, {"protocol": int(proto)})
                else:
                    rec.out("model:fresh-process:identical")
                    if nontrivial:
                        rec.nontrivial.append([where, int(proto), "fresh"])
    return rec.result()


def eval_case(case):
    import warnings  # noqa: PLC0415

    warnings.simplefilter("ignore")
    if case["kind"] == "expr":
        return eval_expr(case)
    return eval_model(case)


if __name__ == "__main__":
    if len(sys.argv) == 3 and sys.argv[1] == "child":
        sys.exit(child_main(sys.argv[2]))
    sys.exit(2)
