"""C16 - cached unfolding equals doit() whatever the cache directory has seen.

Four engines, all executing the real ``ampform.sympy.perform_cached_doit`` on real
temporary directories (nothing is modelled; see vp/c16_worker.py and vp/sched.py):

SEQ    breadth-first exploration, with merging of equal canonical directory states, of
       all histories of operations  call(e) | pre-seed(file of e, content) |
       crash-during-call(e, scheduling point)  up to a depth bound; in every state every
       call(e) is judged ("after any history a further call still returns e.doit()").
SCHED  two callers as threads under a baton (every source line of the cache code is a
       scheduling point); all interleavings with at most p preemptions.
CRASH  a single writer is stopped at every scheduling point, the directory is copied as
       the OS sees it, follow-up calls run on the copy; plus every byte prefix of every
       file the writer produced (torn write / disk full) as a starting directory.

PAIRS  call-only histories [a, b, a] for all ordered pairs of a larger catalogue (adds two
       Wigner D-functions whose Python hashes are equal because hash(-1) == hash(-2)).

Everything runs three times in worker subprocesses started with PYTHONHASHSEED unset,
"0" and "1" (the key function switches algorithm on that variable).  The driver below
only starts the workers, merges their JSON results in a fixed order and records them.

Oracle (every call, in every engine): the return value is structurally equal (``==`` and
equal ``srepr``) to ``e.doit()`` computed without the cache, and no exception escapes.
"""

from __future__ import annotations

import json
import os
import subprocess
import sys
import time

PROPERTY = "C16"
LEVEL = "model_checking"
MODES = ["unset", "0", "1"]
RULE = (
    "alphabet e1..e6 = {PhaseSpaceFactor(s,m1,m2) with plain / positive symbols (same str,"
    " different doit), EnergyDependentWidth with phsp_factor=PhaseSpaceFactor /"
    " PhaseSpaceFactorSWave (same str and srepr, different doit), controls"
    " BreakupMomentumSquared(s,m1,m2), BlattWeisskopfSquared(z,2)}; per hash-seed mode"
    " {unset,0,1}: SEQ = all histories of depth <= 3 (4 thorough) over call(e) |"
    " pre-seed(entry file of e, {empty, first half of the valid pickle, well-formed pickle"
    " of a missing module, well-formed pickle whose reconstruction raises ValueError, (where"
    " keys collide) valid pickle of the colliding partner}) |"
    " crash(e, every scheduling point), BFS merging"
    " equal directory listings, every call(e) judged in every state incl. those at the"
    " depth bound; SCHED = all interleavings of two callers (pairs e1|e1, e3|e3, e1|e2,"
    " e3|e4, e1|e5, e3|e6 on an empty / warm / torn / (thorough) unloadable-pickle directory) with <= 1 (2 thorough; 2 for"
    " e1|e1 also in quick) preemptions, every source line of the cache code being a"
    " scheduling point; CRASH = every scheduling point of a single writer (same start"
    " directories) followed by [same, colliding, same] and [colliding, same] calls, +"
    " every byte prefix of every file the writer produces followed by [same, colliding,"
    " same]; PAIRS = histories [call a, call b, call a] for all ordered pairs of e1..e6 +"
    " {WignerD(2,-1,0,..), WignerD(2,-2,0,..) (equal Python hash), BlattWeisskopfSquared(z,1)}"
    ". A judged call is non-trivial when the directory it starts from is non-empty"
    " or the other caller was preempted/preempting; distinct = distinct (mode, engine,"
    " canonical state or schedule or crash point or prefix, expression)"
)
ASSUMPTIONS = [
    "SEQ merges histories that reach the same directory listing (names + content"
    " digests; files that are not an entry file of the alphabet, e.g. temporaries left by"
    " a crashed writer, are identified up to their name): perform_cached_doit is taken to"
    " be a function of (expression, directory contents, hash-seed mode) - its only"
    " in-process state is a warn-once functools.cache and SymPy's transparent cache",
    "scheduling points are source lines of ampform/sympy/{__init__,_cache}.py; an"
    " interleaving inside one line (e.g. between open() truncating and returning) or"
    " inside pickle/os calls is not explored; threads stand in for processes (the only"
    " shared state is the directory; no in-process locks exist in the cache code)",
    "a crash is modelled as: the directory as the OS sees it when the writer is parked"
    " before a source line, or any byte prefix of a file it writes; reordering of directory"
    " operations by the file system after power loss and rename atomicity (POSIX) are not"
    " exercised",
    "a VALID pickle of an unrelated object placed under exactly the key of an expression"
    " can only arise from a key collision; it is generated only for the real colliding"
    " partner (hash-seed unset) and otherwise counted as not judged",
    "PYTHONHASHSEED 'other' is represented by the value 1",
]


# ------------------------------------------------------------------- alphabet
def build_alphabet():
    """e1..e6 (real library classes, doit() in < 1 ms once SymPy's cache is warm)."""
    import sympy as sp  # noqa: PLC0415

    from ampform.dynamics import (  # noqa: PLC0415
        BlattWeisskopfSquared,
        EnergyDependentWidth,
        PhaseSpaceFactor,
        PhaseSpaceFactorSWave,
    )
    from ampform.dynamics.phasespace import BreakupMomentumSquared  # noqa: PLC0415

    s, m1, m2, m0, w0, z = sp.symbols("s m1 m2 m0 Gamma0 z")
    sp_, m1p, m2p = sp.symbols("s m1 m2", positive=True)
    return [
        # pair 1: differ only in symbol assumptions; doit() = sqrt(.../s)/sqrt(s) vs sqrt(...)/s
        ("e1", PhaseSpaceFactor(s, m1, m2)),
        ("e2", PhaseSpaceFactor(sp_, m1p, m2p)),
        # pair 2: differ only in a non-SymPy attribute (not printed by str nor srepr)
        ("e3", EnergyDependentWidth(s, m0, w0, m1, m2, 0, 1, phsp_factor=PhaseSpaceFactor)),
        ("e4", EnergyDependentWidth(s, m0, w0, m1, m2, 0, 1, phsp_factor=PhaseSpaceFactorSWave)),
        # controls: same arguments as e1 but another class / unrelated
        # (a third kind of pair, "same str, different class of a named factor", does not
        #  exist: str() prints the class name - BreakupMomentumSquared(s, m1, m2) vs
        #  PhaseSpaceFactor(s, m1, m2) - so e5 doubles as that comparator)
        ("e5", BreakupMomentumSquared(s, m1, m2)),
        ("e6", BlattWeisskopfSquared(z, 2)),
    ]


def build_extras():
    """x7.. : only used in call-only histories of ordered pairs (engine PAIRS).

    x7/x8 differ in one integer argument, -1 vs -2.  CPython has hash(-1) == hash(-2), and
    SymPy hashes an expression from the hashes of its arguments, so hash(x7) == hash(x8):
    with a fixed PYTHONHASHSEED the cache key IS hash(expr).  Both Wigner D-functions
    occur in every model with a spin-2 resonance.  x9 is a control for e6 (2 -> 1).
    """
    import sympy as sp  # noqa: PLC0415
    from sympy.physics.quantum.spin import Rotation  # noqa: PLC0415

    from ampform.dynamics import BlattWeisskopfSquared  # noqa: PLC0415

    from ampform.dynamics import EnergyDependentWidth  # noqa: PLC0415
    from ampform.dynamics.phasespace import PhaseSpaceFactor, PhaseSpaceFactorAbs  # noqa: PLC0415

    def make_phsp(k):
        # closures of one factory: same module and qualified name, different behaviour
        def phsp(s, m1, m2):
            return (PhaseSpaceFactor if k == 0 else PhaseSpaceFactorAbs)(s, m1, m2) * (k + 1)

        return phsp

    phi, theta, z = sp.symbols("phi theta z")
    s, m0, w0, m1, m2 = sp.symbols("s m0 Gamma0 m1 m2")
    return [
        ("x7", Rotation.D(2, -1, 0, phi, theta, 0)),
        ("x8", Rotation.D(2, -2, 0, phi, theta, 0)),
        ("x9", BlattWeisskopfSquared(z, 1)),
        # x10/x11: same str, function-valued non-SymPy attributes that share a qualified name
        ("x10", EnergyDependentWidth(s, m0, w0, m1, m2, 1, 1, phsp_factor=make_phsp(0))),
        ("x11", EnergyDependentWidth(s, m0, w0, m1, m2, 1, 1, phsp_factor=make_phsp(1))),
    ]


# --------------------------------------------------------------------- driver
def _worker_env(mode: str) -> dict:
    from vp import core  # noqa: PLC0415

    env = dict(os.environ)
    env.pop("PYTHONHASHSEED", None)
    if mode != "unset":
        env["PYTHONHASHSEED"] = mode
    env["PYTHONPATH"] = str(core.ROOT) + (
        os.pathsep + env["PYTHONPATH"] if env.get("PYTHONPATH") else ""
    )
    return env


def _spawn(job: dict):
    from vp import core  # noqa: PLC0415

    return subprocess.Popen(  # noqa: S603
        [sys.executable, "-W", "ignore", "-m", "vp.c16_worker"],
        stdin=subprocess.PIPE, stdout=subprocess.PIPE, stderr=subprocess.PIPE,
        env=_worker_env(job["mode"]), cwd=str(core.ROOT), text=True,
    )


def _collect(proc, job: dict) -> dict:
    from vp.core import HarnessError  # noqa: PLC0415

    out, err = proc.communicate(json.dumps(job))
    if err and os.environ.get("VERIF_PROFILE"):
        sys.stderr.write(err)
    result = None
    for line in out.splitlines():
        if line.startswith("C16-RESULT "):
            result = json.loads(line[len("C16-RESULT "):])
    if result is None:
        msg = (
            f"C16 worker (hash-seed {job['mode']}) gave no result, exit {proc.returncode}:\n"
            + err[-3000:]
        )
        raise HarnessError(msg)
    if result.get("harness_error"):
        msg = f"C16 worker (hash-seed {job['mode']}): {result['harness_error']}"
        raise HarnessError(msg)
    return result


def run_workers(jobs: list[dict]) -> list[dict]:
    procs = [_spawn(job) for job in jobs]  # all modes in parallel, collected in fixed order
    results = []
    error = None
    for proc, job in zip(procs, jobs):
        try:
            results.append(_collect(proc, job))
        except Exception as exc:  # noqa: BLE001
            error = error or exc
    if error is not None:
        raise error
    return results


class _Counted:
    """A set-like stand-in that only knows its size (the workers count distinct keys)."""

    def __init__(self, n: int) -> None:
        self.n = n

    def __len__(self) -> int:
        return self.n

    def add(self, _key) -> None:
        self.n += 1


def run(ctx) -> None:
    from vp import core  # noqa: PLC0415

    procs = max(1, core.N_WORKERS // len(MODES))
    jobs = [
        {"mode": mode, "tier": ctx.tier, "seed": ctx.seed, "procs": procs}
        for mode in MODES
    ]
    t0 = time.time()
    results = run_workers(jobs)
    nontrivial = 0
    per_mode = {}
    for mode, res in zip(MODES, results):  # fixed order
        nontrivial += res["nontrivial"]
        ctx.record({
            "evaluations": res["evaluations"],
            "outcomes": res["outcomes"],
            "states": res["states"],
            "transitions": res["transitions"],
            "traces": res["traces"],
            "counters": res["counters"],
            "caps": res["caps"],
        })
        for sample in res["samples"]:
            if len(ctx.samples) < 12:
                ctx.samples.append(sample)
        for v in res["violations"]:
            ctx.record({"violations": [v], "evaluations": 0})
        per_mode[f"hashseed-{mode}"] = res["summary"]
    ctx.nontrivial = _Counted(nontrivial)
    ctx.extra["per_hash_seed_mode"] = per_mode
    ctx.extra["workers_wall_s"] = round(time.time() - t0, 1)


def replay_case(payload: dict) -> dict:
    """Re-execute exactly one stored case (history / schedule / crash point / prefix)."""
    from vp import core  # noqa: PLC0415

    case = payload["case"]
    job = {"mode": case["mode"], "tier": "quick", "seed": 0, "procs": 1, "replay": case}
    try:
        res = run_workers([job])[0]
    except core.HarnessError as exc:
        return {"harness_error": str(exc)}
    return {"violations": res["violations"]}
