"""C17 - rename_symbols is a consistent renaming of the whole model.

Engine SEQ with merging.  State = the composed rename map (original name -> current
name); transition = one `model.rename_symbols(map)` executed on the live (immutable)
model of the source state, which is itself obtained by replaying the history that first
reached it from the original model.  BFS over rename histories of bounded depth.

Oracles
  on every transition (structural, exact): every attribute of the returned model equals
    the ORIGINAL model's attribute with the composed map applied by the reference
    (`xreplace` of Symbol(name, assumptions) -> Symbol(new name, same assumptions), keys
    of parameter_defaults / kinematic_variables mapped, merged parameters keep one of the
    carried-over values); dict order = natural sort order of the new names; C01's
    invariant on the result; assumptions preserved symbol by symbol; untouched symbols
    equal the original objects; the receiver is unchanged (snapshot of all attributes);
    a warning is logged exactly for the names that are not symbols of the receiver;
  on every newly discovered state (numeric): kinematic variables and intensity of the
    renamed model, evaluated from four-momenta with the carried-over parameter values
    (3 lattice events x 3 parameter vectors: defaults and two generic ones chosen by
    NEW name, so merged parameters share one value), equal the original model evaluated
    with every original parameter set to the value of its image.
"""

from __future__ import annotations

import hashlib
import logging
import math

import numpy as np

from vp import reactions as R
from vp.ref import sets as S

PROPERTY = "C17"
LEVEL = "model_checking"
RULE = (
    "models: jpsi_gpipi_f0f2 .hel/.can with BW+ff; DPD-aligned (relabelled ids, stable"
    " final-state ids: masses are parameters that occur in the zeta definitions);"
    " axis-angle aligned; stable ids + scalar initial mass; one resonance in three"
    " topologies. Sub-alphabet per model = one symbol of every role (2 coefficients, 2"
    " resonance masses, width, radius, helicity angle, invariant mass, final-state mass,"
    " alignment angle, scalar initial mass) + fresh names + one unknown name. Level 0: every"
    " single-entry map a->b over the sub-alphabet (b fresh or existing) and curated"
    " two-entry maps (swap, chain a->b b->c, double merge, two fresh, parameter<->kinematic"
    " swap, unknown+known), identity, empty, dict and iterable-of-pairs form; deeper levels:"
    " the core maps on every (thorough) / every core-reached (quick) state; depth 2 (quick)"
    " / 3 (thorough). Maps whose composed effect puts two kinematic variables or a kinematic"
    " variable and a parameter under one name are not generated (counted as excluded); two"
    " parameters with different assumptions under one name stay two symbols (structure"
    " oracle only) and later renames of that name must move both. BFS merges equal composed maps; non-trivial ="
    " distinct (model, composed map) states with >= 1 symbol actually renamed on which the"
    " numeric oracle ran"
)
ASSUMPTIONS = [
    "merging: the statement makes the result a function of the composed map (checked on"
    " every transition against the reference applied to the ORIGINAL model)",
    "a merge of two parameters may carry over either of the two defaults",
    "merging parameters whose assumptions differ: no single symbol can preserve both"
    " assumption sets, so the reference keeps two symbols of one name (assumptions are"
    " preserved, the coupling clause is not judged there) and applies later renames of that"
    " name to both",
    "numeric values come from one memoised interpreter (PoolSum by looping, amplitudes by"
    " look-up, WignerD by vp.ref.spin, leaves by sympy.lambdify of the library's doit());"
    " cross-checked against vp.interp.MultiEvaluator on the original of the light models",
    "3 lattice events, kept away from the phase-space boundary; points where both sides"
    " are NaN are skipped and counted",
]
CHUNK = 1
UNKNOWN = "nope"
ITEMS_PER_SHARD = {"quick": 36, "thorough": 90}


# ------------------------------------------------------------------ models
def model_list(tier: str) -> list[dict]:
    r1 = R.P("R1", 1, 1.2, -1)
    # spin-1/2 parent and one spin-1/2 final-state particle, resonances in two topologies
    half = R.three_body_spec("1/2", "1/2", 0, 0, [(0, r1, True, True), (2, R.P("R5", "1/2", 1.5, -1), True, True)],
                             parities=(1, 1, -1, -1))
    three = R.three_body_spec(1, 0, 0, 0, [(0, r1, True, True), (1, r1, True, True), (2, r1, True, True)],
                              parities=(-1, -1, -1, -1))
    return [
        {"mid": "jpsi_gpipi_f0f2.hel+BWff", "reaction": {"catalogue": "jpsi_gpipi_f0f2.hel"}, "align": "none",
         "dyn": "bwff", "stable": None, "scalar": False, "weight": "light"},
        {"mid": "jpsi_gpipi_f0f2.can+BWff", "reaction": {"catalogue": "jpsi_gpipi_f0f2.can"}, "align": "none",
         "dyn": "bwff", "stable": None, "scalar": False, "weight": "light"},
        {"mid": "jpsi_gpipi_f0f2.can+BW+stable-ids+scalar-initial-mass",
         "reaction": {"catalogue": "jpsi_gpipi_f0f2.can"}, "align": "none", "dyn": "bw", "stable": "all",
         "scalar": True, "weight": "light"},
        {"mid": "same-resonance-three-topologies+BWff", "reaction": {"spec": three}, "align": "none",
         "dyn": "bwff", "stable": None, "scalar": False, "weight": "light"},
        {"mid": "half-integer-two-topologies+DPD+BW+stable-ids", "reaction": {"spec": half}, "align": "dpd1",
         "dyn": "bw", "stable": "all", "scalar": False, "weight": "light"},
        {"mid": "half-integer-two-topologies+axis-angle+BW", "reaction": {"spec": half}, "align": "aa", "dyn": "bw",
         "stable": None, "scalar": False, "weight": "heavy"},
    ]


_MODELS = {}


def build_model(desc):
    key = desc["mid"]
    if key not in _MODELS:
        from vp.checks import c01  # noqa: PLC0415

        reaction0 = R.reaction_from(desc["reaction"])
        builder, reaction = c01.make_builder(reaction0, desc["align"], desc["dyn"])
        if desc["stable"] == "all":
            builder.config.stable_final_state_ids = sorted(reaction.final_state)
        builder.config.scalar_initial_state_mass = bool(desc["scalar"])
        _MODELS[key] = (builder.formulate(), reaction)
    return _MODELS[key]


# ------------------------------------------------------------------ symbols, alphabet
def plain_symbols(expr) -> set:
    import sympy as sp  # noqa: PLC0415

    return {s for s in expr.free_symbols if type(s) is sp.Symbol}


def collect_symbols(model) -> dict:
    """name -> set of Symbols of that name anywhere in the model (own traversal)."""
    import sympy as sp  # noqa: PLC0415

    syms = set(plain_symbols(model.intensity))
    for v in model.amplitudes.values():
        syms |= plain_symbols(sp.sympify(v))
    for v in model.components.values():
        syms |= plain_symbols(v)
    for k, v in model.kinematic_variables.items():
        syms.add(k)
        syms |= plain_symbols(v)
    for k in model.parameter_defaults:
        if type(k) is sp.Symbol:
            syms.add(k)
    out = {}
    for s in syms:
        out.setdefault(s.name, set()).add(s)
    return out


def _assum(sym):
    return tuple(sorted(sym.assumptions0.items()))


def pick_alphabet(model, expr_names) -> dict:
    """role -> name: one symbol of every role that exists in the model."""
    par = [getattr(s, "name", str(s)) for s in model.parameter_defaults]
    kin = [s.name for s in model.kinematic_variables]
    roles = {}

    def first(pred, pool, n=1):
        return [x for x in pool if pred(x)][:n]

    coefs = first(lambda x: x.startswith(("C_", "H_")), par, 2)
    for i, c in enumerate(coefs):
        roles[f"coef{i + 1}"] = c
    masses = first(lambda x: x.startswith("m_{"), par, 2)
    for i, c in enumerate(masses):
        roles[f"mres{i + 1}"] = c
    for role, prefix in (("width", "\\Gamma"), ("radius", "d_{")):
        got = first(lambda x, p=prefix: x.startswith(p), par)
        if got:
            roles[role] = got[0]
    got = first(lambda x: x.startswith("phi") and x in expr_names, kin)
    if got:
        roles["angle"] = got[0]
    got = first(lambda x: x.startswith("m_") and x[2:].isdigit() and len(x) == 4 and x in expr_names, kin)
    if got:
        roles["invmass"] = got[0]
    fs = first(lambda x: x.startswith("m_") and x[2:].isdigit() and len(x) == 3, par) or \
        first(lambda x: x.startswith("m_") and x[2:].isdigit() and len(x) == 3, kin[::-1])
    if fs:
        roles["fsmass"] = fs[0]
    # alignment angle: prefer one whose definition contains a (stable) mass parameter
    cands = []
    for k, v in model.kinematic_variables.items():
        if k.name.startswith(("\\zeta", "alpha_")):
            names = {s.name for s in plain_symbols(v)}
            cands.append((not (names & set(par)), not names, len(cands), k.name))
    if cands:
        roles["alignment-angle"] = min(cands)[3]
    got = first(lambda x: x.startswith("m_") and x[2:].isdigit() and len(x) >= 5, par)
    if got:
        roles["scalar-initial-mass"] = got[0]
    return roles


def make_ops(roles: dict, weight: str) -> tuple[list, int]:
    """(ops, number of core ops); an op is {"map": [[a, b], ...], "form": "dict"|"pairs"}.
    Core ops come first."""
    r = roles
    names = list(dict.fromkeys(r.values()))

    def have(*ks):
        return all(k in r for k in ks)

    core = []

    def add(lst, pairs):
        m = [[a, b] for a, b in pairs]
        if m not in [o["map"] for o in lst]:
            lst.append({"map": m})

    if have("coef1"):
        add(core, [(r["coef1"], "X1")])
    if have("coef1", "coef2"):
        add(core, [(r["coef1"], r["coef2"])])
    if have("mres1", "mres2"):
        add(core, [(r["mres1"], r["mres2"])])
    if have("mres2"):
        add(core, [(r["mres2"], "X2")])
    if have("angle"):
        add(core, [(r["angle"], "Y1")])
    if have("invmass"):
        add(core, [(r["invmass"], "Y2")])
    if have("coef1", "coef2"):
        add(core, [(r["coef1"], r["coef2"]), (r["coef2"], r["coef1"])])
        add(core, [(r["coef2"], "X1")])
    if have("coef1"):
        add(core, [("X1", r["coef1"])])
    if have("fsmass"):
        add(core, [(r["fsmass"], "Z1")])
    if have("width", "mres1"):
        add(core, [(r["width"], r["mres1"])])
    if have("mres1", "mres2"):
        add(core, [(r["mres1"], "X2"), (r["mres2"], "X2")])
    if have("alignment-angle"):
        add(core, [(r["alignment-angle"], "Y3")])
    if have("angle", "invmass"):
        add(core, [(r["angle"], r["invmass"]), (r["invmass"], r["angle"])])
    add(core, [])
    add(core, [(UNKNOWN, "X1")])
    if have("coef1", "angle"):
        add(core, [(r["coef1"], r["angle"]), (r["angle"], r["coef1"])])
    if have("radius", "width"):
        # different assumptions (positive / nonnegative): two symbols of one name, which a
        # later rename of that name must both follow
        add(core, [(r["radius"], r["width"])])
        add(core, [(r["width"], "X3")])
    if weight == "heavy":
        core = core[:1] + core[2:6] + core[9:10] + core[12:13] + core[14:16]
    ops = list(core)
    n_core = len(core)
    # every single-entry map over the sub-alphabet
    for a in [*names, UNKNOWN]:
        targets = ["X1", *names] if weight == "light" else ["X1", *names[:5]]
        for b in targets:
            add(ops, [(a, b)])
    # curated two-entry maps
    if have("coef1", "coef2"):
        add(ops, [(r["coef1"], r["coef2"]), (r["coef2"], "X1")])  # chain a->b, b->c
        add(ops, [(r["coef1"], "X1"), (r["coef2"], "X1")])  # double merge
    if have("mres1", "mres2"):
        add(ops, [(r["mres1"], r["mres2"]), (r["mres2"], r["mres1"])])
        add(ops, [(r["mres1"], r["mres2"]), (r["mres2"], "X2")])
    if have("coef1", "mres1"):
        add(ops, [(r["coef1"], "X1"), (r["mres1"], "X2")])
        add(ops, [(UNKNOWN, "X1"), (r["coef1"], "X2")])
    if have("angle", "invmass"):
        add(ops, [(r["angle"], "Y1"), (r["invmass"], "Y2")])
        add(ops, [(r["angle"], r["invmass"]), (r["invmass"], "Y2")])
    if have("fsmass", "alignment-angle"):
        add(ops, [(r["fsmass"], "Z1"), (r["alignment-angle"], "Y3")])
    if have("fsmass", "mres1"):
        add(ops, [(r["fsmass"], r["mres1"]), (r["mres1"], r["fsmass"])])
    if have("scalar-initial-mass"):
        add(ops, [(r["scalar-initial-mass"], "M0"), (r["coef1"], "X1")])
    if have("width", "radius"):
        add(ops, [(r["width"], "G"), (r["radius"], "d")])
    for i, op in enumerate(ops):
        op["form"] = ("dict", "pairs", "dict", "iter")[i % 4]
    return ops, n_core


# ------------------------------------------------------------------ set-up and plan
_SETUP = {}


class Setup:
    def __init__(self, desc, tier, seed) -> None:
        import sympy as sp  # noqa: PLC0415

        self.desc = desc
        self.tier = tier
        self.seed = seed
        self.model, self.reaction = build_model(desc)
        m = self.model
        by_name = collect_symbols(m)
        self.ambiguous = {n for n, ss in by_name.items() if len(ss) > 1}
        self.symbols = {n: next(iter(ss)) for n, ss in by_name.items() if len(ss) == 1}
        par = {getattr(s, "name", str(s)) for s in m.parameter_defaults}
        kin = {s.name for s in m.kinematic_variables}
        roles_of = {}
        for n in self.symbols:
            roles_of[n] = "both" if n in par and n in kin else "par" if n in par else "kin" if n in kin else "other"
        self.roles_of = roles_of
        self.rename_model = S.RenameModel(
            {n: ("par" if v == "par" else "kin") for n, v in roles_of.items()},
            {n: _assum(s) for n, s in self.symbols.items()})
        expr_names = set()
        for v in m.amplitudes.values():
            expr_names |= {s.name for s in plain_symbols(sp.sympify(v))}
        self.expr_names = expr_names
        self.roles = {k: v for k, v in pick_alphabet(m, expr_names).items() if v not in self.ambiguous}
        self.ops, self.n_core = make_ops(self.roles, desc["weight"])
        self.states, self.items, self.excluded = plan(self, tier)
        self.snapshot0 = snapshot(m)
        self.digest0 = srepr_digest(m)
        self.ref_cache = {}
        self.orig_values = {}
        self.events = None


def op_map(op) -> dict:
    return {a: b for a, b in op["map"]}


def plan(su: Setup, tier: str):
    """Reference BFS: states [{composed, hist, depth, core}], items [(src, op, dst, first)]."""
    rm = su.rename_model
    max_depth = 2 if tier == "quick" else 3
    ident = rm.identity()
    states = [{"composed": ident, "hist": [], "depth": 0, "core": True}]
    index = {rm.canon(ident): 0}
    items = []
    excluded = 0
    frontier = [0]
    for depth in range(max_depth):
        new = []
        for si in frontier:
            st = states[si]
            if depth == 0:
                ops = range(len(su.ops))
            elif depth == 1:
                if tier == "quick" and not st["core"]:
                    continue
                ops = range(su.n_core)
            else:
                if not st["core"] or su.desc["weight"] == "heavy":
                    continue
                ops = range(su.n_core)
            for oi in ops:
                ren = op_map(su.ops[oi])
                if not rm.well_defined(st["composed"], ren):
                    excluded += 1
                    continue
                c2 = S.compose(st["composed"], ren)
                key = rm.canon(c2)
                first = key not in index
                if first:
                    index[key] = len(states)
                    states.append({"composed": c2, "hist": [*st["hist"], oi], "depth": depth + 1,
                                   "core": st["core"] and oi < su.n_core})
                    new.append(index[key])
                items.append((si, oi, index[key], first))
        frontier = new
    return states, items, excluded


def get_setup(case) -> Setup:
    key = (case["mid"], case["tier"], case.get("seed", 0))
    if key not in _SETUP:
        desc = next(d for d in model_list(case["tier"]) if d["mid"] == case["mid"])
        _SETUP[key] = Setup(desc, case["tier"], case.get("seed", 0))
    return _SETUP[key]


def cases(tier, seed):
    out = []
    for desc in model_list(tier):
        su = Setup(desc, tier, seed)
        per = ITEMS_PER_SHARD[tier]
        nshards = max(1, math.ceil(len(su.items) / per))
        for shard in range(nshards):
            out.append({"mid": desc["mid"], "shard": shard, "nshards": nshards, "tier": tier, "seed": seed,
                        "n_items": len(su.items), "weight": desc["weight"]})
    out.sort(key=lambda c: (c["weight"] != "heavy", c["mid"], c["shard"]))
    return out


# ------------------------------------------------------------------ reference renaming
def snapshot(model):
    return (model.intensity, list(model.amplitudes.items()), list(model.parameter_defaults.items()),
            list(model.kinematic_variables.items()), list(model.components.items()), model.reaction_info)


def mutate_and_restore(model):
    """Edit the mutable mappings of `model` in place (change one value, add one key), let the
    caller look at other models, and undo the edits.  Returns a closure-free description;
    the edits are undone by `undo_edits`."""
    import sympy as sp  # noqa: PLC0415

    edited = []
    marker = sp.Symbol("verif_marker_")
    pd = model.parameter_defaults
    if len(pd):
        key = next(iter(pd))
        old = pd[key]
        try:
            pd[key] = (old + 1) if isinstance(old, (int, float, complex)) else 1.25
            edited.append("parameter_defaults[first key]")
            _UNDO.append((pd, key, old, True))
        except TypeError:
            pass
    for attr in ("amplitudes", "components", "kinematic_variables"):
        mapping = getattr(model, attr)
        k = "verif_marker_" if attr == "components" else marker
        try:
            mapping[k] = marker
            edited.append(f"{attr}[new key]")
            _UNDO.append((mapping, k, None, False))
        except TypeError:
            pass
    return edited


_UNDO: list = []


def undo_edits() -> None:
    while _UNDO:
        mapping, key, old, existed = _UNDO.pop()
        if existed:
            mapping[key] = old
        else:
            del mapping[key]


def same_snapshot(a, b) -> bool:
    if a[0] != b[0] or a[5] is not b[5]:
        return False
    for x, y in zip(a[1:5], b[1:5]):
        if len(x) != len(y):
            return False
        for (k1, v1), (k2, v2) in zip(x, y):
            if k1 != k2 or v1 != v2 or type(v1) is not type(v2):
                return False
    return True


def srepr_digest(model) -> str:
    import sympy as sp  # noqa: PLC0415

    h = hashlib.sha256()
    h.update(sp.srepr(model.intensity).encode())
    for d in (model.amplitudes, model.parameter_defaults, model.kinematic_variables, model.components):
        for k, v in d.items():
            h.update((sp.srepr(k) if isinstance(k, sp.Basic) else repr(k)).encode())
            h.update((sp.srepr(v) if isinstance(v, sp.Basic) else repr(v)).encode())
    return h.hexdigest()


def reference(su: Setup, composed: dict) -> dict:
    import sympy as sp  # noqa: PLC0415

    key = su.rename_model.canon(composed)
    if key in su.ref_cache:
        return su.ref_cache[key]
    m = su.model
    symmap = {}
    for name, sym in su.symbols.items():
        if composed.get(name, name) != name:
            symmap[sym] = sp.Symbol(composed[name], **sym.assumptions0)
    par = {}
    for k, v in m.parameter_defaults.items():
        par.setdefault(symmap.get(k, k), []).append(v)
    ref = {
        "symmap": symmap,
        "intensity": m.intensity.xreplace(symmap),
        "amplitudes": [(k, sp.sympify(v).xreplace(symmap)) for k, v in m.amplitudes.items()],
        "components": {k: v.xreplace(symmap) for k, v in m.components.items()},
        "kin": {symmap.get(k, k): v.xreplace(symmap) for k, v in m.kinematic_variables.items()},
        "par": par,
    }
    if len(su.ref_cache) > 400:
        su.ref_cache.clear()
    su.ref_cache[key] = ref
    return ref


# ------------------------------------------------------------------ numerics
_KIN_FN = {}


def _stable(text: str, k: int = 0) -> float:
    h = hashlib.sha256(f"{k}:{text}".encode()).digest()
    return int.from_bytes(h[:6], "big") / 2**48


def eval_kinematics(mapping, env: dict, events: dict) -> dict:
    import sympy as sp  # noqa: PLC0415

    from vp.interp import four_momentum_symbols  # noqa: PLC0415

    out = {}
    n = len(next(iter(events.values())))
    for sym, expr in mapping.items():
        if expr not in _KIN_FN:
            e2 = expr.doit()
            mom = four_momentum_symbols([e2])
            mnames = {str(m) for m in mom}
            others = sorted((x for x in e2.free_symbols if str(x) not in mnames), key=str)
            _KIN_FN[expr] = (mom, others, sp.lambdify([*mom, *others], e2, "numpy", cse=True))
        mom, others, fn = _KIN_FN[expr]
        missing = [o.name for o in others if o.name not in env]
        if missing:
            out[sym.name] = ("undefined", missing)
            continue
        with np.errstate(all="ignore"):
            v = fn(*[events[int(str(m)[1:])] for m in mom], *[env[o.name] for o in others])
        out[sym.name] = np.broadcast_to(np.asarray(v), (n,))
    return out


def agree(a, b):
    """(ok, n_skipped): relative comparison; points where both sides are NaN are skipped."""
    a = np.atleast_1d(np.asarray(a, dtype=complex))
    b = np.atleast_1d(np.asarray(b, dtype=complex))
    a, b = np.broadcast_arrays(a, b)
    both_nan = np.isnan(a) & np.isnan(b)
    if np.any(np.isnan(a) != np.isnan(b)):
        return False, int(both_nan.sum())
    keep = ~both_nan
    if not np.any(keep):
        return True, int(both_nan.sum())
    scale = max(float(np.max(np.abs(b[keep]))), float(np.max(np.abs(a[keep]))), 1e-12)
    return bool(np.max(np.abs(a[keep] - b[keep])) <= 1e-9 * scale), int(both_nan.sum())


def parameter_vector(model, variant: int) -> dict:
    """name -> value for the parameters of a model: defaults (0) or generic by name."""
    out = {}
    for s, v in model.parameter_defaults.items():
        name = getattr(s, "name", str(s))
        if variant == 0:
            out[name] = complex(v) if isinstance(v, complex) else float(v)
        elif name.startswith(("C_", "H_")) or isinstance(v, complex):
            out[name] = complex(0.4 + _stable(name, variant), _stable(name, 10 + variant) - 0.5)
        else:
            out[name] = float(v) * (1.0 + 0.02 * (_stable(name, variant) - 0.5))
    return out


def get_events(su: Setup):
    if su.events is None:
        from vp.ref import frames  # noqa: PLC0415

        ids = sorted(su.reaction.final_state)
        masses = [su.reaction.final_state[i].mass for i in ids]
        M = next(iter(su.reaction.initial_state.values())).mass
        ev0 = frames.lattice_events(M, masses, 3, su.seed, salt=17)
        su.events = {ids[k]: ev0[k] for k in range(len(ids))}
    return su.events


def model_values(su: Setup, model, pvals: dict):
    """(kinematic values, intensity) of a model from four-momenta and parameter values."""
    from vp.checks.c13 import Interp  # noqa: PLC0415

    kin = eval_kinematics(model.kinematic_variables, pvals, get_events(su))
    env = {k: v for k, v in kin.items() if not isinstance(v, tuple)}
    env.update(pvals)
    interp = Interp(env, amplitudes=dict(model.amplitudes))
    return kin, interp(model.intensity)


def original_values(su: Setup, pvals_orig: dict):
    key = tuple(sorted((k, complex(v)) for k, v in pvals_orig.items()))
    if key not in su.orig_values:
        if len(su.orig_values) > 200:
            su.orig_values.clear()
        su.orig_values[key] = model_values(su, su.model, pvals_orig)
    return su.orig_values[key]


# ------------------------------------------------------------------ evaluation
class _Capture(logging.Handler):
    def __init__(self) -> None:
        super().__init__(level=logging.WARNING)
        self.records = []

    def emit(self, record) -> None:
        self.records.append(record.getMessage())


def call_rename(model, op, handler):
    ren = op_map(op)
    arg = dict(ren)
    if op["form"] == "pairs":
        arg = list(ren.items())
    elif op["form"] == "iter":
        arg = iter(list(ren.items()))
    logger = logging.getLogger("ampform.helicity")
    handler.records.clear()
    logging.disable(logging.NOTSET)
    logger.addHandler(handler)
    try:
        return model.rename_symbols(arg)
    finally:
        logger.removeHandler(handler)
        logging.disable(logging.CRITICAL)


def describe(su, hist) -> str:
    return " ; ".join("{" + ", ".join(f"{a}->{b}" for a, b in su.ops[o]["map"]) + "}" for o in hist) or "<none>"


def classify(su, composed_src, ren) -> list[str]:
    """Witness predicates of the input (state + map)."""
    tags = []
    current = {}
    for o, n in composed_src.items():
        current.setdefault(n, []).append(o)
    for a, b in ren.items():
        if a not in current:
            tags.append("unknown-name")
            continue
        roles = {su.roles_of[o] for o in current[a]}
        tags += [f"renames:{x}" for x in sorted(roles)]
        if any(_parameter_only(su, o) for o in current[a]):
            tags.append("symbol-only-in-parameter-defaults")
        if b in current and b not in ren:
            tags.append("merge")
    if not ren:
        tags.append("empty-map")
    # evaluated on the whole history: some renamed symbol occurs in parameter_defaults only
    for o, n in S.compose(composed_src, ren).items():
        if o != n and _parameter_only(su, o):
            tags.append("symbol-only-in-parameter-defaults")
    return sorted(set(tags))


def _parameter_only(su, name) -> bool:
    """The symbol is a key of parameter_defaults and occurs nowhere else in the model."""
    return su.roles_of[name] == "par" and name not in su.expr_names and not _in_kin_exprs(su, name)


def _in_kin_exprs(su, name) -> bool:
    if not hasattr(su, "_kin_expr_names"):
        names = set()
        for v in su.model.kinematic_variables.values():
            names |= {s.name for s in plain_symbols(v)}
        su._kin_expr_names = names
    return name in su._kin_expr_names


def eval_case(case):
    su = get_setup(case)
    handler = _Capture()
    viol, outcomes, nontrivial, counters = [], {}, [], {}
    n_eval = n_states = n_trans = n_traces = 0
    sample = None
    mine = [it for k, it in enumerate(su.items) if k % case["nshards"] == case["shard"]]
    by_src = {}
    for it in mine:
        by_src.setdefault(it[0], []).append(it)

    def count(o, n=1):
        outcomes[o] = outcomes.get(o, 0) + n

    if case["shard"] == 0:
        n_states += 1  # the original model
        counters.update({"models": 1, "alphabet_symbols": len(su.roles), "ops_level0": len(su.ops),
                         "ops_core": su.n_core, "maps_excluded_ill_defined": su.excluded,
                         "planned_states": len(su.states), "planned_transitions": len(su.items)})
        if su.desc["weight"] == "light":
            bad_x = crosscheck_interpreter(su)
            n_eval += 1
            if bad_x:
                from vp.core import HarnessError  # noqa: PLC0415

                raise HarnessError(f"interpreter and MultiEvaluator disagree on the original model: {bad_x}")
    for si, its in by_src.items():
        st = su.states[si]
        # replay the history that first reached the source state
        model = su.model
        for oi in st["hist"]:
            model = call_rename(model, su.ops[oi], handler)
            n_traces += 1
        snap = snapshot(model)
        for _, oi, di, first in its:
            op = su.ops[oi]
            ren = op_map(op)
            dst = su.states[di]
            hist = [*st["hist"], oi]
            tags_in = [f"model:{su.desc['mid']}", *classify(su, st["composed"], ren)]

            def bad(kind, msg, extra=(), hist=hist, tags_in=tags_in):
                viol.append({"msg": f"{kind}: {msg} [{su.desc['mid']}; renames {describe(su, hist)}]",
                             "tags": [kind, *tags_in, *extra, *[f"{kind}+{t}" for t in tags_in[1:]]],
                             "detail": {"history": [su.ops[o] for o in hist]}})

            n_trans += 1
            n_traces += 1
            new = call_rename(model, op, handler)
            n_eval += 1
            # receiver untouched
            if not same_snapshot(snapshot(model), snap):
                bad("receiver-mutated", "the model rename_symbols was called on has changed")
                snap = snapshot(model)
            # ... and stays untouched when the RESULT is edited afterwards (no mutable
            # container is shared between the two models)
            if new is not model:
                shared = mutate_and_restore(new)
                if not same_snapshot(snapshot(model), snap):
                    bad("aliasing", f"editing {shared} of the renamed model changed the model rename_symbols"
                                    " was called on")
                undo_edits()
                if not same_snapshot(snapshot(model), snap):
                    snap = snapshot(model)
                n_eval += 1
            # warnings: exactly the names that are not symbols of the receiver
            current = set(st["composed"].values())
            unknown = [a for a in ren if a not in current]
            warned = [a for a in ren if any(r.endswith(" " + a) for r in handler.records)]
            if sorted(unknown) != sorted(warned):
                bad("warning", f"names without a symbol {unknown}, warned about {warned}")
            check_structure(su, new, model, dst["composed"], ren, bad)
            kinds = []
            if not ren:
                kinds.append("empty-map")
            elif unknown and len(unknown) == len(ren):
                kinds.append("unknown-name-only")
            elif dst["composed"] == st["composed"]:
                kinds.append("identity")
            else:
                imgs = list(dst["composed"].values())
                kinds.append("merging" if len(set(imgs)) < len(imgs) else "injective")
                moved = {su.roles_of[o] for o, n in dst["composed"].items() if st["composed"][o] != n}
                kinds.append("+".join(sorted(moved)))
            count("/".join(kinds))
            if first and su.rename_model.split(dst["composed"]):
                # two same-named symbols with different assumptions: structure only (the
                # numeric interpreter binds values by name)
                n_states += 1
                count("split-name-state(structure only)")
            elif first:
                n_states += 1
                res = check_numeric(su, new, dst["composed"], bad)
                n_eval += res["n"]
                counters["nan_points_skipped"] = counters.get("nan_points_skipped", 0) + res["skipped"]
                counters["numeric_comparisons"] = counters.get("numeric_comparisons", 0) + res["n"]
                renamed = sorted((o, n) for o, n in dst["composed"].items() if o != n)
                if renamed and res["n"]:
                    nontrivial.append([su.desc["mid"], renamed])
                if sample is None and len(hist) >= 2 and renamed:
                    sample = {"model": su.desc["mid"], "renames": describe(su, hist),
                              "form": [su.ops[o]["form"] for o in hist],
                              "composed_map": dict(renamed), "kind": kinds,
                              "intensity_on_lattice": [float(np.real(x)) for x in np.atleast_1d(res["value"])[:3]]}
    if case["shard"] == 0:
        n_eval += 1
        if srepr_digest(su.model) != su.digest0 or not same_snapshot(snapshot(su.model), su.snapshot0):
            viol.append({"msg": f"original-mutated: srepr digest of the original model changed [{su.desc['mid']}]",
                         "tags": ["original-mutated", f"model:{su.desc['mid']}"], "detail": {}})
    res = {"violations": viol[:40], "evaluations": n_eval, "nontrivial": nontrivial, "outcomes": outcomes,
           "states": n_states, "transitions": n_trans, "traces": n_traces, "counters": counters}
    if len(viol) > 40:
        res["counters"]["violations_not_listed"] = len(viol) - 40
    if sample is not None:
        res["sample"] = sample
    return res


def crosscheck_interpreter(su: Setup):
    from vp.interp import MultiEvaluator  # noqa: PLC0415

    pvals = parameter_vector(su.model, 1)
    kin, val = model_values(su, su.model, pvals)
    if any(isinstance(v, tuple) for v in kin.values()):
        return f"undefined kinematic inputs {[k for k, v in kin.items() if isinstance(v, tuple)]}"
    ev = MultiEvaluator({"I": su.model.expression}, {s: pvals[s.name] for s in su.model.parameter_defaults})
    want = ev({k: v for k, v in kin.items()})["I"]
    ok, _ = agree(val, want)
    return None if ok else f"{val} vs {want}"


def check_structure(su, new, receiver, composed, ren, bad) -> None:
    import sympy as sp  # noqa: PLC0415
    from sympy.tensor.array.expressions.array_expressions import ArraySymbol  # noqa: PLC0415

    if not ren and new is not receiver and not same_snapshot(snapshot(new), snapshot(receiver)):
        bad("empty-map", "an empty map did not return the same model")
    ref = reference(su, composed)
    # ---- attribute by attribute
    if new.intensity != ref["intensity"]:
        bad("attribute", "intensity differs from the original with the map applied", ["attr:intensity"])
    got_amp = list(new.amplitudes.items())
    if [k for k, _ in got_amp] != [k for k, _ in ref["amplitudes"]]:
        bad("attribute", "amplitude keys/order changed", ["attr:amplitudes"])
    else:
        wrong = [str(k) for (k, v), (_, w) in zip(got_amp, ref["amplitudes"]) if sp.sympify(v) != w]
        if wrong:
            bad("attribute", f"{len(wrong)} amplitudes differ from the original with the map applied, e.g."
                f" {wrong[0]}", ["attr:amplitudes"])
    if set(new.components) != set(ref["components"]):
        bad("attribute", "component names changed", ["attr:components"])
    else:
        wrong = [k for k, v in new.components.items() if v != ref["components"][k]]
        if wrong:
            bad("attribute", f"{len(wrong)} components differ from the original with the map applied, e.g."
                f" {wrong[0][:80]}", ["attr:components"])
    got_kin = dict(new.kinematic_variables)
    if set(got_kin) != set(ref["kin"]):
        miss = sorted(str(s) for s in set(ref["kin"]) - set(got_kin))
        extra = sorted(str(s) for s in set(got_kin) - set(ref["kin"]))
        bad("attribute", f"kinematic variables: missing {miss[:3]}, unexpected {extra[:3]}", ["attr:kinematic_variables"])
    else:
        wrong = [str(k) for k, v in got_kin.items() if v != ref["kin"][k]]
        if wrong:
            bad("attribute", f"definitions of kinematic variables {wrong[:3]} differ from the original with the"
                " map applied", ["attr:kinematic_variables"])
    got_par = dict(new.parameter_defaults.items())
    if set(got_par) != set(ref["par"]):
        miss = sorted(str(s) for s in set(ref["par"]) - set(got_par))
        extra = sorted(str(s) for s in set(got_par) - set(ref["par"]))
        bad("attribute", f"parameter defaults: missing {miss[:3]}, unexpected {extra[:3]}", ["attr:parameter_defaults"])
    else:
        wrong = [str(k) for k, v in got_par.items() if not any(v == w and type(v) is type(w) for w in ref["par"][k])]
        if wrong:
            bad("attribute", f"parameter defaults of {wrong[:3]} are not carried over", ["attr:parameter_defaults"])
    if new.reaction_info is not receiver.reaction_info and new.reaction_info != receiver.reaction_info:
        bad("attribute", "reaction_info changed", ["attr:reaction_info"])
    # ---- documented order of the mappings: natural sort order of the (new) names
    # (parameter_defaults is documented as sorted too, but no model - renamed or not - has it
    # sorted; that is not rename_symbols' doing and not judged here)
    for attr, names in (("kinematic_variables", [s.name for s in new.kinematic_variables]),
                        ("components", list(new.components))):
        wrong = S.out_of_natural_order(names)
        if wrong:
            bad("order", f"{attr} not in natural sort order: {wrong[0][0][:60]!r} before {wrong[0][1][:60]!r}",
                [f"attr:{attr}"])
    # ---- C01 on the result
    free = set()
    for v in new.amplitudes.values():
        free |= plain_symbols(sp.sympify(v))
    par, kin = set(got_par), set(got_kin)
    both = sorted(s.name for s in free if s in par and s in kin)
    neither = sorted(s.name for s in free if s not in par and s not in kin)
    if both or neither:
        bad("closure", f"symbols of the amplitudes that are parameter and kinematic variable: {both[:3]}; neither:"
            f" {neither[:3]}")
    momenta = {f"p{i}" for i in su.reaction.final_state}
    for var, e in got_kin.items():
        e2 = e.xreplace(got_par)
        rest = {s.name for s in plain_symbols(e2)} - momenta
        arr = {str(a) for a in e2.atoms(ArraySymbol)} - momenta
        if rest or arr:
            bad("closure", f"kinematic variable {var} depends on {sorted(rest | arr)[:4]} after inserting the"
                " parameter defaults")
            break
    # ---- assumptions symbol by symbol, untouched symbols identical
    now = collect_symbols(new)
    for name, sym in su.symbols.items():
        if su.roles_of[name] == "other":
            continue
        target = composed.get(name, name)
        cands = now.get(target, set())
        if not any(_assum(c) == _assum(sym) for c in cands):
            bad("assumptions", f"symbol {name!r} -> {target!r}: no symbol of that name with the original"
                f" assumptions (found {[dict(c.assumptions0) for c in cands][:1]})")
            break
        if target == name and sym not in cands:
            bad("untouched", f"symbol {name!r} was not renamed but is not the original symbol any more")
            break


def check_numeric(su, new, composed, bad) -> dict:
    from vp.checks.c13 import Unevaluable  # noqa: PLC0415

    n = skipped = 0
    value = np.array([np.nan])
    for variant in (0, 1, 2):
        p_new = parameter_vector(new, variant)
        # every original parameter takes the value of its image ("carried over")
        p_orig = {}
        missing = []
        for s in su.model.parameter_defaults:
            name = getattr(s, "name", str(s))
            img = composed.get(name, name)
            if img in p_new:
                p_orig[name] = p_new[img]
            else:
                missing.append((name, img))
        if missing:
            bad("numeric", f"parameter {missing[0][0]!r} has no image {missing[0][1]!r} among the parameters of"
                " the renamed model")
            break
        kin_old, val_old = original_values(su, p_orig)
        try:
            kin_new, val_new = model_values(su, new, p_new)
        except Unevaluable as exc:
            bad("numeric", f"renamed model cannot be evaluated: no value for {exc}")
            break
        except (TypeError, ValueError, ZeroDivisionError) as exc:
            # e.g. a complex coefficient value arriving where the original has an angle
            bad("numeric", f"renamed model cannot be evaluated with the carried-over values: {type(exc).__name__}:"
                f" {exc}")
            break
        n += 1
        for name, v_old in kin_old.items():
            img = composed.get(name, name)
            v_new = kin_new.get(img)
            if v_new is None or isinstance(v_new, tuple) or isinstance(v_old, tuple):
                bad("numeric", f"kinematic variable {name!r} -> {img!r} cannot be computed from four-momenta"
                    f" ({v_new if v_new is not None else 'missing'})")
                break
            ok, sk = agree(v_new, v_old)
            skipped += sk
            if not ok:
                bad("numeric", f"kinematic variable {img!r} = {np.asarray(v_new)[:2]} but {name!r} of the original ="
                    f" {np.asarray(v_old)[:2]}")
                break
        ok, sk = agree(val_new, val_old)
        skipped += sk
        value = val_new
        if not ok:
            bad("numeric", f"intensity with carried-over values (vector {variant}) = {np.atleast_1d(val_new)[:3]},"
                f" original = {np.atleast_1d(val_old)[:3]}", [f"vector:{variant}"])
            break
    return {"n": n, "skipped": skipped, "value": value}
