"""C18 - PoolSum denotes the finite sum over its index pools.

Bounded-exhaustive enumeration of a small expression grammar (flat and nested pool
sums, shadowed indices, literals colliding with pool values) x all pool assignments
x all operations (doit, evaluate, free_symbols, cleanup, subs/xreplace of free symbols
and of index symbols).  The oracle is a reference evaluator with lexical scoping that
works on the *description* of the sum (a tiny AST) in plain Python arithmetic; the
library object is built from the same AST and only ever interpreted by the library.
"""

from __future__ import annotations

import cmath
import itertools
import json
from fractions import Fraction

PROPERTY = "C18"
LEVEL = "exploration"
RULE = (
    "all sums from the grammar {f(idx..,x), x**i+2y, (i+2j)x+1, A[idx]y, x} x 0..3 (4 in"
    " thorough) indices x pools {(0),(1,2),(-1/2,1/2),(1,1)} plus nested sums (distinct /"
    " shadowed inner index, literal colliding with an outer pool value, depth 2 (3 in"
    " thorough)); per sum every operation of the property; a case is non-trivial when the"
    " sum has >=1 index with >=2 pool values; distinct = distinct (AST, operation) pairs"
)
ASSUMPTIONS = [
    "values are compared numerically at one generic point of the free symbols with a"
    " concrete stand-in for the undefined function / indexed base (exact description ->"
    " plain Python arithmetic on the reference side)",
    "substitutions of a *free* symbol by an expression containing an index symbol"
    " (variable capture) are outside the statement and not generated",
]
CHUNK = 8

POOLS = {
    "P0": ["0"],
    "P1": ["1", "2"],
    "P2": ["-1/2", "1/2"],
    "P3": ["1", "1"],
}
IDX = ["i", "j", "k", "l"]


# ---------------------------------------------------------------- AST helpers
def S(name):
    return ["sym", name]


def I(name):
    return ["idx", name]


def N(v):
    return ["num", str(v)]


def summand(kind: str, idx: list[str]):
    if kind == "f":
        return ["f", [I(n) for n in idx] + [S("x")]]
    if kind == "pow":
        base = ["pow", S("x"), I(idx[0])] if idx else S("x")
        return ["add", base, ["mul", N(2), S("y")]]
    if kind == "lin":
        if len(idx) >= 2:
            inner = ["add", I(idx[0]), ["mul", N(2), I(idx[1])]]
        elif idx:
            inner = I(idx[0])
        else:
            inner = N(3)
        return ["add", ["mul", inner, S("x")], N(1)]
    if kind == "A":
        return ["mul", ["A", [I(n) for n in idx]], S("y")] if idx else S("y")
    if kind == "const":
        return S("x")
    raise ValueError(kind)


def flat_sum(kind, pools):
    idx = IDX[: len(pools)]
    return ["sum", [[n, p] for n, p in zip(idx, pools)], summand(kind, idx)]


def nested_sums(tier):
    out = []
    for outer_pool, inner_pool in itertools.product(["P1", "P2", "P3", "P0"], repeat=2):
        for shadow in (False, True):
            inner_idx = "i" if shadow else "j"
            bodies = [
                ["f", [I(inner_idx), S("x")]],
                # literal that collides with an outer pool value
                ["add", ["f", [I(inner_idx), S("x")]], N(POOLS[outer_pool][0])],
                ["mul", ["f", [I(inner_idx), N(POOLS[outer_pool][-1])]], S("y")],
            ]
            if not shadow:
                bodies.append(["add", ["mul", I("j"), S("x")], I("i")])
            for body in bodies:
                inner = ["sum", [[inner_idx, inner_pool]], body]
                for wrap in ("bare", "lin", "mulf"):
                    if wrap == "bare":
                        w = inner
                    elif wrap == "lin":
                        w = ["add", ["mul", I("i"), inner], S("y")]
                    else:
                        w = ["mul", ["f", [I("i"), S("x")]], inner]
                    out.append(["sum", [["i", outer_pool]], w])
    # the index symbol of an inner sum also occurs OUTSIDE that sum: free in the whole
    # expression, or bound by an enclosing sum two levels up
    for outer_pool, inner_pool in itertools.product(["P1", "P2"], repeat=2):
        inner = ["sum", [["i", inner_pool]], ["f", [I("i"), S("x")]]]
        free_i = ["sum", [["j", outer_pool]], ["mul", ["mul", I("i"), I("j")], inner]]
        out.extend((
            free_i,
            ["sum", [["j", outer_pool]], ["add", ["f", [I("i"), I("j")]], inner]],
            ["sum", [["i", outer_pool]], free_i],
            ["sum", [["i", outer_pool]], ["add", free_i, S("y")]],
        ))
    if tier == "thorough":
        for p1, p2, p3 in itertools.product(["P1", "P2", "P3"], repeat=3):
            for third in ("i", "j", "k"):
                body = ["add", ["f", [I(third), S("x")]], N(POOLS[p1][0])]
                if third != "i":
                    body = ["add", body, I("i")]
                lvl3 = ["sum", [[third, p3]], body]
                lvl2 = ["sum", [["j", p2]], ["mul", ["add", I("j"), N(1)], lvl3]]
                out.append(["sum", [["i", p1]], ["add", lvl2, ["f", [I("i"), S("y")]]]])
    return out


def all_sums(tier):
    out = []
    max_n = 4 if tier == "thorough" else 3
    for n in range(max_n + 1):
        for pools in itertools.product(POOLS, repeat=n):
            for kind in ("f", "pow", "lin", "A", "const"):
                out.append(flat_sum(kind, list(pools)))
    out.extend(nested_sums(tier))
    return out


def cases(tier, seed):
    return [{"ast": ast, "seed": seed} for ast in all_sums(tier)]


# ------------------------------------------------------- reference semantics
def _num(s):
    return Fraction(s)


def _stand_in(tag, args):
    # generic, non-symmetric, non-linear stand-in for f(...) / A[...]
    tot = 0.25 if tag == "f" else -0.75
    for n, a in enumerate(args):
        tot += (n + 2) * a ** (n + 1) + (0.5 if tag == "A" else 0.0) * a * (n + 1)
    return tot


def ref_value(ast, env):
    """Lexically scoped value of an AST in environment env (name -> number)."""
    tag = ast[0]
    if tag == "num":
        return complex(_num(ast[1]))
    if tag in {"sym", "idx"}:
        return complex(env[ast[1]])
    if tag == "add":
        return ref_value(ast[1], env) + ref_value(ast[2], env)
    if tag == "mul":
        return ref_value(ast[1], env) * ref_value(ast[2], env)
    if tag == "pow":
        base, exp = ref_value(ast[1], env), ref_value(ast[2], env)
        return cmath.exp(exp * cmath.log(base))
    if tag in {"f", "A"}:
        return _stand_in(tag, [ref_value(a, env) for a in ast[1]])
    if tag == "sum":
        names = [n for n, _ in ast[1]]
        pools = [[_num(v) for v in POOLS[p]] for _, p in ast[1]]
        tot = 0j
        for combo in itertools.product(*pools):
            inner = dict(env)
            inner.update(zip(names, combo))
            tot += ref_value(ast[2], inner)
        return tot
    raise ValueError(tag)


def ref_free(ast, bound=frozenset()):
    tag = ast[0]
    if tag == "num":
        return set()
    if tag in {"sym", "idx"}:
        return set() if ast[1] in bound else {ast[1]}
    if tag in {"add", "mul", "pow"}:
        return ref_free(ast[1], bound) | ref_free(ast[2], bound)
    if tag in {"f", "A"}:
        out = set()
        for a in ast[1]:
            out |= ref_free(a, bound)
        return out
    if tag == "sum":
        return ref_free(ast[2], bound | {n for n, _ in ast[1]})
    raise ValueError(tag)


def literals(ast):
    tag = ast[0]
    if tag == "num":
        return {ast[1]}
    if tag in {"sym", "idx"}:
        return set()
    if tag in {"add", "mul", "pow"}:
        return literals(ast[1]) | literals(ast[2])
    if tag in {"f", "A"}:
        out = set()
        for a in ast[1]:
            out |= literals(a)
        return out
    if tag == "sum":
        return literals(ast[2])
    raise ValueError(tag)


# --------------------------------------------------------- library side
def build(ast):
    import sympy as sp  # noqa: PLC0415
    from ampform.sympy import PoolSum  # noqa: PLC0415

    tag = ast[0]
    if tag == "num":
        return sp.Rational(ast[1])
    if tag in {"sym", "idx"}:
        return sp.Symbol(ast[1])
    if tag == "add":
        return build(ast[1]) + build(ast[2])
    if tag == "mul":
        return build(ast[1]) * build(ast[2])
    if tag == "pow":
        return build(ast[1]) ** build(ast[2])
    if tag == "f":
        return sp.Function("f")(*[build(a) for a in ast[1]])
    if tag == "A":
        return sp.IndexedBase("A")[tuple(build(a) for a in ast[1])]
    if tag == "sum":
        return PoolSum(
            build(ast[2]),
            *[(sp.Symbol(n), [sp.Rational(v) for v in POOLS[p]]) for n, p in ast[1]],
        )
    raise ValueError(tag)


def lib_value(expr, env):
    """Numeric value of a fully unfolded library expression."""
    import sympy as sp  # noqa: PLC0415
    from sympy.core.function import AppliedUndef  # noqa: PLC0415

    from ampform.sympy import PoolSum  # noqa: PLC0415

    for _ in range(6):  # unfold whatever is left (malformed sums included)
        if not expr.has(PoolSum):
            break
        expr = expr.doit()
    expr = expr.xreplace({sp.Symbol(k): sp.Float(v, 30) if not isinstance(v, Fraction)
                          else sp.Rational(v.numerator, v.denominator)
                          for k, v in env.items()})

    def conv(e):
        if isinstance(e, AppliedUndef):
            return _stand_in("f", [conv(a) for a in e.args])
        if isinstance(e, sp.Indexed):
            return _stand_in("A", [conv(a) for a in e.indices])
        if e in {sp.zoo, sp.nan, sp.oo, -sp.oo}:
            return complex("nan")
        if e.is_Number or e.is_NumberSymbol or e is sp.I:
            return complex(e)
        if e.is_Add:
            tot = 0j
            for a in e.args:
                tot += conv(a)
            return tot
        if e.is_Mul:
            tot = 1 + 0j
            for a in e.args:
                tot *= conv(a)
            return tot
        if e.is_Pow:
            base, exp = conv(e.base), conv(e.exp)
            if base == 0:
                return 1 + 0j if exp == 0 else 0j
            return cmath.exp(exp * cmath.log(base))
        msg = f"unexpected node {type(e).__name__}: {e}"
        raise ValueError(msg)

    return conv(expr)


def close(a, b):
    if a != a or b != b:  # nan never agrees
        return False
    return abs(a - b) <= 1e-9 * (1 + abs(a) + abs(b))


def point(seed):
    # generic rational point, shifted deterministically by the seed
    return {
        "x": Fraction(3, 7) + Fraction(seed % 97, 101),
        "y": Fraction(11, 5) + Fraction(seed % 89, 83),
        # values of index-named symbols where they occur free
        "i": Fraction(5, 9) + Fraction(seed % 71, 73),
        "j": Fraction(13, 8) + Fraction(seed % 67, 61),
        "k": Fraction(7, 11), "l": Fraction(9, 4),
    }


def _sum_features(ast):
    """Witness predicates of the *input* (used for known-finding matching)."""
    tags = set()

    def walk(node, bound):
        if node[0] == "sum":
            names = [n for n, _ in node[1]]
            free_inside = ref_free(node[2], frozenset())
            for n, p in node[1]:
                if n not in free_inside and len(POOLS[p]) > 1:
                    tags.add("unused-index-with-multivalued-pool")
                if n in bound:
                    tags.add("shadowed-index")
            walk(node[2], bound | set(names))
        elif node[0] in {"add", "mul", "pow"}:
            walk(node[1], bound)
            walk(node[2], bound)
        elif node[0] in {"f", "A"}:
            for a in node[1]:
                walk(a, bound)

    walk(ast, set())
    return tags


def eval_case(case):
    import sympy as sp  # noqa: PLC0415

    ast = case["ast"]
    env = point(case.get("seed", 0))
    ps = build(ast)
    want = ref_value(ast, env)
    viol = []
    n_ops = 0
    feats = _sum_features(ast)

    def bad(op, msg, extra_tags=()):
        viol.append({
            "msg": f"{op}: {msg} for {ps}",
            "tags": [f"op:{op}", *sorted(feats), *extra_tags],
            "detail": {"op": op, "expr": str(ps)},
        })

    # 1. doit / evaluate = explicit sum over the cartesian product
    got = lib_value(ps.doit(), env)
    n_ops += 1
    if not close(got, want):
        bad("doit", f"value {got} != reference sum {want}")
    got = lib_value(ps.evaluate(), env)
    n_ops += 1
    if not close(got, want):
        bad("evaluate", f"value {got} != reference sum {want}")
    # 2. free symbols = summand's minus indices (lexically)
    n_ops += 1
    want_free = ref_free(ast)
    # (sympy reports an Indexed and its base label as free symbols of their own; they
    # are not symbols of the summand in the sense of the statement)
    got_free = {
        s.name for s in ps.free_symbols
        if isinstance(s, sp.Symbol) and s.name != "A"
    }
    if got_free != want_free:
        bad("free_symbols", f"{sorted(got_free)} != {sorted(want_free)}")
    # 3. cleanup never changes the value
    n_ops += 1
    cleaned = ps.cleanup()
    got = lib_value(cleaned, env)
    if not close(got, want):
        # documented (doctest-pinned) behaviour: an index that does not occur in the
        # summand is dropped, which divides the value by the size of its pool
        mult = 1
        inside = ref_free(ast[2], frozenset())
        for n, p in ast[1]:
            if n not in inside:
                mult *= len(POOLS[p])
        if mult > 1 and close(got * mult, want):
            bad("cleanup", f"value {got} != {want} (= {mult} x) after cleanup() -> {cleaned}",
                ["cleanup-drops-unused-multivalued-index"])
        else:
            bad("cleanup", f"value {got} != {want} after cleanup() -> {cleaned}")
    # 4. substitution of free symbols commutes with evaluation
    free_maps = [
        {"x": ("num", Fraction(3, 2))},
        {"x": ("expr", "y+1")},
        {"y": ("expr", "x*x")},
        {"x": ("num", Fraction(5, 3)), "y": ("num", Fraction(-2, 3))},
        {"x": ("num", Fraction(0)), "y": ("num", Fraction(2))},
        {"y": ("num", Fraction(7, 4))},
    ]
    applied = []
    for fmap in free_maps:
        if not set(fmap) <= want_free:
            continue
        if any(v == ("num", Fraction(0)) for v in fmap.values()) and '"pow"' in json.dumps(ast):
            continue  # 0**i is undefined for the negative pool values
        rule, env2 = {}, dict(env)
        for name, (kind, val) in fmap.items():
            if kind == "num":
                rule[sp.Symbol(name)] = sp.Rational(val.numerator, val.denominator)
                env2[name] = val
            else:
                rule[sp.Symbol(name)] = sp.sympify(val)
                env2[name] = complex(sp.sympify(val).xreplace(
                    {sp.Symbol(k): sp.Rational(v.numerator, v.denominator)
                     for k, v in env.items()}))
        want2 = ref_value(ast, env2)
        applied.append((fmap, rule, want2))
        # plain (sequential) subs, simultaneous subs and xreplace take different routes
        # through the class; the maps used here have no chained targets, so all three must
        # give the substituted reference
        for how in ("subs", "subs-sequential", "xreplace"):
            n_ops += 1
            if how == "subs":
                new = ps.subs(rule, simultaneous=True)
            elif how == "subs-sequential":
                new = ps.subs(rule)
            else:
                new = ps.xreplace(rule)
            got = lib_value(new, env)
            if not close(got, want2):
                bad(f"{how}-free", f"{fmap}: value {got} != substituted reference {want2}")
    # 5. substituting an index symbol leaves the sum unchanged
    index_names = sorted({n for n, _ in _all_indices(ast)})
    targets = [sp.Integer(5), sp.Symbol("y"), sp.Symbol("x")]
    targets += [sp.Rational(v) for v in sorted(literals(ast))]
    for name in index_names:
        if name in want_free:
            continue  # also occurs free somewhere (not generated, but be safe)
        for tgt in targets:
            for how in ("subs", "xreplace"):
                n_ops += 1
                rule = {sp.Symbol(name): tgt}
                new = ps.subs(rule) if how == "subs" else ps.xreplace(rule)
                got = lib_value(new, env)
                if not close(got, want):
                    bad(f"{how}-index", f"{name}->{tgt}: value {got} != {want}; got {new}")
    # 6. both at once: a map that names a summation index AND free symbols replaces the
    #    free symbols and leaves the bound index alone
    for name in index_names:
        if name in want_free:
            continue
        for fmap, frule, want2 in applied[:3]:
            for tgt in (sp.Integer(5), sp.Symbol("z")):
                rule = {sp.Symbol(name): tgt, **frule}
                for how in ("subs", "subs-sequential", "xreplace"):
                    n_ops += 1
                    if how == "subs":
                        new = ps.subs(rule, simultaneous=True)
                    elif how == "subs-sequential":
                        new = ps.subs(rule)
                    else:
                        new = ps.xreplace(rule)
                    got = lib_value(new, env)
                    if not close(got, want2):
                        bad(f"{how}-index+free",
                            f"{name}->{tgt} with {fmap}: value {got} != substituted reference {want2}; got {new}")
    multi = any(len(POOLS[p]) > 1 for _, p in _all_indices(ast))
    return {
        "violations": viol,
        "evaluations": n_ops,
        "nontrivial": [[ast, "ops"]] if multi else [],
        "outcome": "ok" if not viol else "violation",
        "sample": {"sum": str(ps), "reference_value": str(want), "operations": n_ops},
    }


def _all_indices(ast):
    out = []
    if ast[0] == "sum":
        out.extend(ast[1])
        out.extend(_all_indices(ast[2]))
    elif ast[0] in {"add", "mul", "pow"}:
        out.extend(_all_indices(ast[1]))
        out.extend(_all_indices(ast[2]))
    elif ast[0] in {"f", "A"}:
        for a in ast[1]:
            out.extend(_all_indices(a))
    return out
