"""C19 - Dalitz-plot-decomposition angles satisfy their geometry and identities.

Bounded-exhaustive enumeration: every index tuple the three ``formulate_*_angle``
functions can be called with ({0..3}^2 for theta-hat and theta_ij, {0..3}^3 for zeta)
x 16 mass configurations (generic, equal, massless, heavy spectator - each special role
assigned to every child) x a deterministic Dalitz lattice (interior grid kept inside by
the reference's PDG limits + geometric approaches to every part of the boundary).

The library expressions are unfolded with ``doit()`` and evaluated with
``sp.lambdify(..., "numpy")`` on the mass symbols; the arguments of all ``acos`` nodes are
evaluated separately (range check) and the angle is then formed from the clipped
argument.  The reference (``vp.ref.dalitz``) builds the three-body event from
(sigma1, sigma2) and computes every angle from four-momenta; zeta is the Wigner-rotation
angle between the helicity frames of the two decay chains.
"""

from __future__ import annotations

import itertools
import math

PROPERTY = "C19"
LEVEL = "exploration"
RULE = (
    "index tuples: all 16 pairs of {0..3}^2 for theta-hat and for theta_ij, all 64 triples of"
    " {0..3}^3 for zeta (tuples outside the physical domain must be rejected with"
    " ValueError/NotImplementedError) x 16 mass configurations (2 generic, two equal x3, all"
    " equal, one massless x3, two massless x3, all massless, heavy spectator x3) x Dalitz"
    " lattice: interior grid 12x12 (quick) / 40x40 (thorough) in coordinates (u,v) = (position"
    " of sigma1 in its range, position of sigma2 between its PDG limits) shifted by"
    " irr(seed), plus geometric approaches (relative distance 1e-2..1e-8) to the sigma2 limits"
    " at several sigma1 (incl. the boundary points with p2=0 and p3=0) and to both ends of"
    " the sigma1 range.  One case = (mass configuration, angle family); a sub-case"
    " (identity, index tuple, mass configuration, region) is non-trivial when the library"
    " returned an expression and it was compared numerically on >=1 lattice point of the"
    " region.  The lattice is only a lattice (no degree argument): the property is shown at"
    " these points."
)
ASSUMPTIONS = [
    "reference geometry (vp.ref.dalitz): event from (sigma1,sigma2) by the momentum triangle,"
    " cross-checked in every case against a sequential-decay construction and, for zeta,"
    " against an explicit Wigner rotation F_j F_k^-1 built from boost matrices",
    "orientation: the statement fixes signs only up to the orientation of the decay plane;"
    " per angle family one global sign eps is read off the first generic point and all index"
    " tuples, mass configurations' points must then agree with eps x (signed reference angle"
    " about n = p1 x p2); on the pinned tree eps = +1 everywhere",
    "zeta^i for a massless particle i is compared with 0 (limit of the Wigner angle)",
    "zeta^0_{j(k)} is compared with theta-hat_{j(k)} (DPD paper, Eq. A5)",
    "tolerances are rounding allowances scaled by conditioning: angles agree within"
    " (2e-10 + 1e-15 kappa)/max(sin(angle),2e-5) per acos involved (x gamma^2/10 of the"
    " reference boost where that exceeds 1), kappa = m0^4/min(Kallen functions of the event);"
    " acos arguments must satisfy |arg| <= 1 + 1e-12 + 1e-15 kappa at interior points and"
    " |arg| <= 1 + 1e-9 at boundary approaches",
    "where kappa > 1e5 (expanded Kallen functions lose > 5 digits in doubles: p_i -> 0,"
    " thresholds, massless corners) the library expression is evaluated at that point with"
    " mpmath in 70-digit arithmetic instead of numpy, with sigma3 formed exactly from the"
    " binary inputs; |arg| <= 1 + 1e-30 is demanded there",
]
CHUNK = 1
MP_KAPPA = 1e5  # m0^4/lambda above which the library formula is evaluated with mpmath

MASS_NAMES = ["m_0", "m_1", "m_2", "m_3", "m_12", "m_13", "m_23"]
DOCUMENTED_ERRORS = (ValueError, NotImplementedError)
FAMILIES = ["hat", "scat", "zeta0", "zeta1", "zeta2", "zeta3"]


def mass_configs():
    from vp.ref import dalitz  # noqa: PLC0415

    return dalitz.mass_configs()


def cases(tier, seed):
    out = [{"kind": "domain"}]
    for name, masses in mass_configs():
        for fam in FAMILIES:
            out.append({"kind": "angles", "cfg": name, "masses": masses, "family": fam,
                        "tier": tier, "seed": seed})
    return out


# ------------------------------------------------------------- library side
class Compiled:
    """A library angle expression split into acos arguments and the outer structure."""

    def __init__(self, expr):
        import sympy as sp  # noqa: PLC0415

        expr = sp.sympify(expr).doit()
        self.expr = expr
        acs = sorted(expr.atoms(sp.acos), key=str)
        dummies = [sp.Dummy(f"acos{k}") for k in range(len(acs))]
        outer = expr.xreplace(dict(zip(acs, dummies)))
        by_name = {}
        self.unknown = []
        for s in expr.free_symbols:
            if s.name in MASS_NAMES:
                by_name[s.name] = s
            else:
                self.unknown.append(s.name)
        syms = [by_name.get(n, sp.Dummy(n)) for n in MASS_NAMES]
        self.n_acos = len(acs)
        self.f_args = sp.lambdify(syms, [a.args[0] for a in acs], "numpy")
        self.f_outer = sp.lambdify([*syms, *dummies], outer, "numpy")
        self._mp = None
        self._mp_src = (syms, dummies, [a.args[0] for a in acs], outer)

    def evaluate_mp(self, masses, s1, s2):
        """One point in 70-digit arithmetic (for points where doubles are ill-conditioned).

        sigma3 is formed from the exact binary values of the inputs, so the point is
        exactly on the physical surface.  Returns (value, [acos arguments]) as floats.
        """
        import mpmath  # noqa: PLC0415
        import sympy as sp  # noqa: PLC0415

        if self._mp is None:
            syms, dummies, args, outer = self._mp_src
            self._mp = (sp.lambdify(syms, args, "mpmath"),
                        sp.lambdify([*syms, *dummies], outer, "mpmath"))
        f_args, f_outer = self._mp
        with mpmath.workdps(70):
            m = [mpmath.mpf(x) for x in masses]
            a, b = mpmath.mpf(float(s1)), mpmath.mpf(float(s2))
            c = m[0] ** 2 + m[1] ** 2 + m[2] ** 2 + m[3] ** 2 - a - b
            vals = [*m, mpmath.sqrt(c), mpmath.sqrt(b), mpmath.sqrt(a)]
            args = [mpmath.mpf(x) if not isinstance(x, mpmath.mpc) else x
                    for x in f_args(*vals)]
            slack = mpmath.mpf(10) ** -30  # rounding of the 70-digit evaluation (kappa <= 1e20)
            bad = [x for x in args if isinstance(x, mpmath.mpc) or not abs(x) <= 1 + slack]
            if bad:
                # report a value that the range check of the caller is sure to reject
                return float("nan"), [
                    float("nan") if isinstance(x, mpmath.mpc)
                    else math.copysign(max(abs(float(x)), 1 + 1e-8), float(x))
                    if abs(x) > 1 + slack else float(x)
                    for x in args]
            clipped = [max(min(x, mpmath.mpf(1)), mpmath.mpf(-1)) for x in args]
            value = f_outer(*vals, *[mpmath.acos(x) for x in clipped])
            return float(value), [float(x) for x in clipped]

    def evaluate(self, vals, shape):
        import numpy as np  # noqa: PLC0415

        with np.errstate(all="ignore"):
            args = [np.broadcast_to(np.asarray(a, dtype=float), shape)
                    for a in self.f_args(*vals)]
            clipped = [np.arccos(np.clip(a, -1.0, 1.0)) for a in args]
            value = np.broadcast_to(
                np.asarray(self.f_outer(*vals, *clipped), dtype=float), shape)
        return value, args


def call_api(fn, *idx):
    """-> ("expr", expr) | ("rejected", exc) ; other exception types propagate upward."""
    try:
        res = fn(*idx)
    except DOCUMENTED_ERRORS as exc:
        return "rejected", exc
    return "expr", res


def eval_domain():
    """Which index tuples are accepted; how the others are rejected."""
    import sympy as sp  # noqa: PLC0415
    from ampform.kinematics import angles  # noqa: PLC0415

    viol, outcomes, nontrivial = [], {}, []
    n = 0
    table = {}

    def note(key):
        outcomes[key] = outcomes.get(key, 0) + 1

    def probe(name, fn, idx, must_accept, may_reject):
        nonlocal n
        n += 1
        try:
            res = fn(*idx)
        except DOCUMENTED_ERRORS as exc:
            note(f"domain:{name}:rejected:{type(exc).__name__}")
            table[f"{name}{idx}"] = type(exc).__name__
            if must_accept:
                viol.append({
                    "msg": f"{name}{idx} is inside the physical domain but raised"
                           f" {type(exc).__name__}: {exc}",
                    "tags": ["domain", f"{name}-rejected-physical"],
                    "detail": {"indices": list(idx)},
                })
            return
        except Exception as exc:  # noqa: BLE001
            note(f"domain:{name}:undocumented-exception")
            viol.append({
                "msg": f"{name}{idx} raised undocumented {type(exc).__name__}: {exc}",
                "tags": ["domain", "undocumented-exception", f"exception:{type(exc).__name__}"],
                "detail": {"indices": list(idx)},
            })
            return
        ok = (isinstance(res, tuple) and len(res) == 2 and isinstance(res[0], sp.Symbol)
              and isinstance(res[1], sp.Expr))
        if not ok:
            note(f"domain:{name}:malformed-return")
            viol.append({
                "msg": f"{name}{idx} returned {res!r}, not (Symbol, Expr)",
                "tags": ["domain", "malformed-return"],
                "detail": {"indices": list(idx)},
            })
            return
        table[f"{name}{idx}"] = "expr"
        if must_accept or may_reject:
            note(f"domain:{name}:accepted")
            nontrivial.append(["domain", name, list(idx)])
        else:
            # not demanded either way by the statement: recorded, not judged
            note(f"domain:{name}:accepted-outside-physical-domain")

    children = {1, 2, 3}
    for i, j in itertools.product(range(4), repeat=2):
        phys = i in children and j in children
        probe("theta_hat", angles.formulate_theta_hat_angle, (i, j), phys, False)
        phys = i in children and j in children and i != j
        # theta_21, theta_32, theta_13: the (never firing) guard documents a rejection with
        # NotImplementedError; returning the geometrically right pi - theta_ij is fine too
        guarded = (i, j) in {(2, 1), (3, 2), (1, 3)}
        probe("theta", angles.formulate_scattering_angle, (i, j), phys and not guarded,
              guarded)
    for i, j, k in itertools.product(range(4), repeat=3):
        phys = j in children and (k in children or (k == 0 and i != 0))
        probe("zeta", angles.formulate_zeta_angle, (i, j, k), phys, False)
    return {
        "violations": viol,
        "evaluations": n,
        "nontrivial": nontrivial,
        "outcomes": outcomes,
        "sample": {"kind": "domain", "zeta(1, 0, 0)": table.get("zeta(1, 0, 0)"),
                   "zeta(0, 1, 0)": table.get("zeta(0, 1, 0)"),
                   "theta(2, 1)": table.get("theta(2, 1)"),
                   "theta_hat(0, 1)": table.get("theta_hat(0, 1)")},
    }


# ------------------------------------------------------------------ buckets
def bucket(dev):
    if dev != dev:
        return "nan"
    if dev <= 1e-12:
        return "dev<=1e-12"
    if dev <= 1e-8:
        return "dev<=1e-8"
    return "dev>1e-8(within-conditioning-tolerance)"


def eval_case(case):  # noqa: C901, PLR0912, PLR0914, PLR0915
    if case["kind"] == "domain":
        return eval_domain()
    import numpy as np  # noqa: PLC0415
    from ampform.kinematics import angles  # noqa: PLC0415

    from vp.core import HarnessError  # noqa: PLC0415
    from vp.ref import dalitz  # noqa: PLC0415

    m0, m1, m2, m3 = masses = case["masses"]
    mass_of = dict(enumerate(masses))
    cfg, fam = case["cfg"], case["family"]
    regions = dalitz.lattice(masses, case["tier"], case["seed"])
    viol, outcomes, nontrivial, counters = [], {}, [], {}
    n_eval = 0
    sample = None

    def note(key, k=1):
        outcomes[key] = outcomes.get(key, 0) + k

    def count(key, k=1):
        counters[key] = counters.get(key, 0) + k

    # ---------------------------------------------------- points and reference
    pts = {}
    for reg, (u, v) in regions.items():
        s1, s2 = dalitz.warp(m0, m1, m2, m3, u, v)
        complaints = dalitz.selfcheck(m0, m1, m2, m3, s1, s2)
        if complaints:
            msg = f"reference inconsistent for {cfg}/{reg}: {complaints[:3]}"
            raise HarnessError(msg)
        ev = dalitz.event(m0, m1, m2, m3, s1, s2)
        s3 = dalitz.minv2(ev[1] + ev[2])
        if not (np.all(np.isfinite(s3)) and np.all(s3 >= 0) and np.all(s1 >= 0)
                and np.all(s2 >= 0)):
            msg = f"lattice point rejected by the reference for {cfg}/{reg}"
            raise HarnessError(msg)
        vals = [m0, m1, m2, m3, np.sqrt(s3), np.sqrt(s2), np.sqrt(s1)]
        # conditioning of the (expanded) Kallen functions inside the library formulas: a
        # lambda that is tiny compared with m0^4 carries a relative rounding error
        # ~ eps * m0^4 / lambda, which goes into every cosine that divides by its root
        lams = []
        for mi, (ma, mb), rs in zip((m1, m2, m3), ((m2, m3), (m1, m3), (m1, m2)), vals[:3:-1]):
            lams.append(dalitz.kallen_sqrt_form(m0 * m0, mi, rs))
            lams.append(dalitz.kallen_sqrt_form(rs * rs, ma, mb))
        with np.errstate(divide="ignore"):
            kappa = m0**4 / np.maximum(np.min(np.abs(lams), axis=0), 1e-300)
        pts[reg] = {"s1": s1, "s2": s2, "s3": s3, "ev": ev, "vals": vals, "shape": s1.shape,
                    "kappa": kappa}
    counters["lattice_points"] = sum(p["s1"].size for p in pts.values())

    def violation(msg, tags, detail):
        viol.append({"msg": f"[{cfg}] {msg}", "tags": [f"family:{fam}", *tags],
                     "detail": {"masses": masses, **detail}})

    # ----------------------------------------------------------- library side
    lib = {}      # idx -> {region: (value, tol, args)}
    rejected = {}

    def load(name, fn, idx):
        nonlocal n_eval
        status, res = call_api(fn, *idx)
        if status == "rejected":
            rejected[idx] = type(res).__name__
            count(f"{name}:rejected")
            return
        comp = Compiled(res[1])
        if comp.unknown:
            violation(f"{name}{idx} depends on symbols {comp.unknown} that are not Dalitz"
                      " variables", ["unknown-symbol"], {"indices": list(idx)})
            return
        per_region = {}
        for reg, p in pts.items():
            value, args = comp.evaluate(p["vals"], p["shape"])
            n_eval += value.size
            hard = np.flatnonzero(p["kappa"] > MP_KAPPA)
            if hard.size and comp.n_acos:
                value = value.copy()
                args = [a.copy() for a in args]
                for k in hard:
                    value[k], exact = comp.evaluate_mp(masses, p["s1"][k], p["s2"][k])
                    for a, x in zip(args, exact):
                        a[k] = x
                count("points_evaluated_in_70_digit_arithmetic", int(hard.size))
            # rounding allowance for the argument: interior points must be inside up to a few
            # ulp times the conditioning of the formula (points with kappa > MP_KAPPA were
            # recomputed exactly above), boundary approaches up to 1e-9
            limit = (1e-12 + 1e-15 * np.minimum(p["kappa"], MP_KAPPA) if reg == "interior"
                     else np.full(p["shape"], 1e-9))
            tol = np.full(p["shape"], 1e-12)
            for a in args:
                bad = ~(np.abs(a) <= 1.0 + limit)  # catches nan as well
                if np.any(bad):
                    k = int(np.argmax(bad))
                    violation(
                        f"acos argument of {name}{idx} = {float(a[k])!r} outside [-1,1] at"
                        f" sigma1={float(p['s1'][k])!r}, sigma2={float(p['s2'][k])!r} ({reg})",
                        ["acos-range", f"region:{reg}"],
                        {"indices": list(idx), "sigma1": float(p["s1"][k]),
                         "sigma2": float(p["s2"][k]), "argument": float(a[k])})
                where = "interior" if reg == "interior" else "near-boundary"
                note(f"acos-arg:{'inside[-1,1]' if not np.any(bad) else 'OUTSIDE'}:{where}")
                sin = np.sqrt(np.clip(1.0 - a * a, 0.0, None))
                tol = tol + (2e-10 + 1e-15 * p["kappa"]) / np.maximum(sin, 2e-5)
                if comp.n_acos:
                    nontrivial.append(["acos-range", name, list(idx), cfg, reg])
            per_region[reg] = (value, tol, args)
        lib[idx] = per_region

    def compare(what, idx, reg, got, want, tol, tags=(), wrap=False):
        """got == want on all points of a region (nan never agrees)."""
        nonlocal sample
        diff = got - want
        if wrap:
            diff = np.angle(np.exp(1j * diff))
        dev = np.abs(diff)
        worst = float(np.max(np.where(np.isnan(dev), np.inf, dev))) if dev.size else 0.0
        bad = ~(dev <= tol)
        group = "geometry" if ("geometry" in what or "helicity" in what) else "identity"
        verdict = "VIOLATED" if np.any(bad) else bucket(worst)
        note(f"{group}:{verdict}")
        count(f"{what}:{verdict}")
        nontrivial.append([what, list(idx), cfg, reg])
        if np.any(bad):
            k = int(np.argmax(np.where(bad, np.where(np.isnan(dev), np.inf, dev), -1.0)))
            p = pts[reg]
            violation(
                f"{what}{tuple(idx)}: library {float(got[k])!r} != expected"
                f" {float(want[k])!r} at sigma1={float(p['s1'][k])!r},"
                f" sigma2={float(p['s2'][k])!r} ({reg}); {int(bad.sum())}/{bad.size} points",
                [what, f"region:{reg}", *tags],
                {"indices": list(idx), "sigma1": float(p["s1"][k]),
                 "sigma2": float(p["s2"][k]), "got": float(got[k]), "want": float(want[k]),
                 "tolerance": float(tol[k])})
        elif sample is None and reg == "interior" and np.any(want != 0):
            p = pts[reg]
            sample = {"identity": what, "indices": list(idx), "masses": masses,
                      "sigma1": float(p["s1"][0]), "sigma2": float(p["s2"][0]),
                      "library": float(got[0]), "expected": float(want[0])}

    def orientation(ref_fn, candidates):
        """Global sign of a family from the first generic interior point."""
        p = pts["interior"]
        for idx in candidates:
            if idx not in lib:
                continue
            got = lib[idx]["interior"][0]
            want = ref_fn(p["ev"], idx)
            k = int(np.argmax(np.abs(want)))
            if abs(want[k]) > 1e-3 and np.isfinite(got[k]) and abs(got[k]) > 1e-3:
                return 1.0 if got[k] * want[k] > 0 else -1.0
        return 1.0

    pairs = list(itertools.product((1, 2, 3), repeat=2))
    if fam == "hat":
        for idx in pairs:
            load("theta_hat", angles.formulate_theta_hat_angle, idx)

        def ref_hat(ev, idx):
            return dalitz.theta_hat_ref(ev, *idx)

        eps = orientation(ref_hat, [(1, 2), (2, 3), (3, 1)])
        note(f"orientation:{eps:+.0f}")
        for idx in pairs:
            if idx not in lib:
                continue
            for reg, p in pts.items():
                got, tol, _ = lib[idx][reg]
                i, j = idx
                if i == j:
                    compare("theta_hat-diagonal-zero", idx, reg, got, np.zeros(p["shape"]),
                            np.zeros(p["shape"]))
                    continue
                compare("theta_hat-geometry", idx, reg, got, eps * ref_hat(p["ev"], idx), tol)
                if i < j and (j, i) in lib:
                    other, tol2, _ = lib[j, i][reg]
                    compare("theta_hat-antisymmetry", idx, reg, got, -other, tol + tol2)
    elif fam == "scat":
        offdiag = [ix for ix in pairs if ix[0] != ix[1]]
        for idx in offdiag:
            load("theta", angles.formulate_scattering_angle, idx)
        for idx in offdiag:
            if idx not in lib:
                continue
            i, j = idx
            k = ({1, 2, 3} - {i, j}).pop()
            for reg, p in pts.items():
                got, tol, _ = lib[idx][reg]
                # conditioning of the reference boost into the (ij) frame
                gamma2 = (p["ev"][i][..., 0] + p["ev"][j][..., 0]) ** 2 / np.maximum(
                    [p["s3"], p["s2"], p["s1"]][3 - k], 1e-300)
                compare("theta-helicity-angle", idx, reg, got,
                        dalitz.theta_ref(p["ev"], i, j), tol * np.maximum(1.0, gamma2 / 10))
                if i < j and (j, i) in lib:
                    other, tol2, _ = lib[j, i][reg]
                    compare("theta_ij+theta_ji=pi", idx, reg, got + other,
                            np.full(p["shape"], math.pi), tol + tol2)
    else:
        rot = int(fam[-1])
        triples = [(rot, j, k) for j in (1, 2, 3) for k in (0, 1, 2, 3) if not (rot == 0 and k == 0)]
        for idx in triples:
            load("zeta", angles.formulate_zeta_angle, idx)
        if rot == 0:
            def ref_zeta(ev, idx):
                return dalitz.theta_hat_ref(ev, idx[1], idx[2])
        else:
            def ref_zeta(ev, idx):
                return dalitz.zeta_ref(ev, mass_of, *idx)

        c = rot if rot else 1
        cyc = {1: 2, 2: 3, 3: 1}
        eps = orientation(ref_zeta, [(rot, cyc[c], cyc[cyc[c]]), (rot, c, cyc[c]),
                                     (rot, cyc[c], c)])
        note(f"orientation:{eps:+.0f}")
        massless = rot != 0 and mass_of[rot] == 0
        for idx in triples:
            if idx not in lib:
                violation(f"zeta{idx} rejected ({rejected.get(idx)})", ["domain"],
                          {"indices": list(idx)})
                continue
            _, j, k = idx
            for reg, p in pts.items():
                got, tol, _ = lib[idx][reg]
                # boosts into the rest frame of a light particle amplify rounding of the
                # reference; the Wigner angle is then O(m_i/E_i) small anyway
                cond = np.ones(p["shape"])
                if rot and not massless:
                    cond = np.maximum(1.0, (p["ev"][rot][..., 0] / mass_of[rot]) ** 2 / 10)
                compare("zeta-geometry" + ("-massless" if massless else ""), idx, reg, got,
                        eps * ref_zeta(p["ev"], idx), tol * cond)
                if j == k:
                    compare("zeta^i_k(k)=0", idx, reg, got, np.zeros(p["shape"]),
                            np.zeros(p["shape"]))
                if k == 0 and rot and (rot, j, rot) in lib:
                    other, tol2, _ = lib[rot, j, rot][reg]
                    compare("zeta^i_k(0)=zeta^i_k(i)", idx, reg, got, other, tol + tol2)
        if rot:
            # chain rule zeta^i_{j(l)} = zeta^i_{j(k)} + zeta^i_{k(l)}, all (j,k,l) in {1,2,3}^3,
            # demanded where the reference geometry implies it exactly
            for j, k, l in itertools.product((1, 2, 3), repeat=3):
                need = [(rot, j, l), (rot, j, k), (rot, k, l)]
                if any(ix not in lib for ix in need):
                    continue
                kind = ("cyclic-or-permuted" if len({j, k, l}) == 3
                        else "antisymmetry" if j == l and j != k else "degenerate")
                for reg, p in pts.items():
                    r_jl, r_jk, r_kl = (ref_zeta(p["ev"], ix) for ix in need)
                    implied = np.max(np.abs(r_jl - r_jk - r_kl)) <= 1e-7
                    if not implied:
                        note("identity:sum-rule-not-implied-by-reference-geometry(not-demanded)")
                        continue
                    (a, ta, _), (b, tb, _), (c2, tc, _) = (lib[ix][reg] for ix in need)
                    compare(f"zeta-sum-rule({kind})", (rot, j, k, l), reg, a, b + c2,
                            ta + tb + tc)
    res = {
        "violations": viol,
        "evaluations": n_eval,
        "nontrivial": nontrivial,
        "outcomes": outcomes,
        "counters": counters,
    }
    if sample is not None:
        res["sample"] = sample
    return res
