"""C20 - phase-space boundary functions classify three-body kinematics correctly.

Three kinds of cases:

* ``events``  (per mass configuration): physical events from the reference
  (``vp.ref.dalitz``, momentum triangle; the Mandelstam sum rule is not used to build
  them) -> ``compute_third_mandelstam`` = actual (p1+p2)^2, ``Kibble(...) <= 0``,
  ``is_within_phasespace = 1``.
* ``box``     (per mass configuration x outside value): a grid over the closed kinematic
  bounding box plus points hugging the Dalitz boundary from both sides in both
  directions; the indicator must be exactly 1 where sigma2 lies between the PDG limits for
  that sigma1 and exactly the caller's outside value elsewhere.  Points in a band around
  the boundary (where the sign of the Kibble function is below double rounding) are not
  judged, so ``<=`` versus ``<`` is never a violation.
* ``kallen``  : total symmetry and the factorisation on a 5^3 grid of exact rationals, in
  exact sympy arithmetic (plus a symbolic expansion).
"""

from __future__ import annotations

import itertools
from fractions import Fraction

PROPERTY = "C20"
LEVEL = "exploration"
RULE = (
    "16 mass configurations (2 generic, two equal x3, all equal, one massless x3, two"
    " massless x3, all massless, heavy spectator x3), all with m0 > m1+m2+m3 >= 0."
    " events: interior Dalitz lattice 12x12 (quick) / 40x40 (thorough) + geometric approaches"
    " (1e-2..1e-8) to all parts of the boundary; per event sigma3 (symbolic+lambdified and"
    " plain-number call), Kibble sign, indicator.  box: grid 25x25 (quick) / 120x120"
    " (thorough) over the closed box [(m2+m3)^2,(m0-m1)^2] x [(m1+m3)^2,(m0-m2)^2] (edges"
    " included, inner nodes shifted by irr(seed)) + points at relative distance 1e-3..1e-9 (of"
    " the box width) on both sides of sigma2(min/max)(sigma1) and of sigma1(min/max)(sigma2),"
    " x outside_value in {default, nan, 0, -1, Symbol}, evaluated by lambdify(numpy) and, on a"
    " 6x6 sub-grid, by calling the API with numbers (Rational/Float) and doit().  A point is"
    " judged when |16 m0^2 s1 (s2-lo)(s2-hi)| > 1e-11 m0^8 (reference product form of the"
    " Kibble function), else counted as skipped-band.  kallen: 5^3 exact rationals x all 6"
    " permutations, and lambda(x,b^2,c^2) = (x-(b+c)^2)(x-(b-c)^2) on 5^3 (x,b,c): the"
    " difference of two polynomials of degree <=2 in x,y,z (<=4 in b,c) that vanishes on a"
    " 5^3 grid vanishes identically, so this grid DECIDES both identities provided"
    " Kallen.evaluate() is such a polynomial (verified with sympy.Poly; otherwise reported"
    " as a cap); everything else is a lattice and shows the property at those points only."
)
ASSUMPTIONS = [
    "PDG kinematics review Eq. 49.23 for the Dalitz limits, with sqrt(E*^2-m^2) written as"
    " two-body break-up momenta (same quantity, stable at the ends of the range)",
    "points closer to the boundary than the band are not judged (boundary membership and"
    " double rounding are outside the statement)",
    "Kibble <= 0 on events is demanded up to rounding: phi <= 1e-12 m0^8",
    "a Symbol outside value is compared after substituting 7.25 (lambdified) or by identity"
    " (number-call path)",
]
CHUNK = 1

OUTSIDE = ["default", "nan", "0", "-1", "symbol"]
BAND = 1e-11
HUG = [1e-3, 1e-4, 1e-5, 1e-6, 1e-7, 1e-8, 1e-9]
SYMBOL_VALUE = 7.25
GRID5 = [Fraction(-2), Fraction(-1, 3), Fraction(0), Fraction(3, 2), Fraction(5)]
ROOT5 = [Fraction(0), Fraction(1, 3), Fraction(1), Fraction(3, 2), Fraction(7, 2)]


def cases(tier, seed):
    from vp.ref import dalitz  # noqa: PLC0415

    out = [{"kind": "kallen", "what": "symmetry", "seed": seed},
           {"kind": "kallen", "what": "factorisation", "seed": seed},
           {"kind": "kallen", "what": "symbolic", "seed": seed}]
    configs = list(dalitz.mass_configs())
    # the same decays in other units (the statement quantifies over ALL mass
    # configurations: nothing may depend on the absolute scale)
    for name, masses in dalitz.mass_configs():
        if name in {"generic-a", "one-massless(1)", "heavy-spectator(2)"}:
            for scale, tag in ((1e-3, "x1e-3"), (1e3, "x1e3")):
                configs.append((f"{name}{tag}", [m * scale for m in masses]))
    out.append({"kind": "exact-boundary", "tier": tier, "seed": seed})
    for name, masses in configs:
        out.append({"kind": "events", "cfg": name, "masses": masses, "tier": tier,
                    "seed": seed})
        for ov in OUTSIDE:
            out.append({"kind": "box", "cfg": name, "masses": masses, "outside": ov,
                        "tier": tier, "seed": seed})
    return out


# --------------------------------------------------------------------- Kallen
def _rat(fr):
    import sympy as sp  # noqa: PLC0415

    return sp.Rational(fr.numerator, fr.denominator)


def eval_kallen(case):  # noqa: C901, PLR0912
    import sympy as sp  # noqa: PLC0415
    from ampform.kinematics.phasespace import Kallen  # noqa: PLC0415

    what, seed = case["what"], case["seed"]
    viol, nontrivial, outcomes, caps = [], [], {}, []
    n = 0

    def note(key, k=1):
        outcomes[key] = outcomes.get(key, 0) + k

    def value(x, y, z):
        a = Kallen(x, y, z).doit()
        b = Kallen(x, y, z).evaluate()
        if sp.simplify(a - b) != 0:
            viol.append({"msg": f"Kallen({x},{y},{z}).doit() = {a} != evaluate() = {b}",
                         "tags": ["kallen", "doit-vs-evaluate"], "detail": {}})
        return a

    extra = Fraction(1 + seed % 13, 7)  # seed-dependent off-grid coordinate
    if what == "symmetry":
        grid = [*GRID5, extra]
        for x, y, z in itertools.product(grid, repeat=3):
            base = value(_rat(x), _rat(y), _rat(z))
            for perm in itertools.permutations((0, 1, 2)):
                if perm == (0, 1, 2):
                    continue
                args = [(x, y, z)[p] for p in perm]
                got = value(*[_rat(a) for a in args])
                n += 1
                distinct = len({x, y, z}) > 1
                if distinct:
                    nontrivial.append(["kallen-symmetry", list(perm), str(x), str(y), str(z)])
                if got != base:
                    note("kallen-symmetry:VIOLATED")
                    viol.append({
                        "msg": f"Kallen{tuple(map(str, args))} = {got} != Kallen"
                               f"{(str(x), str(y), str(z))} = {base}",
                        "tags": ["kallen", "kallen-symmetry"],
                        "detail": {"x": str(x), "y": str(y), "z": str(z), "perm": list(perm)},
                    })
                else:
                    note("kallen-symmetry:equal")
        sample = {"kallen": "symmetry", "point": ["-2", "-1/3", "3/2"],
                  "value": str(value(_rat(GRID5[0]), _rat(GRID5[1]), _rat(GRID5[3])))}
    elif what == "factorisation":
        for x, b, c in itertools.product([*GRID5, extra], [*ROOT5, extra], [*ROOT5, extra]):
            xs, ys, zs = _rat(x), _rat(b) ** 2, _rat(c) ** 2
            got = value(xs, ys, zs)
            want = (xs - (sp.sqrt(ys) + sp.sqrt(zs)) ** 2) * (xs - (sp.sqrt(ys) - sp.sqrt(zs)) ** 2)
            n += 1
            nontrivial.append(["kallen-factorisation", str(x), str(b), str(c)])
            if sp.nsimplify(got - want) != 0:
                note("kallen-factorisation:VIOLATED")
                viol.append({
                    "msg": f"Kallen({xs},{ys},{zs}) = {got} != (x-(sqrt y+sqrt z)^2)"
                           f"(x-(sqrt y-sqrt z)^2) = {want}",
                    "tags": ["kallen", "kallen-factorisation"],
                    "detail": {"x": str(xs), "y": str(ys), "z": str(zs)},
                })
            else:
                note("kallen-factorisation:equal")
        sample = {"kallen": "factorisation", "x": "3/2", "sqrt_y": "1/3", "sqrt_z": "7/2",
                  "value": str(value(sp.Rational(3, 2), sp.Rational(1, 9), sp.Rational(49, 4)))}
    else:
        x, y, z = sp.symbols("x y z")
        b, c = sp.symbols("b c", positive=True)
        expr = sp.expand(Kallen(x, y, z).doit())
        n += 1
        try:
            poly = sp.Poly(expr, x, y, z)
            degs = [poly.degree(g) for g in (x, y, z)]
        except sp.PolynomialError:
            degs = None
        if degs is None or max(degs) > 2:
            caps.append("Kallen.evaluate() is not a polynomial of degree <= 2 per variable:"
                        " the 5^3 grid does not decide the identities")
            note("kallen-degree:not-quadratic")
        else:
            note("kallen-degree:<=2-per-variable(grid-decides)")
            nontrivial.append(["kallen-degree", degs])
        for perm in itertools.permutations((x, y, z)):
            n += 1
            if sp.expand(Kallen(*perm).doit() - expr) != 0:
                note("kallen-symbolic-symmetry:VIOLATED")
                viol.append({"msg": f"expand(Kallen{perm} - Kallen(x, y, z)) != 0",
                             "tags": ["kallen", "kallen-symmetry"], "detail": {}})
            else:
                note("kallen-symbolic-symmetry:equal")
                nontrivial.append(["kallen-symbolic-symmetry", str(perm)])
        n += 1
        fact = (x - (b + c) ** 2) * (x - (b - c) ** 2)
        if sp.expand(Kallen(x, b**2, c**2).doit() - fact) != 0:
            note("kallen-symbolic-factorisation:VIOLATED")
            viol.append({"msg": "expand(Kallen(x, b^2, c^2) - (x-(b+c)^2)(x-(b-c)^2)) != 0",
                         "tags": ["kallen", "kallen-factorisation"], "detail": {}})
        else:
            note("kallen-symbolic-factorisation:equal")
            nontrivial.append(["kallen-symbolic-factorisation"])
        sample = {"kallen": "symbolic", "expanded": str(expr), "degrees": degs}
    return {"violations": viol, "evaluations": n, "nontrivial": nontrivial,
            "outcomes": outcomes, "sample": sample, "caps": caps}


# --------------------------------------------------------------------- events
def _symbols():
    import sympy as sp  # noqa: PLC0415

    return sp.symbols("sigma1 sigma2 sigma3 m0 m1 m2 m3", real=True)


def eval_events(case):  # noqa: PLR0914, PLR0915
    import numpy as np  # noqa: PLC0415
    import sympy as sp  # noqa: PLC0415
    from ampform.kinematics import phasespace as ps  # noqa: PLC0415

    from vp.core import HarnessError  # noqa: PLC0415
    from vp.ref import dalitz  # noqa: PLC0415

    m0, m1, m2, m3 = masses = case["masses"]
    cfg = case["cfg"]
    s1s, s2s, s3s, *ms = _symbols()
    third = ps.compute_third_mandelstam(s1s, s2s, *ms)
    f_third = sp.lambdify([s1s, s2s, *ms], third, "numpy")
    f_kibble = sp.lambdify([s1s, s2s, s3s, *ms], ps.Kibble(s1s, s2s, s3s, *ms).doit(), "numpy")
    f_ind = sp.lambdify([s1s, s2s, *ms], ps.is_within_phasespace(s1s, s2s, *ms).doit(), "numpy")
    viol, nontrivial, outcomes = [], [], {}
    n = 0
    sample = None
    scale = m0 * m0

    def note(key, k=1):
        if k:
            outcomes[key] = outcomes.get(key, 0) + int(k)

    def violation(msg, tags, detail):
        viol.append({"msg": f"[{cfg}] {msg}", "tags": tags, "detail": {"masses": masses, **detail}})

    for reg, (u, v) in dalitz.lattice(masses, case["tier"], case["seed"]).items():
        s1, s2 = dalitz.warp(m0, m1, m2, m3, u, v)
        complaints = dalitz.selfcheck(m0, m1, m2, m3, s1, s2)
        if complaints:
            msg = f"reference inconsistent for {cfg}/{reg}: {complaints[:3]}"
            raise HarnessError(msg)
        ev = dalitz.event(m0, m1, m2, m3, s1, s2)
        s3 = dalitz.minv2(ev[1] + ev[2])
        # 1. third Mandelstam variable = actual invariant mass squared of (12)
        with np.errstate(all="ignore"):
            got = np.broadcast_to(np.asarray(f_third(s1, s2, *masses), dtype=float), s1.shape)
        direct = np.array([float(ps.compute_third_mandelstam(float(a), float(b), *masses))
                           for a, b in zip(s1[:8], s2[:8])])
        n += got.size + direct.size
        dev = np.abs(got - s3)
        bad = ~(dev <= 1e-11 * scale)
        bad_direct = ~(np.abs(direct - s3[:8]) <= 1e-11 * scale)
        nontrivial.append(["sigma3", cfg, reg])
        if np.any(bad) or np.any(bad_direct):
            k = int(np.argmax(bad)) if np.any(bad) else int(np.argmax(bad_direct))
            note("sigma3:VIOLATED")
            violation(
                f"compute_third_mandelstam = {float(got[k])!r} but (p1+p2)^2 ="
                f" {float(s3[k])!r} at sigma1={float(s1[k])!r}, sigma2={float(s2[k])!r} ({reg})",
                ["third-mandelstam", f"region:{reg}"],
                {"sigma1": float(s1[k]), "sigma2": float(s2[k]), "got": float(got[k]),
                 "want": float(s3[k])})
        else:
            note("sigma3:equal(dev<=1e-11*m0^2)")
        # 2. Kibble <= 0 on events
        with np.errstate(all="ignore"):
            phi = np.broadcast_to(np.asarray(f_kibble(s1, s2, s3, *masses), dtype=float), s1.shape)
            ind = np.broadcast_to(np.asarray(f_ind(s1, s2, *masses), dtype=float), s1.shape)
        n += 2 * phi.size
        phi_ref = dalitz.kibble_product_form(m0, m1, m2, m3, s1, s2)
        judged = np.abs(phi_ref) > BAND * m0**8
        bad = ~(phi <= 1e-12 * m0**8)
        nontrivial.append(["kibble<=0", cfg, reg])
        note("kibble:negative", np.sum(phi < 0))
        note("kibble:zero-within-rounding", np.sum((phi >= 0) & ~bad))
        if np.any(bad):
            k = int(np.argmax(bad))
            note("kibble:POSITIVE", np.sum(bad))
            violation(
                f"Kibble = {float(phi[k])!r} > 0 on a physical event at"
                f" sigma1={float(s1[k])!r}, sigma2={float(s2[k])!r} ({reg})",
                ["kibble-sign", f"region:{reg}"],
                {"sigma1": float(s1[k]), "sigma2": float(s2[k]), "sigma3": float(s3[k]),
                 "kibble": float(phi[k])})
        # 3. indicator = 1 on events (judged outside the band)
        bad = judged & ~(ind == 1.0)
        note("event-indicator:1", np.sum(judged & (ind == 1.0)))
        note("event-indicator:skipped-band", np.sum(~judged))
        if np.any(judged):
            nontrivial.append(["event-indicator", cfg, reg])
        if np.any(bad):
            k = int(np.argmax(bad))
            note("event-indicator:NOT-1", np.sum(bad))
            violation(
                f"is_within_phasespace = {float(ind[k])!r} (not 1) on a physical event at"
                f" sigma1={float(s1[k])!r}, sigma2={float(s2[k])!r} ({reg})",
                ["indicator-on-event", f"region:{reg}"],
                {"sigma1": float(s1[k]), "sigma2": float(s2[k])})
        if sample is None and reg == "interior":
            sample = {"masses": masses, "sigma1": float(s1[0]), "sigma2": float(s2[0]),
                      "sigma3_from_four_momenta": float(s3[0]),
                      "compute_third_mandelstam": float(got[0]), "kibble": float(phi[0]),
                      "indicator": float(ind[0])}
    res = {"violations": viol, "evaluations": n, "nontrivial": nontrivial, "outcomes": outcomes}
    if sample is not None:
        res["sample"] = sample
    return res


# ------------------------------------------------------------------------ box
def box_points(masses, tier, seed):
    """{region: (sigma1, sigma2)} - all inside the closed bounding box."""
    import numpy as np  # noqa: PLC0415

    from vp.ref import dalitz  # noqa: PLC0415
    from vp.util import irr  # noqa: PLC0415

    m0, m1, m2, m3 = masses
    (a1, b1), (a2, b2), _ = dalitz.sigma_box(*masses)
    n = 120 if tier == "thorough" else 25

    def axis(k):
        off = 0.1 + 0.8 * irr(seed, k)
        return np.array([0.0, *[(j + off) / (n - 2) for j in range(n - 2)], 1.0])

    g1, g2 = np.meshgrid(a1 + (b1 - a1) * axis(1), a2 + (b2 - a2) * axis(2), indexing="ij")
    regions = {"grid": (g1.ravel(), g2.ravel())}
    n_h = 30 if tier == "thorough" else 8
    t = np.array([(k + 0.1 + 0.8 * irr(seed, 40 + k)) / n_h for k in range(n_h)])
    hug = np.array(HUG)
    for name, fixed_rng, moving_rng, limits, swap in (
        ("hug-sigma2-limits", (a1, b1), (a2, b2),
         lambda s: dalitz.sigma2_limits(m0, m1, m2, m3, s), False),
        ("hug-sigma1-limits", (a2, b2), (a1, b1),
         lambda s: dalitz.sigma1_limits(m0, m1, m2, m3, s), True),
    ):
        fixed = fixed_rng[0] + (fixed_rng[1] - fixed_rng[0]) * t
        lo, hi = limits(fixed)
        width = moving_rng[1] - moving_rng[0]
        fs, mv = [], []
        for edge in (lo, hi):
            for sign in (-1.0, 1.0):
                f, d = np.meshgrid(fixed, hug, indexing="ij")
                e, _ = np.meshgrid(edge, hug, indexing="ij")
                fs.append(f.ravel())
                mv.append((e + sign * d * width).ravel())
        fs, mv = np.concatenate(fs), np.concatenate(mv)
        keep = np.isfinite(mv) & (mv >= moving_rng[0]) & (mv <= moving_rng[1])
        fs, mv = fs[keep], mv[keep]
        regions[name] = (mv, fs) if swap else (fs, mv)
    return regions


def classify(masses, s1, s2):
    """-> (inside, judged) from the PDG limits only."""
    import numpy as np  # noqa: PLC0415

    from vp.ref import dalitz  # noqa: PLC0415

    m0, m1, m2, m3 = masses
    lo, hi = dalitz.sigma2_limits(m0, m1, m2, m3, s1)
    with np.errstate(invalid="ignore"):
        inside = (s2 >= lo) & (s2 <= hi)
        phi_ref = 16.0 * m0**2 * s1 * (s2 - lo) * (s2 - hi)
        judged = np.isfinite(phi_ref) & (np.abs(phi_ref) > BAND * m0**8)
    return inside, judged


def eval_box(case):  # noqa: C901, PLR0912, PLR0914, PLR0915
    import numpy as np  # noqa: PLC0415
    import sympy as sp  # noqa: PLC0415
    from ampform.kinematics import phasespace as ps  # noqa: PLC0415

    from vp.ref import dalitz  # noqa: PLC0415

    masses, cfg, ov = case["masses"], case["cfg"], case["outside"]
    s1s, s2s, _, *ms = _symbols()
    osym = sp.Symbol("outside_value_c20")
    kwargs = {"default": {}, "nan": {"outside_value": sp.nan}, "0": {"outside_value": 0},
              "-1": {"outside_value": -1}, "symbol": {"outside_value": osym}}[ov]
    expected_out = {"default": float("nan"), "nan": float("nan"), "0": 0.0, "-1": -1.0,
                    "symbol": SYMBOL_VALUE}[ov]
    expr = ps.is_within_phasespace(s1s, s2s, *ms, **kwargs).doit()
    f_ind = sp.lambdify([s1s, s2s, *ms, osym], expr, "numpy")
    viol, nontrivial, outcomes = [], [], {}
    n = 0
    sample = None

    def note(key, k=1):
        if k:
            outcomes[key] = outcomes.get(key, 0) + int(k)

    def is_out(x):
        return np.isnan(x) if expected_out != expected_out else x == expected_out

    def violation(msg, tags, detail):
        viol.append({"msg": f"[{cfg}, outside_value={ov}] {msg}",
                     "tags": [*tags, f"outside-value:{ov}"],
                     "detail": {"masses": masses, "outside_value": ov, **detail}})

    for reg, (s1, s2) in box_points(masses, case["tier"], case["seed"]).items():
        inside, judged = classify(masses, s1, s2)
        with np.errstate(all="ignore"):
            got = np.broadcast_to(
                np.asarray(f_ind(s1, s2, *masses, SYMBOL_VALUE), dtype=float), s1.shape)
        n += got.size
        ok_in = judged & inside & (got == 1.0)
        ok_out = judged & ~inside & is_out(got)
        bad_in = judged & inside & ~(got == 1.0)
        bad_out = judged & ~inside & ~is_out(got)
        short = "grid" if reg == "grid" else "hug"
        note(f"{short}:inside->1", ok_in.sum())
        note(f"{short}:outside->outside_value", ok_out.sum())
        note(f"{short}:skipped-band", (~judged).sum())
        if ok_in.any():
            nontrivial.append(["inside", cfg, ov, reg])
        if ok_out.any():
            nontrivial.append(["outside", cfg, ov, reg])
        for bad, tag, text in ((bad_in, "inside-not-1", "inside the PDG limits but indicator ="),
                               (bad_out, "outside-not-outside-value",
                                f"outside the PDG limits but (expected {expected_out}) indicator =")):
            if bad.any():
                k = int(np.argmax(bad))
                lo, hi = dalitz.sigma2_limits(*masses, s1[k])
                note(f"{short}:MISCLASSIFIED", bad.sum())
                violation(
                    f"sigma1={float(s1[k])!r}, sigma2={float(s2[k])!r} (limits"
                    f" [{float(lo)!r}, {float(hi)!r}]) is {text} {float(got[k])!r} ({reg};"
                    f" {int(bad.sum())} points)",
                    ["classification", tag, f"region:{reg}"],
                    {"sigma1": float(s1[k]), "sigma2": float(s2[k]), "lo": float(lo),
                     "hi": float(hi), "got": float(got[k])})
        if sample is None and ok_in.any() and ok_out.any():
            ki, ko = int(np.argmax(ok_in)), int(np.argmax(ok_out))
            sample = {"masses": masses, "outside_value": ov,
                      "inside_point": [float(s1[ki]), float(s2[ki]), float(got[ki])],
                      "outside_point": [float(s1[ko]), float(s2[ko]),
                                        "nan" if got[ko] != got[ko] else float(got[ko])]}
    # the same through the plain-number call path (no lambdify): 6x6 sub-grid
    (a1, b1), (a2, b2), _ = dalitz.sigma_box(*masses)
    rat = [sp.Rational(str(m)) for m in masses]
    ra1, rb1 = (rat[2] + rat[3]) ** 2, (rat[0] - rat[1]) ** 2
    ra2, rb2 = (rat[1] + rat[3]) ** 2, (rat[0] - rat[2]) ** 2
    shift = case["seed"] % 5
    for i, j in itertools.product(range(6), repeat=2):
        tu, tv = sp.Rational(2 * i + 1 + shift, 17), sp.Rational(2 * j + 1 + shift, 17)
        x1, x2 = ra1 + (rb1 - ra1) * tu, ra2 + (rb2 - ra2) * tv
        inside, judged = classify(masses, np.array([float(x1)]), np.array([float(x2)]))
        n += 1
        if not judged[0]:
            note("number-call:skipped-band")
            continue
        if (i + j) % 2:
            args = [float(x1), float(x2), *masses]
            how = "Float"
        else:
            args = [x1, x2, *rat]
            how = "Rational"
        got = ps.is_within_phasespace(*args, **kwargs).doit()
        if inside[0]:
            good = got == 1 and got is not sp.true
        elif ov in {"default", "nan"}:
            good = got is sp.nan
        elif ov == "symbol":
            good = got == osym
        else:
            good = got == int(ov) and got.is_Integer
        nontrivial.append(["number-call", how, "inside" if inside[0] else "outside", cfg, ov])
        if good:
            note(f"number-call:{'inside->1' if inside[0] else 'outside->outside_value'}")
        else:
            note("number-call:MISCLASSIFIED")
            violation(
                f"is_within_phasespace({', '.join(map(str, args))}).doit() = {got} but the"
                f" point is {'inside' if inside[0] else 'outside'} the PDG limits",
                ["classification", "number-call",
                 "inside-not-1" if inside[0] else "outside-not-outside-value"],
                {"sigma1": float(x1), "sigma2": float(x2), "got": str(got)})
    res = {"violations": viol, "evaluations": n, "nontrivial": nontrivial, "outcomes": outcomes}
    if sample is not None:
        res["sample"] = sample
    return res


EXACT_MASSES = [
    (8, 1, 2, 3), (8, 3, 2, 1), (10, 2, 2, 2), (6, 1, 1, 2), (5, 0, 1, 2), (4, 0, 0, 1), (2, 0, 0, 0),
    ("7/2", "1/2", 1, "3/4"), (9, 2, 3, 1),
]


def touching_points(m0, m1, m2, m3):
    """The six points at which the Dalitz boundary touches the lines sigma_k = (m_i+m_j)^2
    and sigma_k = (m0-m_k)^2, as exact rationals (sigma1, sigma2): physical events in which
    two particles are at relative rest, or one particle is at rest in the parent frame."""
    total = m0**2 + m1**2 + m2**2 + m3**2

    def partner(mk, mi, mj, smin):
        # sigma_(k j) at sigma_(i j) = smin = (mi+mj)^2 : (p_k + p_j)^2 in the (i j) rest frame
        root = mi + mj
        ek = (m0**2 - smin - mk**2) / (2 * root)
        return mk**2 + mj**2 + 2 * ek * mj

    def partner_max(mk, mi, mj, smax):
        # sigma_(k j) at sigma_(i j) = smax = (m0-mk)^2 : particle k at rest with the pair
        root = m0 - mk
        ej = (smax - mi**2 + mj**2) / (2 * root)
        return mk**2 + mj**2 + 2 * mk * ej

    pts = []
    # sigma1 = sigma_23 extremal; sigma2 = sigma_13
    for s1, s2 in (((m2 + m3) ** 2, None), ((m0 - m1) ** 2, None)):
        if s1 == (m2 + m3) ** 2 and m2 + m3 != 0:
            pts.append(("sigma1=min", s1, partner(m1, m2, m3, s1)))
        elif s1 == (m0 - m1) ** 2:
            pts.append(("sigma1=max", s1, partner_max(m1, m2, m3, s1)))
    # sigma2 = sigma_13 extremal; sigma1 = sigma_23
    if m1 + m3 != 0:
        s2 = (m1 + m3) ** 2
        pts.append(("sigma2=min", partner(m2, m1, m3, s2), s2))
    s2 = (m0 - m2) ** 2
    pts.append(("sigma2=max", partner_max(m2, m1, m3, s2), s2))
    # sigma3 = sigma_12 extremal: sigma1 = sigma_23 from the (1 2) frame, sigma2 from the sum
    if m1 + m2 != 0:
        s3 = (m1 + m2) ** 2
        s1 = partner(m3, m1, m2, s3)
        pts.append(("sigma3=min", s1, total - s3 - s1))
    s3 = (m0 - m3) ** 2
    s1 = partner_max(m3, m1, m2, s3)
    pts.append(("sigma3=max", s1, total - s3 - s1))
    return pts


def eval_exact_boundary(case):
    """Points ON the boundary are physical events (two particles at relative rest, collinear
    massless particles): Kibble = 0 exactly and the indicator is 1.  Exact rational
    arithmetic (no band), plus exactly representable collinear massless events in floats."""
    import sympy as sp  # noqa: PLC0415
    from ampform.kinematics import phasespace as ps  # noqa: PLC0415

    from vp.core import HarnessError  # noqa: PLC0415

    viol, nontrivial, outcomes = [], [], {}
    n = 0

    def note(key):
        outcomes[key] = outcomes.get(key, 0) + 1

    for raw in EXACT_MASSES:
        m0, m1, m2, m3 = masses = [sp.Rational(x) for x in raw]
        for where, s1, s2 in touching_points(*masses):
            s3 = ps.compute_third_mandelstam(s1, s2, *masses)
            ref_k = ps.Kibble(s1, s2, s3, *masses).doit()
            ref_k = sp.nsimplify(ref_k) if not ref_k.is_Rational else ref_k
            # harness self-check with an independent formula: Gram determinant form
            x, y, z = s1, s2, m0**2 + m1**2 + m2**2 + m3**2 - s1 - s2
            own = _kibble_ref(x, y, z, m0, m1, m2, m3)
            if own != 0:
                msg = f"touching point {where} of masses {raw} is not on the boundary: {own}"
                raise HarnessError(msg)
            n += 2
            if ref_k != 0:
                viol.append({"msg": f"[exact {raw}] Kibble = {ref_k} != 0 at the touching point {where}"
                                    f" (sigma1, sigma2) = ({s1}, {s2})", "tags": ["exact-boundary", "kibble"],
                             "detail": {"masses": list(map(str, raw))}})
            for ov in (None, 0):
                kw = {} if ov is None else {"outside_value": ov}
                got = ps.is_within_phasespace(s1, s2, *masses, **kw).doit()
                n += 1
                nontrivial.append(["touching", list(map(str, raw)), where, str(ov)])
                if got == 1:
                    note("touching-point:indicator=1")
                else:
                    viol.append({"msg": f"[exact {raw}] is_within_phasespace = {got} (not 1) at the touching"
                                        f" point {where} (sigma1, sigma2) = ({s1}, {s2}): a physical event with"
                                        " two particles at relative rest", "tags": ["exact-boundary", "indicator"],
                                 "detail": {"masses": list(map(str, raw)), "sigma1": str(s1), "sigma2": str(s2)}})
    # collinear massless events, exactly representable: p1 = (a,0,0,-a), p2 = (b,0,0,b), p3 = (c,0,0,c)
    s1s, s2s, *ms = [sp.Symbol(x, real=True) for x in ("sigma1", "sigma2", "m0", "m1", "m2", "m3")]
    f_ind = sp.lambdify([s1s, s2s, *ms], ps.is_within_phasespace(s1s, s2s, *ms).doit(), "numpy")
    for a, b, c in ((1.0, 0.5, 0.5), (2.0, 1.5, 0.5), (0.75, 0.25, 0.5), (4.0, 1.0, 3.0)):
        if a != b + c:
            raise HarnessError("collinear event must balance")
        m0v = 2 * a
        sig1 = 0.0  # (p2+p3)^2, both along +z
        sig2 = (a + c) ** 2 - (c - a) ** 2  # (p1+p3)^2
        got = complex(f_ind(sig1, sig2, m0v, 0.0, 0.0, 0.0))
        n += 1
        nontrivial.append(["collinear-massless", a, b, c])
        if got == 1:
            note("collinear-massless-event:indicator=1")
        else:
            viol.append({"msg": f"[massless collinear] is_within_phasespace = {got} (not 1) for the event"
                                f" p1=({a},0,0,-{a}), p2=({b},0,0,{b}), p3=({c},0,0,{c}) (sigma1=0, sigma2={sig2})",
                         "tags": ["exact-boundary", "indicator"], "detail": {"event": [a, b, c]}})
    return {"violations": viol, "evaluations": n, "nontrivial": nontrivial, "outcomes": outcomes,
            "sample": {"touching_points_of_(8,1,2,3)": [[w, str(a), str(b)] for w, a, b in
                                                         touching_points(*[sp.Integer(x) for x in (8, 1, 2, 3)])]}}


def _kibble_ref(s1, s2, s3, m0, m1, m2, m3):
    """Kibble function from its definition lambda(lambda(s2,m2^2,m0^2), lambda(s3,m3^2,m0^2),
    lambda(s1,m1^2,m0^2)), written out independently of the library."""
    def lam(x, y, z):
        return x * x + y * y + z * z - 2 * x * y - 2 * y * z - 2 * z * x

    return lam(lam(s2, m2**2, m0**2), lam(s3, m3**2, m0**2), lam(s1, m1**2, m0**2))


def eval_case(case):
    if case["kind"] == "exact-boundary":
        return eval_exact_boundary(case)
    if case["kind"] == "kallen":
        return eval_kallen(case)
    if case["kind"] == "events":
        return eval_events(case)
    return eval_box(case)
