"""Shared driver: case enumeration, parallel evaluation, evidence, replays, known findings.

A check module (``vp.checks.cXX``) provides

* ``PROPERTY``  – id, e.g. ``"C18"``
* ``LEVEL``     – evidence level (``"exploration"`` or ``"model_checking"``)
* ``RULE``      – how cases are enumerated and what makes one non-trivial
* ``cases(tier, seed)`` – deterministic, *complete* enumeration of the bounded space
  (a list/iterator of JSON-serialisable case descriptors)
* ``eval_case(case)``   – runs the real ampform code on one case and returns a dict
  ``{"violations": [{"msg", "tags", "detail"}], "nontrivial": [keys], "outcome": str,
  "states": int, "transitions": int, "traces": int, "sample": obj}`` (all optional)

or, for engines with their own exploration loop, ``run(ctx)``.

Exit codes: 0 property held on everything explored (known findings are reported as
``KNOWN-FINDING`` lines), 1 at least one unlisted violation (``VIOLATION`` lines),
2 harness error (never reported as a violation).
"""

from __future__ import annotations

import collections
import hashlib
import importlib
import json
import multiprocessing as mp
import os
import sys
import time
import traceback
from pathlib import Path

ROOT = Path(__file__).resolve().parent.parent
REPO_SRC = Path(os.environ.get("VERIF_REPO", "/repo")) / "src"
EVIDENCE_DIR = ROOT / "evidence"
REPLAY_DIR = ROOT / "replays"
KNOWN_FILE = ROOT / "known_findings.txt"
N_WORKERS = int(os.environ.get("VERIF_WORKERS", "0")) or min(16, os.cpu_count() or 1)


class HarnessError(Exception):
    """Raised for failures of the machinery itself; never a VIOLATION."""


def ensure_repo_import() -> None:
    """Make sure `ampform` is imported from /repo's working tree."""
    src = str(REPO_SRC)
    if src not in sys.path:
        sys.path.insert(0, src)
    import logging  # noqa: PLC0415

    logging.disable(logging.CRITICAL)
    import ampform  # noqa: PLC0415

    if not str(Path(ampform.__file__).resolve()).startswith(src):
        msg = f"ampform imported from {ampform.__file__}, expected under {src}"
        raise HarnessError(msg)


def load_known() -> dict[str, list[dict]]:
    """Parse ``known:`` lines of known_findings.txt (``fixed:`` lines suppress nothing)."""
    known: dict[str, list[dict]] = collections.defaultdict(list)
    if KNOWN_FILE.exists():
        for line in KNOWN_FILE.read_text().splitlines():
            line = line.strip()
            if not line.startswith("known:"):
                continue
            _, prop_part, pred_part, what = line.split(None, 3)
            if not prop_part.startswith("property=") or not pred_part.startswith("predicate="):
                msg = f"malformed known-findings line: {line}"
                raise HarnessError(msg)
            prop = prop_part.split("=", 1)[1]
            known[prop].append({
                "property": prop,
                "predicate": pred_part.split("=", 1)[1],
                "what": what,
            })
    return known


def _jsonable(obj):
    try:
        json.dumps(obj)
        return obj
    except TypeError:
        if isinstance(obj, dict):
            return {str(k): _jsonable(v) for k, v in obj.items()}
        if isinstance(obj, (list, tuple, set, frozenset)):
            return [_jsonable(v) for v in obj]
        return repr(obj)


def lib_exception_violation(exc: BaseException) -> dict | None:
    """Classify an exception: raised from within ampform's sources -> violation."""
    tb = traceback.extract_tb(exc.__traceback__)
    frames = [f for f in tb if f.filename.startswith(str(REPO_SRC))]
    if not frames:
        return None
    last = tb[-1]
    # innermost frame must be in ampform or in a library called from ampform
    # (sympy, qrules), i.e. the harness frame is not the innermost one
    if last.filename.startswith(str(ROOT)):
        return None
    where = frames[-1]
    return {
        "msg": f"library raised {type(exc).__name__}: {exc}"[:400],
        "tags": ["exception", f"exception:{type(exc).__name__}"],
        "detail": {
            "where": f"{Path(where.filename).name}:{where.lineno} in {where.name}",
        },
    }


def _worker_eval(args):
    modname, case = args
    mod = importlib.import_module(modname)
    t0 = time.time()
    try:
        res = mod.eval_case(case) or {}
    except HarnessError:
        return {"harness_error": traceback.format_exc(), "case": case}
    except Exception as exc:  # noqa: BLE001
        v = lib_exception_violation(exc)
        if v is None:
            return {"harness_error": traceback.format_exc(), "case": case}
        hook = getattr(mod, "exception_tags", None)
        if hook is not None:
            v["tags"] = list(v["tags"]) + list(hook(case, exc))
        # a case on which the library raised is a case on which the oracle fired
        res = {"violations": [v], "outcome": "exception", "nontrivial": [case]}
    res.setdefault("violations", [])
    res["case"] = case
    res["wall"] = time.time() - t0
    return res


class Ctx:
    def __init__(self, prop: str, tier: str, seed: int, level: str) -> None:
        self.prop = prop
        self.tier = tier
        self.seed = seed
        self.level = level
        self.t0 = time.time()
        self.evaluations = 0
        self.nontrivial: set = set()
        self.outcomes: collections.Counter = collections.Counter()
        self.samples: list = []
        self.states = 0
        self.transitions = 0
        self.traces = 0
        self.violations: list[dict] = []
        self.extra: dict = {}
        self.rule = ""
        self.assumptions: list[str] = []
        self.exhaustive = True
        self.caps: list[str] = []
        self.max_samples = 6

    # -- recording ----------------------------------------------------
    def record(self, res: dict) -> None:
        self.evaluations += int(res.get("evaluations", 1))
        for key in res.get("nontrivial", []) or []:
            self.nontrivial.add(json.dumps(_jsonable(key), sort_keys=True))
        if "outcome" in res:
            self.outcomes[str(res["outcome"])] += 1
        for o, n in (res.get("outcomes") or {}).items():
            self.outcomes[str(o)] += n
        self.states += int(res.get("states", 0))
        self.transitions += int(res.get("transitions", 0))
        self.traces += int(res.get("traces", 0))
        if "sample" in res and len(self.samples) < self.max_samples:
            self.samples.append(_jsonable(res["sample"]))
        for k, v in (res.get("counters") or {}).items():
            self.extra[k] = self.extra.get(k, 0) + v
        for cap in res.get("caps", []) or []:
            if cap not in self.caps:
                self.caps.append(cap)
        for v in res.get("violations", []):
            v = dict(v)
            v.setdefault("tags", [])
            v.setdefault("detail", {})
            v["case"] = res.get("case", v.get("case"))
            self.violations.append(v)

    # -- generic driver -------------------------------------------------
    def run_cases(self, mod, cases: list, chunksize: int = 1) -> None:
        args = [(mod.__name__, c) for c in cases]
        if N_WORKERS <= 1 or len(args) <= 1 or os.environ.get("VERIF_SERIAL"):
            results = map(_worker_eval, args)
            self._collect(results)
            return
        ctx = mp.get_context("fork")
        with ctx.Pool(min(N_WORKERS, len(args))) as pool:
            results = pool.imap(_worker_eval, args, chunksize=chunksize)
            self._collect(results)

    def _collect(self, results) -> None:
        for res in results:
            if "harness_error" in res:
                print("HARNESS-ERROR in case", json.dumps(_jsonable(res["case"]))[:500])
                print(res["harness_error"])
                raise HarnessError("case evaluation failed")
            self.record(res)
            if os.environ.get("VERIF_PROFILE"):
                self.extra.setdefault("_slow", []).append((round(res.get("wall", 0), 2), json.dumps(_jsonable(res.get("case")))[:300]))

    # -- finishing ------------------------------------------------------
    def finish(self) -> int:
        slow = self.extra.pop("_slow", None)
        if slow:
            slow.sort(reverse=True)
            print("total case wall", round(sum(w for w, _ in slow), 1), "s; slowest:")
            for w, c in slow[:8]:
                print("  ", w, c)
        known = load_known().get(self.prop, [])
        known_tags = {e["predicate"]: e for e in known}
        unlisted, listed = [], collections.defaultdict(list)
        for v in self.violations:
            hit = [t for t in v["tags"] if t in known_tags]
            if hit:
                listed[hit[0]].append(v)
            else:
                unlisted.append(v)
        if os.environ.get("VERIF_SUMMARY"):
            by_tags = collections.Counter(tuple(v["tags"]) for v in self.violations)
            print("violations by tag tuple:")
            for tags, n in by_tags.most_common(60):
                print(f"  {n:6d}  {tags}")
        REPLAY_DIR.mkdir(exist_ok=True)
        printed = 0
        seen_sig = set()
        for v in unlisted:
            payload = {
                "property": self.prop,
                "case": _jsonable(v.get("case")),
                "msg": v["msg"],
                "tags": v["tags"],
                "detail": _jsonable(v["detail"]),
            }
            blob = json.dumps(payload, sort_keys=True)
            digest = hashlib.sha256(blob.encode()).hexdigest()[:12]
            path = REPLAY_DIR / f"{self.prop}-{digest}.json"
            sig = v["msg"][:120]
            if printed >= 25:
                continue  # counted, not written (bounded output)
            path.write_text(json.dumps(payload, indent=1, sort_keys=True))
            if sig not in seen_sig or printed < 5:
                print(f"VIOLATION property={self.prop} replay={path}")
                print(f"  {v['msg'][:300]}")
                printed += 1
            seen_sig.add(sig)
        if len(unlisted) > printed:
            print(f"  ... {len(unlisted) - printed} further violations (not listed)")
        for tag, vs in listed.items():
            entry = known_tags[tag]
            print(
                f"KNOWN-FINDING: property={self.prop} {entry['what']}"
                f" [{len(vs)} witness(es) this run, e.g. {vs[0]['msg'][:160]}]"
            )
        self.write_evidence(len(unlisted), {t: len(v) for t, v in listed.items()})
        wall = time.time() - self.t0
        status = "VIOLATED" if unlisted else "held"
        print(
            f"[{self.prop}] {status}: tier={self.tier} seed={self.seed}"
            f" evaluations={self.evaluations} nontrivial={len(self.nontrivial)}"
            f" outcomes={dict(self.outcomes.most_common(8))}"
            f" states={self.states} transitions={self.transitions}"
            f" violations={len(unlisted)} known={sum(len(v) for v in listed.values())}"
            f" wall={wall:.1f}s"
        )
        return 1 if unlisted else 0

    def write_evidence(self, n_viol: int, known_counts: dict) -> None:
        EVIDENCE_DIR.mkdir(exist_ok=True)
        coverage: dict = {
            "evaluations": self.evaluations,
            "distinct_nontrivial": len(self.nontrivial),
            "rule": self.rule,
            "samples": self.samples or ["<no sample recorded>"],
            "exhaustive": bool(self.exhaustive and not self.caps),
            "distinct_outcomes": len(self.outcomes),
            "outcomes": dict(self.outcomes.most_common(20)),
        }
        if self.level == "model_checking":
            coverage["states"] = self.states
            coverage["transitions"] = self.transitions
            coverage["traces_validated_against_impl"] = self.traces
        if self.caps:
            coverage["caps_hit"] = self.caps
        if known_counts:
            coverage["known_findings_observed"] = known_counts
        coverage.update(self.extra)
        evidence = {
            "property_id": self.prop,
            "tier": self.tier,
            "seed": self.seed,
            "level": self.level,
            "coverage": coverage,
            "assumptions": self.assumptions,
            "wall_s": round(time.time() - self.t0, 2),
            "violations": n_viol,
        }
        path = EVIDENCE_DIR / f"{self.prop}.json"
        path.write_text(json.dumps(evidence, indent=1, sort_keys=True))
        schema_path = Path("/root/.vp/EVIDENCE.schema.json")
        if schema_path.exists():
            try:
                import jsonschema  # noqa: PLC0415

                jsonschema.validate(evidence, json.loads(schema_path.read_text()))
            except ImportError:
                pass
            except Exception as exc:  # noqa: BLE001
                if n_viol:
                    # never let an evidence problem mask a violation verdict
                    print(f"note: evidence file does not validate ({str(exc).splitlines()[0]})")
                    return
                msg = f"evidence file does not validate: {exc}"
                raise HarnessError(msg) from exc


def run_property(prop: str, tier: str, seed: int, replay: str | None) -> int:
    ensure_repo_import()
    mod = importlib.import_module(f"vp.checks.{prop.lower()}")
    if replay is not None:
        payload = json.loads(Path(replay).read_text())
        case = payload["case"]
        replay_fn = getattr(mod, "replay_case", None)
        res = _worker_eval((mod.__name__, case)) if replay_fn is None else replay_fn(payload)
        if "harness_error" in res:
            print(res["harness_error"])
            return 2
        if res.get("violations"):
            for v in res["violations"]:
                print(f"REPRODUCED property={prop}: {v['msg'][:400]}")
                print(f"  tags={v.get('tags')}")
                print(f"  detail={json.dumps(_jsonable(v.get('detail')))[:1500]}")
            return 1
        print(f"NOT-REPRODUCED property={prop}: case passes on the current tree")
        return 0
    ctx = Ctx(prop, tier, seed, getattr(mod, "LEVEL", "exploration"))
    ctx.rule = getattr(mod, "RULE", "")
    ctx.assumptions = list(getattr(mod, "ASSUMPTIONS", []))
    if hasattr(mod, "run"):
        mod.run(ctx)
    else:
        cases = list(mod.cases(tier, seed))
        ctx.run_cases(mod, cases, chunksize=getattr(mod, "CHUNK", 1))
    if hasattr(mod, "finalize"):
        mod.finalize(ctx)
    return ctx.finish()
