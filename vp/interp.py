"""Numeric interpreter for ampform expressions.

Evaluates intensities / amplitudes without the symbolic unfolding of WignerD that makes
`expression.doit()` of aligned models take minutes: WignerD atoms are replaced by
placeholders and evaluated with the independent `vp.ref.spin`, everything else (CG,
dynamics, kinematics) is unfolded with the library's own `doit()` and turned into NumPy
code by `sympy.lambdify`, i.e. by ampform's own printers.
"""

from __future__ import annotations

from fractions import Fraction

import numpy as np

from vp.ref import spin as refspin


def _frac(x) -> Fraction:
    return Fraction(int(x.p), int(x.q)) if hasattr(x, "p") else Fraction(str(x))


class MultiEvaluator:
    """{key: expr} -> callable on {symbol name: value/array} returning {key: array}.

    All expressions share one generated NumPy function (common sub-expressions and
    WignerD placeholders are shared), which is what makes per-component comparisons
    affordable."""

    def __init__(self, exprs: dict, fixed=None, cse: bool = True) -> None:
        import sympy as sp  # noqa: PLC0415
        from sympy.physics.quantum.spin import WignerD  # noqa: PLC0415

        self.keys = list(exprs)
        items = []
        for k in self.keys:
            e = sp.sympify(exprs[k])
            if fixed:
                e = e.xreplace(dict(fixed))
            items.append(e)
        atoms = set()
        for e in items:
            atoms |= e.atoms(WignerD)
        atoms = sorted(atoms, key=str)
        self._wigner = atoms
        dummies = {a: sp.Dummy(f"W{i}") for i, a in enumerate(atoms)}
        skeletons = [e.xreplace(dummies).doit() for e in items]
        dummy_set = set(dummies.values())
        self.free_per_key = {}
        free = set()
        for k, e, sk in zip(self.keys, items, skeletons):
            f = set(sk.free_symbols) - dummy_set
            for a in e.atoms(WignerD):
                f |= a.free_symbols
            self.free_per_key[k] = {s.name for s in f}
            free |= f
        self.free = sorted(free, key=lambda s: s.name)
        self._dummies = [dummies[a] for a in atoms]
        self._fn = sp.lambdify([*self.free, *self._dummies], skeletons, "numpy", cse=cse)
        self._argfn = (
            sp.lambdify(self.free, [[a.args[3], a.args[4], a.args[5]] for a in atoms], "numpy", cse=cse)
            if atoms else None
        )
        self._jm = [tuple(_frac(x) for x in a.args[:3]) for a in atoms]
        self.n_wigner = len(atoms)

    def __call__(self, values: dict) -> dict:
        vals = [values[s.name] for s in self.free]
        ws = []
        if self._argfn is not None:
            with np.errstate(all="ignore"):
                args = self._argfn(*vals)
            for (j, m, mp), (al, be, ga) in zip(self._jm, args):
                ws.append(refspin.wigner_D(j, m, mp, al, be, ga))
        with np.errstate(all="ignore"):
            out = self._fn(*vals, *ws)
        return {k: np.asarray(v) for k, v in zip(self.keys, out)}


class Evaluator(MultiEvaluator):
    """Single-expression convenience wrapper."""

    def __init__(self, expr, fixed=None, cse: bool = True) -> None:
        super().__init__({"_": expr}, fixed, cse)

    def __call__(self, values: dict):
        return super().__call__(values)["_"]


def four_momentum_symbols(kin_exprs) -> list:
    """Sorted four-momentum ArraySymbols occurring in kinematic-variable expressions."""
    from sympy.tensor.array.expressions.array_expressions import ArraySymbol  # noqa: PLC0415

    syms = set()
    for e in kin_exprs:
        syms |= set(e.atoms(ArraySymbol))
    return sorted(syms, key=lambda s: int(str(s)[1:]))


class Kinematics:
    """Lambdified kinematic-variable expressions of a model (or of any symbol->expr map)."""

    def __init__(self, mapping: dict, wanted=None, cse: bool = True, fixed=None) -> None:
        import sympy as sp  # noqa: PLC0415

        names = list(mapping) if wanted is None else [s for s in mapping if s.name in wanted]
        self.symbols = names
        exprs = []
        for s in names:
            e = mapping[s]
            if fixed:
                e = e.xreplace(dict(fixed))
            exprs.append(e.doit())
        self.exprs = exprs
        self.momenta = four_momentum_symbols(exprs)
        other = set()
        momentum_names = {str(m) for m in self.momenta}
        for e in exprs:
            # (the name of an ArraySymbol shows up as a plain Symbol in free_symbols)
            other |= {s for s in e.free_symbols if str(s) not in momentum_names}
        self.other_free = sorted(other, key=str)
        self._fn = sp.lambdify(self.momenta, exprs, "numpy", cse=cse) if not self.other_free else None
        self._sp = sp

    def __call__(self, momenta: dict) -> dict:
        if self._fn is None:
            msg = f"kinematic variables depend on non-momentum symbols {self.other_free}"
            raise ValueError(msg)
        args = [np.asarray(momenta[int(str(s)[1:])], dtype=float) for s in self.momenta]
        with np.errstate(all="ignore"):
            vals = self._fn(*args)
        n = len(args[0]) if args else 1
        out = {}
        for s, v in zip(self.symbols, vals):
            v = np.asarray(v)
            if v.ndim == 0:
                v = np.full(n, v)
            out[s.name] = v
        return out


def coefficient_basis(names: list[str]):
    """Assignments {e_i, e_i+e_j, e_i+i e_j}: decide a Hermitian quadratic form in the
    coefficients for ALL complex values (polarisation identity)."""
    n = len(names)
    basis = []
    for i in range(n):
        v = [0j] * n
        v[i] = 1.0 + 0j
        basis.append(dict(zip(names, v)))
    for i in range(n):
        for j in range(i + 1, n):
            v = [0j] * n
            v[i] = v[j] = 1.0 + 0j
            basis.append(dict(zip(names, v)))
            w = [0j] * n
            w[i] = 1.0 + 0j
            w[j] = 1j
            basis.append(dict(zip(names, w)))
    return basis
