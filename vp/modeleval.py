"""Evaluate a HelicityModel's intensity from four-momenta for many coefficient vectors."""

from __future__ import annotations

import itertools

import numpy as np


def coefficient_symbols(model) -> list:
    return sorted((s for s in model.parameter_defaults if str(s).startswith(("C_", "H_"))), key=str)


def polarisation_basis(n: int, cap: int = 14):
    """{e_i, e_i+e_j, e_i+i e_j}: decides a Hermitian quadratic form for all complex
    coefficient values; reduced (neighbour pairs + dense vectors) above `cap`."""
    if n == 0:
        return np.zeros((1, 0), dtype=complex), False
    capped = n > cap
    vecs = []
    for i in range(n):
        v = np.zeros(n, dtype=complex)
        v[i] = 1
        vecs.append(v)
    pairs = itertools.combinations(range(n), 2) if not capped else (
        (i, j) for i in range(n) for j in (i + 1, i + 2) if j < n)
    for i, j in pairs:
        v = np.zeros(n, dtype=complex)
        v[i] = v[j] = 1
        vecs.append(v)
        w = np.zeros(n, dtype=complex)
        w[i], w[j] = 1, 1j
        vecs.append(w)
    if capped:
        for k in range(8):
            vecs.append(np.array([np.exp(1j * (1.3 * k + 2.1 * i * i)) * (0.5 + (i * 7 + k) % 5 / 4)
                                  for i in range(n)]))
    return np.array(vecs), capped


class ModelRunner:
    """intensity(events, coefficient matrix) for one model; coefficients stay free."""

    def __init__(self, model, cse: bool = True) -> None:
        from vp.interp import Kinematics, MultiEvaluator  # noqa: PLC0415

        self.model = model
        self.coeffs = coefficient_symbols(model)
        self.cnames = [s.name for s in self.coeffs]
        fixed = {s: v for s, v in model.parameter_defaults.items() if s not in self.coeffs}
        self.evaluator = MultiEvaluator({"I": model.expression}, fixed, cse=cse)
        needed = {s.name for s in self.evaluator.free} - set(self.cnames)
        self.needed = needed
        self.kin = Kinematics(model.kinematic_variables, wanted=needed, fixed=fixed, cse=cse)
        self.missing = needed - {s.name for s in self.kin.symbols}

    def kinematics(self, events: dict) -> dict:
        return self.kin(events)

    def intensity(self, events: dict, cvecs, names=None) -> np.ndarray:
        """cvecs: (K, n_coeff) in the order of `names` (default: this model's order)."""
        kv = self.kin(events)
        names = self.cnames if names is None else names
        vals = {n: v[None, :] for n, v in kv.items()}
        for n in self.cnames:
            vals[n] = cvecs[:, names.index(n)][:, None]
        out = np.asarray(self.evaluator(vals)["I"])
        n_ev = len(next(iter(events.values())))
        return np.broadcast_to(out, (len(cvecs), n_ev)) if out.ndim < 2 else out
