"""Reaction factory: hand-built qrules.ReactionInfo objects from JSON-able specs, and
the committed catalogue of real qrules reactions.

A *spec* is

    {"formalism": "helicity" | "canonical-helicity",
     "zero_based": false,             # true: initial id 0, final ids 1..n (DPD convention)
     "outer": {"-1": PART, "0": PART, ...},      # initial (-1) and final-state particles
     "chains": [ {"n": 3, "topo": 0, "perm": [0, 1, 2],      # final-id relabeling
                  "res": {"3": PART},                         # intermediate particles
                  "pc": {"0": true, "1": false}} ],           # parity conserved at node?
     "init": "full" | "pm",          # initial-state projections: all / only +-J
     "drop_outer": [[...]]           # optional: outer helicity tuples to leave out}

with PART = [name, spin ("1/2"), mass, parity (+1/-1)].  The factory enumerates every
helicity assignment allowed by |l1 - l2| <= J at each node (massless: +-s only), the
parity rule of qrules for the helicity formalism (prefactor eta = P P1 P2 (-1)^(J-s1-s2),
l1 = l2 = 0 forbidden when eta = -1) and, in the canonical formalism, every (L, S)
allowed by angular momentum and (if conserved) parity with non-vanishing
Clebsch-Gordan coefficients.  It mirrors what qrules emits (checked against the
catalogue by the self-test in vp.checks.c02).
"""

from __future__ import annotations

import hashlib
import itertools
import json
from fractions import Fraction
from functools import lru_cache
from pathlib import Path

ROOT = Path(__file__).resolve().parent.parent
CATALOGUE = ROOT / "reactions"


def frac(x) -> Fraction:
    return Fraction(x) if not isinstance(x, float) else Fraction(x).limit_denominator(2)


def spin_range(s: Fraction, massless: bool = False) -> list[Fraction]:
    s = frac(s)
    n = int(2 * s) + 1
    values = [-s + k for k in range(n)]
    if massless and s > 0:
        values = [-s, s]
    return values


@lru_cache(maxsize=None)
def _particle(name: str, spin: str, mass: float, parity: int, width: float = 0.1):
    from qrules.particle import Parity, Particle  # noqa: PLC0415

    return Particle(
        name=name,
        pid=int(hashlib.sha256(repr((name, spin, mass, parity)).encode()).hexdigest()[:6], 16) + 100,
        spin=float(frac(spin)),
        mass=mass,
        width=width,
        parity=Parity(parity),
        latex=None if name.endswith("x") else name.replace("R", "R_").replace("__", "_") if name.startswith("R") else name,
    )


def particle(part):
    name, spin, mass, parity = part[:4]
    width = part[4] if len(part) > 4 else (0.0 if not str(name).startswith("R") else 0.1 + 0.01 * len(str(name)))
    return _particle(str(name), str(spin), float(mass), int(parity), float(width))


@lru_cache(maxsize=None)
def isobar_topologies(n: int):
    from qrules.topology import create_isobar_topologies  # noqa: PLC0415

    return tuple(create_isobar_topologies(n))


def chain_topology(chain: dict, zero_based: bool = False):
    topo = isobar_topologies(int(chain["n"]))[int(chain["topo"])]
    perm = chain.get("perm")
    n = int(chain["n"])
    if perm is not None and list(perm) != list(range(n)):
        topo = topo.relabel_edges(dict(zip(range(n), perm)))
    if zero_based:
        topo = topo.relabel_edges({e: e + 1 for e in topo.edges})
    return topo


def _cg_nonzero(j1, m1, j2, m2, j, m) -> bool:
    from vp.ref.spin import clebsch_gordan  # noqa: PLC0415

    return abs(clebsch_gordan(j1, m1, j2, m2, j, m)) > 1e-12


def children_in_helicity_order(topology, node_id):
    """(helicity child, opposite-helicity child): smaller attached final-state tuple first."""
    kids = list(topology.get_edge_ids_outgoing_from_node(node_id))
    kids.sort(key=lambda e: attached(topology, e))
    return kids


def attached(topology, edge_id) -> tuple[int, ...]:
    edge = topology.edges[edge_id]
    if edge.ending_node_id is None:
        return (edge_id,)
    out: tuple[int, ...] = ()
    for c in topology.get_edge_ids_outgoing_from_node(edge.ending_node_id):
        out += attached(topology, c)
    return tuple(sorted(out))


def parent_edge(topology, node_id) -> int:
    return next(iter(topology.get_edge_ids_ingoing_to_node(node_id)))


def eta(parent, c1, c2) -> int:
    """qrules' parity prefactor of a helicity decay node."""
    sign = parent.parity.value * c1.parity.value * c2.parity.value
    expo = frac(parent.spin) - frac(c1.spin) - frac(c2.spin)
    if expo.denominator != 1:
        msg = "fermion-number inconsistent node"
        raise ValueError(msg)
    return int(sign * (-1) ** int(expo))


def node_consistent(parent, c1, c2) -> bool:
    return (frac(parent.spin) + frac(c1.spin) + frac(c2.spin)).denominator == 1


def ls_couplings(parent, c1, c2, parity_conserved: bool) -> list[tuple[int, Fraction]]:
    J, s1, s2 = frac(parent.spin), frac(c1.spin), frac(c2.spin)
    out = []
    S = abs(s1 - s2)
    while S <= s1 + s2:
        L = abs(J - S)
        while L <= J + S:
            if L.denominator == 1:
                ok = True
                if parity_conserved:
                    ok = parent.parity.value == c1.parity.value * c2.parity.value * (-1) ** int(L)
                if ok:
                    out.append((int(L), S))
            L += 1
        S += 1
    return out


def build_reaction(spec: dict):
    """ReactionInfo for a spec; raises ValueError if the spec is inconsistent."""
    from qrules.quantum_numbers import InteractionProperties  # noqa: PLC0415
    from qrules.topology import FrozenTransition  # noqa: PLC0415
    from qrules.transition import ReactionInfo, State  # noqa: PLC0415

    canonical = spec["formalism"] != "helicity"
    zero_based = bool(spec.get("zero_based", False))
    shift = 1 if zero_based else 0
    outer = {int(k) + shift: particle(v) for k, v in spec["outer"].items()}
    drop = {tuple(frac(x) for x in t) for t in spec.get("drop_outer", [])}
    transitions = []
    for chain in spec["chains"]:
        topo = chain_topology(chain, zero_based)
        parts = dict(outer)
        for k, v in chain.get("res", {}).items():
            parts[int(k) + shift] = particle(v)
        if set(parts) != set(topo.edges):
            msg = f"particles {sorted(parts)} do not cover edges {sorted(topo.edges)}"
            raise ValueError(msg)
        pc = {int(k): bool(v) for k, v in chain.get("pc", {}).items()}
        init_id = next(iter(topo.incoming_edge_ids))
        ranges = {}
        for e, p in parts.items():
            rng = spin_range(frac(p.spin), massless=(p.mass == 0.0))
            if e == init_id and spec.get("init", "full") == "pm":
                rng = sorted({-frac(p.spin), frac(p.spin)})
            ranges[e] = rng
        nodes = sorted(topo.nodes)
        node_info = {}
        for n in nodes:
            par = parent_edge(topo, n)
            c1, c2 = children_in_helicity_order(topo, n)
            if not node_consistent(parts[par], parts[c1], parts[c2]):
                msg = "fermion-number inconsistent node"
                raise ValueError(msg)
            node_info[n] = (par, c1, c2)
        edge_ids = sorted(parts)
        outer_ids = [init_id, *sorted(topo.outgoing_edge_ids)]
        for combo in itertools.product(*[ranges[e] for e in edge_ids]):
            lam = dict(zip(edge_ids, combo))
            if tuple(lam[i] for i in outer_ids) in drop:
                continue
            ok = True
            per_node_options = []
            for n in nodes:
                par, c1, c2 = node_info[n]
                J = frac(parts[par].spin)
                dl = lam[c1] - lam[c2]
                if abs(dl) > J:
                    ok = False
                    break
                conserved = pc.get(n, False)
                prefactor = None
                if conserved:
                    prefactor = float(eta(parts[par], parts[c1], parts[c2]))
                    if prefactor == -1.0 and lam[c1] == 0 and lam[c2] == 0:
                        ok = False
                        break
                if canonical:
                    opts = []
                    for L, S in ls_couplings(parts[par], parts[c1], parts[c2], conserved):
                        if not _cg_nonzero(L, 0, S, dl, J, dl):
                            continue
                        if not _cg_nonzero(parts[c1].spin, lam[c1], parts[c2].spin, -lam[c2], S, dl):
                            continue
                        opts.append(InteractionProperties(
                            l_magnitude=L, l_projection=0, s_magnitude=S, s_projection=dl,
                            parity_prefactor=prefactor,
                        ))
                    if not opts:
                        ok = False
                        break
                    per_node_options.append(opts)
                else:
                    per_node_options.append([InteractionProperties(parity_prefactor=prefactor)])
            if not ok:
                continue
            states = {e: State(parts[e], float(lam[e])) for e in edge_ids}
            for inter in itertools.product(*per_node_options):
                transitions.append(FrozenTransition(topo, states, dict(zip(nodes, inter))))
    if not transitions:
        msg = "spec yields no transitions"
        raise ValueError(msg)
    return ReactionInfo(transitions, formalism=spec["formalism"])


def spec_key(spec: dict) -> str:
    return json.dumps(spec, sort_keys=True)


@lru_cache(maxsize=64)
def _build_cached(key: str):
    return build_reaction(json.loads(key))


def reaction_from(case_reaction):
    """`{"catalogue": name}` or `{"spec": {...}}` -> ReactionInfo (cached per process)."""
    if "catalogue" in case_reaction:
        return load_catalogue(case_reaction["catalogue"])
    return _build_cached(spec_key(case_reaction["spec"]))


@lru_cache(maxsize=64)
def load_catalogue(name: str):
    import qrules  # noqa: PLC0415

    return qrules.io.load(str(CATALOGUE / f"{name}.json"))


def catalogue_names() -> list[str]:
    return sorted(p.name[: -len(".json")] for p in CATALOGUE.glob("*.json"))


# --------------------------------------------------------------- spec families
def P(name, spin, mass, parity=1):
    return [name, str(spin), float(mass), int(parity)]


def one_node_spec(JA, sB, sC, *, pA=1, pB=1, pC=1, formalism="helicity", pc=False,
                  masses=(3.0, 0.9, 0.5), init="full", same=False) -> dict:
    B = P("B", sB, masses[1], pB)
    C = B if same else P("C", sC, masses[2], pC)
    return {
        "formalism": formalism,
        "init": init,
        "outer": {"-1": P("A", JA, masses[0], pA), "0": B, "1": C},
        "chains": [{"n": 2, "topo": 0, "perm": [0, 1], "res": {}, "pc": {"0": pc}}],
    }


def three_body_spec(JA, s0, s1, s2, chains, *, parities=(1, 1, 1, 1), formalism="helicity",
                    masses=(3.0, 0.9, 0.5, 0.14), init="full", zero_based=False,
                    names=("A", "B", "C", "D")) -> dict:
    """chains: list of (spectator final id, resonance PART, pc0, pc1)."""
    out_chains = []
    for spectator, res, pc0, pc1 in chains:
        others = [i for i in range(3) if i != spectator]
        # topology 0 of create_isobar_topologies(3): 0 is the spectator, (1,2) the pair
        perm = [spectator, *others]
        out_chains.append({
            "n": 3, "topo": 0, "perm": perm, "res": {"3": res},
            "pc": {"0": pc0, "1": pc1},
        })
    return {
        "formalism": formalism,
        "init": init,
        "zero_based": zero_based,
        "outer": {
            "-1": P(names[0], JA, masses[0], parities[0]),
            "0": P(names[1], s0, masses[1], parities[1]),
            "1": P(names[2], s1, masses[2], parities[2]),
            "2": P(names[3], s2, masses[3], parities[3]),
        },
        "chains": out_chains,
    }
