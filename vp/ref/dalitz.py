"""Plain-numpy reference for three-body (Dalitz) kinematics -- used by C19 and C20.

Nothing here imports ampform or sympy.  Conventions (those of the DPD paper and of
``ampform.kinematics``): the parent is particle 0, the children 1, 2, 3 and

    sigma_k = m_ij^2 with (i, j, k) cyclic:  sigma1 = m_23^2, sigma2 = m_13^2, sigma3 = m_12^2.

Four-vectors are arrays ``(..., 4)`` ordered (E, px, py, pz); everything is vectorised
over leading axes.  Two *independent* event constructions are provided (momentum
triangle in the parent frame; sequential two-body decays with a boost) so that the
reference can be checked against itself (:func:`selfcheck`).
"""

from __future__ import annotations

import numpy as np

CYCLIC = {(1, 2), (2, 3), (3, 1)}


# --------------------------------------------------------------------- scalars
def kallen(x, y, z):
    """Kallen triangle function, expanded form."""
    return x * x + y * y + z * z - 2 * x * y - 2 * y * z - 2 * z * x


def kallen_sqrt_form(x, sy, sz):
    """lambda(x, sy^2, sz^2) in the numerically stable factorised form."""
    return (x - (sy + sz) ** 2) * (x - (sy - sz) ** 2)


def breakup_sq(m0, ma, mb):
    """Squared break-up momentum of m0 -> ma mb, factorised (stable at thresholds)."""
    lam = (m0 - ma - mb) * (m0 + ma + mb) * (m0 + ma - mb) * (m0 - ma + mb)
    return lam / (4 * m0 * m0)


def sigma_box(m0, m1, m2, m3):
    """Kinematic bounding box ((s1lo, s1hi), (s2lo, s2hi), (s3lo, s3hi))."""
    return (
        ((m2 + m3) ** 2, (m0 - m1) ** 2),
        ((m1 + m3) ** 2, (m0 - m2) ** 2),
        ((m1 + m2) ** 2, (m0 - m3) ** 2),
    )


def pdg_limits(m0, ma, mb, mc, s_ab):
    """Dalitz-plot limits of s_bc for a given s_ab (PDG kinematics review, Eq. 49.23).

    E_b*, E_c* are the energies of b and c in the (ab) rest frame;
    s_bc(max/min) = (E_b* + E_c*)^2 - (sqrt(E_b*^2 - m_b^2) -/+ sqrt(E_c*^2 - m_c^2))^2.
    The two momenta sqrt(E*^2 - m^2) are evaluated in their factorised (two-body break-up)
    form, which is the same quantity but does not lose digits at the ends of the s_ab
    range.  Returns (lo, hi); nan where s_ab <= 0.
    """
    s_ab = np.asarray(s_ab, dtype=float)
    with np.errstate(divide="ignore", invalid="ignore"):
        rs = np.sqrt(s_ab)
        eb = (s_ab - ma * ma + mb * mb) / (2 * rs)
        ec = (m0 * m0 - s_ab - mc * mc) / (2 * rs)
        qb = np.sqrt(np.maximum(breakup_sq(rs, ma, mb), 0.0))
        qc = np.sqrt(np.maximum(breakup_sq(m0, rs, mc), 0.0)) * m0 / rs
        tot = (eb + ec) ** 2
        lo, hi = tot - (qb + qc) ** 2, tot - (qb - qc) ** 2
        bad = ~(s_ab > 0)
        return np.where(bad, np.nan, lo), np.where(bad, np.nan, hi)


def sigma2_limits(m0, m1, m2, m3, s1):
    """Limits of sigma2 = m_13^2 for given sigma1 = m_23^2 (shared particle: 3)."""
    return pdg_limits(m0, m2, m3, m1, s1)


def sigma1_limits(m0, m1, m2, m3, s2):
    """Limits of sigma1 = m_23^2 for given sigma2 = m_13^2 (shared particle: 3)."""
    return pdg_limits(m0, m1, m3, m2, s2)


def kibble_product_form(m0, m1, m2, m3, s1, s2):
    """Kibble function lambda(lambda1, lambda2, lambda3) written through the PDG limits.

    At fixed sigma1 it is a quadratic in sigma2 whose roots are the Dalitz-plot limits:
    phi = 16 m0^2 sigma1 (sigma2 - lo)(sigma2 - hi)   (= -64 m0^4 |p1 x p2|^2 on events).
    Used only to size the band around the boundary in which a classification is not judged.
    """
    lo, hi = sigma2_limits(m0, m1, m2, m3, s1)
    return 16.0 * m0**2 * s1 * (s2 - lo) * (s2 - hi)


# ----------------------------------------------------------------- four-vectors
def minv2(p):
    p = np.asarray(p)
    return p[..., 0] ** 2 - np.sum(p[..., 1:] ** 2, axis=-1)


def dot3(a, b):
    return np.sum(a * b, axis=-1)


def rotation_matrix(alpha, beta, gamma):
    ca, sa, cb, sb, cg, sg = (np.cos(alpha), np.sin(alpha), np.cos(beta), np.sin(beta),
                              np.cos(gamma), np.sin(gamma))
    rz1 = np.array([[ca, -sa, 0], [sa, ca, 0], [0, 0, 1.0]])
    ry = np.array([[cb, 0, sb], [0, 1.0, 0], [-sb, 0, cb]])
    rz2 = np.array([[cg, -sg, 0], [sg, cg, 0], [0, 0, 1.0]])
    return rz1 @ ry @ rz2


def _orient(vectors, orientation):
    """orientation = (alpha, beta, gamma[, mirror]) applied to all spatial parts."""
    if orientation is None:
        return vectors
    alpha, beta, gamma, *rest = orientation
    rot = rotation_matrix(alpha, beta, gamma)
    out = {}
    for key, p in vectors.items():
        sp3 = p[..., 1:].copy()
        if rest and rest[0]:
            sp3[..., 0] = -sp3[..., 0]
        out[key] = np.concatenate([p[..., :1], sp3 @ rot.T], axis=-1)
    return out


def event(m0, m1, m2, m3, s1, s2, orientation=None):
    """Three-body event in the parent rest frame from (sigma1, sigma2): momentum triangle.

    E1, E2 follow from the two-body relations 0 -> 1 (23) and 0 -> 2 (13), E3 from energy
    conservation, the opening angle from momentum conservation (the Mandelstam sum rule
    is *not* used).  p1 points along +z, p2 has a positive x component.
    Returns {0: p0, 1: p1, 2: p2, 3: p3}.
    """
    s1 = np.asarray(s1, dtype=float)
    s2 = np.asarray(s2, dtype=float)
    r1 = np.sqrt(s1)
    r2 = np.sqrt(s2)
    e1 = (m0 * m0 + m1 * m1 - s1) / (2 * m0)
    e2 = (m0 * m0 + m2 * m2 - s2) / (2 * m0)
    e3 = m0 - e1 - e2
    q1 = np.sqrt(np.maximum(breakup_sq(m0, m1, r1), 0.0))
    q2 = np.sqrt(np.maximum(breakup_sq(m0, m2, r2), 0.0))
    q3 = np.sqrt(np.maximum((e3 - m3) * (e3 + m3), 0.0))
    with np.errstate(divide="ignore", invalid="ignore"):
        cos12 = (q3 * q3 - q1 * q1 - q2 * q2) / (2 * q1 * q2)
        heron = (q1 + q2 + q3) * (-q1 + q2 + q3) * (q1 - q2 + q3) * (q1 + q2 - q3)
        sin12 = np.sqrt(np.maximum(heron, 0.0)) / (2 * q1 * q2)
        norm = np.hypot(cos12, sin12)
        cos12, sin12 = cos12 / norm, sin12 / norm
    zero = np.zeros_like(e1 + e2)
    p1 = np.stack([e1 + zero, zero, zero, q1 + zero], axis=-1)
    p2 = np.stack([e2 + zero, q2 * sin12, zero, q2 * cos12], axis=-1)
    p3 = np.stack([e3 + zero, -p2[..., 1], zero, -p1[..., 3] - p2[..., 3]], axis=-1)
    p0 = np.stack([m0 + zero, zero, zero, zero], axis=-1)
    return _orient({0: p0, 1: p1, 2: p2, 3: p3}, orientation)


def event_sequential(m0, m1, m2, m3, s1, s2, orientation=None):
    """Same event built as 0 -> 1 (23), (23) -> 2 3 with a boost (needs sigma1 > 0).

    Independent of :func:`event`: the decay angle in the (23) frame is fixed by
    sigma2 = (p1 + p3)^2, then 2 and 3 are boosted into the parent frame.
    """
    s1 = np.asarray(s1, dtype=float)
    s2 = np.asarray(s2, dtype=float)
    r1 = np.sqrt(s1)
    e1 = (m0 * m0 + m1 * m1 - s1) / (2 * m0)
    q1 = np.sqrt(np.maximum(breakup_sq(m0, m1, r1), 0.0))
    # (23) rest frame: particle 1 moves along +z with energy e1s, 3 has energy e3s
    e1s = (m0 * m0 - s1 - m1 * m1) / (2 * r1)
    k1s = np.sqrt(np.maximum(e1s * e1s - m1 * m1, 0.0))
    e3s = (s1 + m3 * m3 - m2 * m2) / (2 * r1)
    e2s = (s1 + m2 * m2 - m3 * m3) / (2 * r1)
    k = np.sqrt(np.maximum(breakup_sq(r1, m2, m3), 0.0))
    # s2 = m1^2 + m3^2 + 2 (e1s e3s - k1s k cos)  ->  cos of angle between 1 and 3
    with np.errstate(divide="ignore", invalid="ignore"):
        cos13 = (m1 * m1 + m3 * m3 + 2 * e1s * e3s - s2) / (2 * k1s * k)
    cos13 = np.clip(cos13, -1.0, 1.0)
    sin13 = np.sqrt(1 - cos13 * cos13)
    zero = np.zeros_like(e1 + s2)
    # in the (23) frame with 1 along +z: p3 at angle theta13 on the -x side
    p3s = np.stack([e3s + zero, -k * sin13, zero, k * cos13], axis=-1)
    p2s = np.stack([e2s + zero, k * sin13, zero, -k * cos13], axis=-1)
    # (23) moves along -z in the parent frame with momentum q1
    e23 = m0 - e1
    p23 = np.stack([e23 + zero, zero, zero, -q1 + zero], axis=-1)
    p23_rev = p23.copy()
    p23_rev[..., 1:] *= -1
    p2 = boost_to_rest(p2s, p23_rev)
    p3 = boost_to_rest(p3s, p23_rev)
    p1 = np.stack([e1 + zero, zero, zero, q1 + zero], axis=-1)
    p0 = np.stack([m0 + zero, zero, zero, zero], axis=-1)
    return _orient({0: p0, 1: p1, 2: p2, 3: p3}, orientation)


def boost_to_rest(q, frame):
    """Components of q in the rest frame of the four-momentum ``frame`` (pure boost)."""
    q = np.asarray(q, dtype=float)
    frame = np.asarray(frame, dtype=float)
    mass = np.sqrt(minv2(frame))
    b = -frame[..., 1:] / frame[..., :1]
    g = frame[..., 0] / mass
    b2 = dot3(b, b)
    bq = dot3(b, q[..., 1:])
    with np.errstate(divide="ignore", invalid="ignore"):
        coeff = np.where(b2 > 0, (g - 1) * bq / np.where(b2 > 0, b2, 1.0), 0.0)
    e = g * (q[..., 0] + bq)
    sp3 = q[..., 1:] + (coeff + g * q[..., 0])[..., None] * b
    return np.concatenate([e[..., None], sp3], axis=-1)


def boost_matrix(frame):
    """4x4 matrix of the pure boost into the rest frame of ``frame`` (..., 4, 4)."""
    frame = np.asarray(frame, dtype=float)
    mass = np.sqrt(minv2(frame))
    b = -frame[..., 1:] / frame[..., :1]
    g = frame[..., 0] / mass
    b2 = dot3(b, b)
    shape = frame.shape[:-1]
    mat = np.zeros((*shape, 4, 4))
    mat[..., 0, 0] = g
    mat[..., 0, 1:] = g[..., None] * b
    mat[..., 1:, 0] = g[..., None] * b
    with np.errstate(divide="ignore", invalid="ignore"):
        f = np.where(b2 > 0, (g - 1) / np.where(b2 > 0, b2, 1.0), 0.0)
    mat[..., 1:, 1:] = np.eye(3) + f[..., None, None] * b[..., :, None] * b[..., None, :]
    return mat


def apply(mat, p):
    return np.einsum("...ij,...j->...i", mat, p)


def angle(a, b):
    """Angle in [0, pi] between 3-vectors, stable near 0 and pi."""
    cr = np.cross(a, b)
    return np.arctan2(np.sqrt(dot3(cr, cr)), dot3(a, b))


def signed_angle(a, b, normal):
    """Angle in (-pi, pi] of the rotation about ``normal`` that takes a to b (coplanar)."""
    nrm = normal / np.sqrt(dot3(normal, normal))[..., None]
    return np.arctan2(dot3(nrm, np.cross(a, b)), dot3(a, b))


def cos_between(a, b):
    return dot3(a, b) / np.sqrt(dot3(a, a) * dot3(b, b))


def plane_normal(ev):
    """p1 x p2 (for a three-body event also the direction of p2 x p3 and p3 x p1)."""
    return np.cross(ev[1][..., 1:], ev[2][..., 1:])


# ------------------------------------------------------------------ DPD angles
def theta_hat_ref(ev, i, j):
    """Signed angle from p_i to p_j in the parent rest frame about n = p1 x p2.

    Positive (and < pi) for (i, j) cyclic, negative for anti-cyclic, 0 for i == j.
    """
    if i == j:
        return np.zeros(ev[0].shape[:-1])
    return signed_angle(ev[i][..., 1:], ev[j][..., 1:], plane_normal(ev))


def theta_ref(ev, i, j):
    """Helicity angle of i in the (ij) rest frame: angle between p_i and -p_k there.

    (-p_k in the (ij) frame is the flight direction of the isobar seen from the parent.)
    """
    k = ({1, 2, 3} - {i, j}).pop()
    pij = ev[i] + ev[j]
    qi = boost_to_rest(ev[i], pij)
    qk = boost_to_rest(ev[k], pij)
    return angle(qi[..., 1:], -qk[..., 1:])


def _mother(ev, i, chain):
    """Four-momentum of the system whose decay produces i in decay chain ``chain``."""
    if chain == i:
        return ev[0]
    other = ({1, 2, 3} - {i, chain}).pop()
    return ev[i] + ev[other]


def zeta_ref(ev, masses, i, j, k):
    """Alignment angle zeta^i_{j(k)} from four-momenta (i in 1..3; k = 0 means k = i).

    In the rest frame of i the helicity quantisation axis of chain c is opposite to the
    momentum of i's mother in that chain (the parent for c = i, the isobar otherwise).
    zeta^i_{j(k)} is the signed rotation angle about n = p1 x p2 that takes the axis of
    chain k to the axis of chain j.  For a massless particle the helicity is frame
    independent and the angle is 0 (limit m_i -> 0 of the above).
    """
    if k == 0:
        k = i
    shape = ev[0].shape[:-1]
    if j == k or masses[i] == 0:
        return np.zeros(shape)
    ma = boost_to_rest(_mother(ev, i, j), ev[i])[..., 1:]
    mb = boost_to_rest(_mother(ev, i, k), ev[i])[..., 1:]
    return signed_angle(-mb, -ma, plane_normal(ev))


def zeta_ref_wigner(ev, masses, i, j, k):
    """Same angle as an explicit Wigner rotation between the two helicity frames.

    F_c is the chain of pure boosts parent frame -> (isobar frame ->) rest frame of i along
    decay chain c; the helicity axis in F_c is the direction of the last boost.  The
    rotation R = F_j F_k^-1 carries the axis of chain k into F_j, where it is compared
    with the axis of chain j.
    """
    if k == 0:
        k = i
    shape = ev[0].shape[:-1]
    if j == k or masses[i] == 0:
        return np.zeros(shape)
    eta = np.diag([1.0, -1.0, -1.0, -1.0])

    def chain(c):
        if c == i:
            frame = boost_matrix(ev[i])
            axis = ev[i][..., 1:]
            return frame, axis
        mother = _mother(ev, i, c)
        first = boost_matrix(mother)
        pi_iso = apply(first, ev[i])
        second = boost_matrix(pi_iso)
        return second @ first, pi_iso[..., 1:]

    fj, axis_j = chain(j)
    fk, axis_k = chain(k)
    fk_inv = eta @ np.swapaxes(fk, -1, -2) @ eta
    rot = fj @ fk_inv
    defect = np.max(np.abs(rot[..., 0, 0] - 1.0)) if rot.size else 0.0
    moved = np.einsum("...ij,...j->...i", rot[..., 1:, 1:], axis_k)
    return signed_angle(moved, axis_j, plane_normal(ev)), defect


# ------------------------------------------------------------------- lattices
DELTAS = [1e-2, 1e-3, 1e-4, 1e-5, 1e-6, 1e-7, 1e-8]


def mass_configs():
    """[(name, [m0, m1, m2, m3])]: every special role is given to every child once."""
    out = [
        ("generic-a", [3.0, 0.9, 0.5, 0.14]),
        ("generic-b", [2.3, 0.94, 0.14, 0.49]),
        ("all-equal", [3.0, 0.6, 0.6, 0.6]),
        ("all-massless", [3.0, 0.0, 0.0, 0.0]),
    ]
    for odd in (1, 2, 3):
        m = [0.5, 0.5, 0.5]
        m[odd - 1] = 0.9
        out.append((f"two-equal(odd={odd})", [3.0, *m]))
        m = [0.5, 0.9, 0.7]
        m = m[-odd:] + m[:-odd]
        m[odd - 1] = 0.0
        out.append((f"one-massless({odd})", [3.0, *m]))
        m = [0.0, 0.0, 0.0]
        m[odd - 1] = 0.9
        out.append((f"two-massless(massive={odd})", [3.0, *m]))
        m = [0.3, 0.2, 0.25]
        m[odd - 1] = 4.0
        out.append((f"heavy-spectator({odd})", [5.0, *m]))
    return sorted(out)


def lattice(masses, tier, seed):
    """{region: (u, v)} in warped coordinates - deterministic, shifted by the seed.

    interior: n x n grid strictly inside; 'sigma2->min/max': v -> 0/1 geometrically at
    several u (incl. the boundary points with p3 = 0 / p2 = 0); 'sigma1->min/max': u -> 0/1.
    """
    from vp.util import irr  # noqa: PLC0415

    n = 40 if tier == "thorough" else 12
    off_u = 0.15 + 0.7 * irr(seed, 1)
    off_v = 0.15 + 0.7 * irr(seed, 2)
    uu = (np.arange(n) + off_u) / n
    vv = (np.arange(n) + off_v) / n
    gu, gv = np.meshgrid(uu, vv, indexing="ij")
    regions = {"interior": (gu.ravel(), gv.ravel())}
    n_u = 12 if tier == "thorough" else 4
    us = [(k + 0.2 + 0.6 * irr(seed, 3 + k)) / n_u for k in range(n_u)]
    special = special_u(*masses)
    deltas = np.array(DELTAS)
    lo_u = [u for u in [*us, special["p3=0"]] if 1e-6 < u < 1 - 1e-6]
    hi_u = [u for u in [*us, special["p2=0"]] if 1e-6 < u < 1 - 1e-6]
    a, b = np.meshgrid(np.array(lo_u), deltas, indexing="ij")
    regions["sigma2->min"] = (a.ravel(), b.ravel())
    a, b = np.meshgrid(np.array(hi_u), deltas, indexing="ij")
    regions["sigma2->max"] = (a.ravel(), 1.0 - b.ravel())
    n_v = 9 if tier == "thorough" else 3
    vs = np.array([(k + 0.2 + 0.6 * irr(seed, 20 + k)) / n_v for k in range(n_v)])
    a, b = np.meshgrid(deltas, vs, indexing="ij")
    regions["sigma1->min"] = (a.ravel(), b.ravel())
    regions["sigma1->max"] = (1.0 - a.ravel(), b.ravel())
    return regions


def warp(m0, m1, m2, m3, u, v):
    """(u, v) in [0,1]^2 -> (sigma1, sigma2) with sigma2 between its limits for sigma1."""
    (a, b), _, _ = sigma_box(m0, m1, m2, m3)
    s1 = a + (b - a) * np.asarray(u, dtype=float)
    lo, hi = sigma2_limits(m0, m1, m2, m3, s1)
    s2 = lo + (hi - lo) * np.asarray(v, dtype=float)
    return s1, s2


def special_u(m0, m1, m2, m3):
    """u coordinates of the boundary points where p2 = 0 (v = 1) and p3 = 0 (v = 0)."""
    (a, b), _, _ = sigma_box(m0, m1, m2, m3)
    out = {}
    # p2 = 0: 1 and 3 back to back with total energy m0 - m2
    w = m0 - m2
    e3 = (w * w + m3 * m3 - m1 * m1) / (2 * w)
    out["p2=0"] = ((m2 * m2 + m3 * m3 + 2 * m2 * e3) - a) / (b - a)
    w = m0 - m3
    e2 = (w * w + m2 * m2 - m1 * m1) / (2 * w)
    out["p3=0"] = ((m2 * m2 + m3 * m3 + 2 * m3 * e2) - a) / (b - a)
    return out


def selfcheck(m0, m1, m2, m3, s1, s2, tol=1e-7):
    """Consistency of the reference with itself; returns a list of complaints."""
    out = []
    ev = event(m0, m1, m2, m3, s1, s2)
    masses = {0: m0, 1: m1, 2: m2, 3: m3}
    scale = m0 * m0
    for idx in (1, 2, 3):
        if np.max(np.abs(minv2(ev[idx]) - masses[idx] ** 2)) > tol * scale:
            out.append(f"event: particle {idx} off shell")
    tot = ev[1] + ev[2] + ev[3] - ev[0]
    if np.max(np.abs(tot)) > tol * m0:
        out.append("event: four-momentum not conserved")
    if np.max(np.abs(minv2(ev[2] + ev[3]) - s1)) > tol * scale:
        out.append("event: m23^2 != sigma1")
    if np.max(np.abs(minv2(ev[1] + ev[3]) - s2)) > tol * scale:
        out.append("event: m13^2 != sigma2")
    if np.all(np.asarray(s1) > 0):
        ev2 = event_sequential(m0, m1, m2, m3, s1, s2)
        for idx in (1, 2, 3):
            if np.max(np.abs(ev2[idx] - ev[idx])) > 10 * tol * m0:
                out.append(f"triangle and sequential constructions differ for p{idx}")
    for i in (1, 2, 3):
        if masses[i] == 0:
            continue
        for j in (1, 2, 3):
            for k in (1, 2, 3):
                if j == k:
                    continue
                direct = zeta_ref(ev, masses, i, j, k)
                wig, defect = zeta_ref_wigner(ev, masses, i, j, k)
                if defect > 1e-6:
                    out.append(f"F_j F_k^-1 is not a rotation for zeta^{i}_{j}({k})")
                if np.max(np.abs(np.angle(np.exp(1j * (direct - wig))))) > 100 * tol:
                    out.append(f"zeta^{i}_{j}({k}): direction and Wigner-rotation forms differ")
    return out
