"""Plain numpy/scipy reference for the two-body dynamics of C11/C12.

Nothing here imports ampform or sympy.  Every function works on Python floats (scalar
in, scalar out; ``nan`` where the quantity is not defined by the documentation) and is
written region by region in *real* arithmetic from the closed forms of the PDG review
(Kinematics eq. 49.17, Resonances eqs. 50.9, 50.26-50.28 and the Chew-Mandelstam
S-wave function; equal-mass continuation: PDG 2018 Resonances p. 9), so that no branch
of a complex logarithm or square root has to be trusted.

Notation: ``thr = (m1+m2)^2``, ``pthr = (m1-m2)^2``, ``D = (s-thr)(s-pthr) = 4 s q^2``.
"""

from __future__ import annotations

import math

import numpy as np
from scipy.special import spherical_jn, spherical_yn

NAN = float("nan")
U = 2.220446049250313e-16


# ------------------------------------------------------------------ kinematics
def thresholds(m1: float, m2: float) -> tuple[float, float]:
    return (m1 - m2) ** 2, (m1 + m2) ** 2


def q2(s: float, m1: float, m2: float) -> float:
    """Break-up momentum squared, PDG Kinematics (49.17)."""
    if s == 0:
        return NAN
    return (s - (m1 + m2) ** 2) * (s - (m1 - m2) ** 2) / (4 * s)


def _disc(s, m1, m2):
    return (s - (m1 + m2) ** 2) * (s - (m1 - m2) ** 2)


def region(s: float, m1: float, m2: float) -> str:
    pthr, thr = thresholds(m1, m2)
    if s < 0:
        return "neg"
    if s == 0:
        return "zero"
    if s == thr:
        return "thr"
    if s > thr:
        return "above"
    if s == pthr:
        return "pthr"
    if s > pthr:
        return "between"
    return "below-pthr"


def cond(s: float, m1: float, m2: float) -> float:
    """Condition number of sqrt(q^2) with respect to rounding of s and the thresholds."""
    pthr, thr = thresholds(m1, m2)
    scale = abs(s) + thr
    out = 1.0
    for edge in (thr, pthr):
        d = abs(s - edge)
        out = max(out, scale / d if d > 0 else math.inf)
    return out


def kappa_cm(s: float, m1: float, m2: float) -> float:
    """Relative float64 rounding error of the Chew-Mandelstam logarithm's argument as the
    PDG writes it, (A + 2 sqrt(s) q)/(2 m1 m2) with A = m1^2+m2^2-s: for s < 0 and for
    s > thr the two terms have opposite sign and |2 sqrt(s) q| = sqrt(A^2 - 4 m1^2 m2^2),
    so the sum is ~ 2 m1^2 m2^2/|A| and the relative error ~ u (A/(m1 m2))^2 / 2.
    No cancellation between 0 and thr."""
    if 0 <= s <= (m1 + m2) ** 2:
        return U
    a = m1 * m1 + m2 * m2 - s
    return U * (a / (m1 * m2)) ** 2


# ---------------------------------------------------------- phase-space factors
def rho(s, m1, m2):
    """2 q / sqrt(s): defined (real) where s > 0 and q^2 >= 0."""
    if s <= 0:
        return NAN
    x = q2(s, m1, m2)
    if x < 0:
        return NAN
    return 2 * math.sqrt(x) / math.sqrt(s)


def rho_abs(s, m1, m2):
    """rho-hat = 2 sqrt|q^2| / sqrt(s), s > 0."""
    if s <= 0:
        return NAN
    return 2 * math.sqrt(abs(q2(s, m1, m2))) / math.sqrt(s)


def rho_complex(s, m1, m2):
    """2 csqrt(q^2) / sqrt(s) with csqrt(x<0) = +i sqrt(-x) and the principal sqrt(s)."""
    if s == 0:
        return complex(NAN, NAN)
    x = q2(s, m1, m2)
    if s > 0:
        if x < 0:
            return complex(0.0, 2 * math.sqrt(-x) / math.sqrt(s))
        return complex(2 * math.sqrt(x) / math.sqrt(s), 0.0)
    # s < 0: q^2 < 0, i|q| / (i sqrt(-s))
    return complex(2 * math.sqrt(-x) / math.sqrt(-s), 0.0)


def chew_mandelstam(s, m1, m2):
    """S-wave Chew-Mandelstam function Sigma(s) (PDG 2021 Resonances, eq. 50.44 form):

    pi Sigma = 2q/sqrt(s) log((m1^2+m2^2-s+2 sqrt(s) q)/(2 m1 m2))
               - (m1^2-m2^2)(1/s - 1/(m1+m2)^2) log(m1/m2),

    evaluated region-wise; the logarithm's argument has modulus 1 between the thresholds
    and is otherwise rewritten with (A+sqrt D)(A-sqrt D) = 4 m1^2 m2^2 (A = m1^2+m2^2-s)
    so that nothing cancels.
    """
    if s == 0:
        return complex(NAN, NAN)
    pthr, thr = thresholds(m1, m2)
    a = m1 * m1 + m2 * m2 - s
    d = _disc(s, m1, m2)
    mm = 2 * m1 * m2
    if s > thr:
        rd = math.sqrt(d)
        # argument negative: log = ln|arg| + i pi ; |arg| = 2 m1 m2 / (-A + sqrt D)
        left = complex(rd / s * math.log(mm / (-a + rd)), rd / s * math.pi)
    elif s == thr or s == pthr:
        left = 0j
    elif s > pthr:
        rd = math.sqrt(-d)
        theta = math.atan2(rd, a)
        left = complex(-rd * theta / s, 0.0)
    elif s > 0:
        rd = math.sqrt(d)
        left = complex(rd / s * math.log((a + rd) / mm), 0.0)
    else:
        rd = math.sqrt(d)
        left = complex(rd / (-s) * math.log(mm / (a + rd)), 0.0)
    right = (m1 * m1 - m2 * m2) * (1 / s - 1 / thr) * math.log(m1 / m2)
    return (left - right) / math.pi


def rho_cm(s, m1, m2):
    return -1j * chew_mandelstam(s, m1, m2)


def rho_eq(s, m1, m2):
    """Equal-mass analytic continuation (PDG 2018 Resonances p. 9) in terms of rho-hat.

    For s > 0 this is the documented piecewise formula for any masses.  For s < 0 the
    continuation is only defined for equal masses (the PDG derives it for that case);
    there rho-hat = sqrt|1 - 4 m^2 / s| = sqrt|4 q^2 / s|.
    """
    if s == 0:
        return complex(NAN, NAN)
    _, thr = thresholds(m1, m2)
    if s < 0:
        if m1 != m2:
            return complex(NAN, NAN)
        rh = math.sqrt(abs(4 * q2(s, m1, m2) / s))
        return complex(0.0, rh / math.pi * math.log(abs((1 + rh) / (1 - rh))))
    rh = rho_abs(s, m1, m2)
    if s > thr:
        return complex(rh, rh / math.pi * math.log(abs((1 + rh) / (1 - rh))))
    if rh == 0:
        return 0j
    return complex(0.0, 2 * rh / math.pi * math.atan(1 / rh))


PHSP = {
    "PhaseSpaceFactor": rho,
    "PhaseSpaceFactorAbs": rho_abs,
    "PhaseSpaceFactorComplex": rho_complex,
    "PhaseSpaceFactorSWave": rho_cm,
    "EqualMassPhaseSpaceFactor": rho_eq,
}


# ----------------------------------------------------------- Blatt-Weisskopf
def _h1_abs2(ell: int, x: float) -> float:
    """|h_L^(1)(x)|^2 for real x > 0."""
    return float(spherical_jn(ell, x) ** 2 + spherical_yn(ell, x) ** 2)


def blatt_weisskopf_squared(z: float, ell: int) -> float:
    """B_L^2(z) = |h_L^(1)(1)|^2 / (z |h_L^(1)(sqrt z)|^2), z > 0; B_L^2(1) = 1."""
    if not z > 0:
        return NAN
    return _h1_abs2(ell, 1.0) / (z * _h1_abs2(ell, math.sqrt(z)))


def blatt_weisskopf_limit(ell: int) -> float:
    """lim z->oo B_L^2(z) = |h_L(1)|^2 (x^2 |h_L(x)|^2 -> 1), also its supremum."""
    return _h1_abs2(ell, 1.0)


def blatt_weisskopf_threshold_constant(ell: int) -> float:
    """lim z->0 B_L^2(z) / z^L = |h_L(1)|^2 / ((2L-1)!!)^2."""
    dfact = 1.0
    for k in range(1, 2 * ell, 2):
        dfact *= k
    return _h1_abs2(ell, 1.0) / dfact**2


def form_factor(s, m1, m2, ell, radius=1.0):
    """sqrt(B_L^2(q^2 d^2)); defined for q^2 >= 0 (0 at threshold for L > 0)."""
    z = q2(s, m1, m2) * radius**2
    if z != z or z < 0:
        return NAN
    if z == 0:
        return 1.0 if ell == 0 else 0.0
    return math.sqrt(blatt_weisskopf_squared(z, ell))


# ------------------------------------------------------------------ line shapes
def energy_dependent_width(s, m0, gamma0, m1, m2, ell, radius, phsp="PhaseSpaceFactor"):
    """Gamma(s) = Gamma0 (F_L(s)/F_L(m0^2))^2 rho(s)/rho(m0^2)  (PDG 50.28 with the
    normalised barrier factor).  nan where a form factor is undefined or rho(m0^2) = 0."""
    fn = PHSP[phsp]
    f = form_factor(s, m1, m2, ell, radius)
    f0 = form_factor(m0 * m0, m1, m2, ell, radius)
    r = fn(s, m1, m2)
    r0 = fn(m0 * m0, m1, m2)
    if f != f or f0 != f0 or f0 == 0 or r != r or r0 != r0 or r0 == 0:
        return complex(NAN, NAN)
    return gamma0 * (f / f0) ** 2 * (complex(r) / complex(r0))


def relativistic_breit_wigner(s, m0, gamma0):
    return gamma0 * m0 / complex(m0 * m0 - s, -gamma0 * m0)


def breit_wigner_energy_dependent(  # noqa: PLR0917
    s, m0, gamma0, m1, m2, ell, radius, phsp="PhaseSpaceFactor", with_ff=True
):
    """m0 Gamma0 [F_L(s)] / (m0^2 - s - i m0 Gamma(s))."""
    width = energy_dependent_width(s, m0, gamma0, m1, m2, ell, radius, phsp)
    num = m0 * gamma0 * (form_factor(s, m1, m2, ell, radius) if with_ff else 1.0)
    return num / (m0 * m0 - s - 1j * m0 * width)


def vec(fn, xs, *args):
    """Apply a scalar reference function over a 1-d array (complex output)."""
    return np.array([complex(fn(float(x), *args)) for x in xs], dtype=complex)
