"""Reference four-vector kinematics in plain numpy (independent of ampform.kinematics):
event construction, rotations, boosts, helicity frames by boost-and-rotate.

Four-vectors are (E, px, py, pz); events are dicts {final-state id: array of shape (n, 4)}.
"""

from __future__ import annotations

import math

import numpy as np

from vp.util import irr


def minkowski_norm2(p):
    p = np.asarray(p, dtype=float)
    return p[..., 0] ** 2 - np.sum(p[..., 1:] ** 2, axis=-1)


def rot_z(a):
    c, s = math.cos(a), math.sin(a)
    M = np.eye(4)
    M[1, 1], M[1, 2], M[2, 1], M[2, 2] = c, -s, s, c
    return M


def rot_y(a):
    c, s = math.cos(a), math.sin(a)
    M = np.eye(4)
    M[1, 1], M[1, 3], M[3, 1], M[3, 3] = c, s, -s, c
    return M


def rot_x(a):
    c, s = math.cos(a), math.sin(a)
    M = np.eye(4)
    M[2, 2], M[2, 3], M[3, 2], M[3, 3] = c, -s, s, c
    return M


def boost_z(beta):
    g = 1.0 / math.sqrt(1.0 - beta * beta)
    M = np.eye(4)
    M[0, 0] = M[3, 3] = g
    M[0, 3] = M[3, 0] = -g * beta
    return M


def boost_to_rest(P):
    """Pure boost L with L @ P = (m, 0, 0, 0)."""
    P = np.asarray(P, dtype=float)
    E = P[0]
    b = P[1:] / E
    b2 = float(b @ b)
    M = np.eye(4)
    if b2 == 0.0:
        return M
    g = 1.0 / math.sqrt(1.0 - b2)
    M[0, 0] = g
    M[0, 1:] = M[1:, 0] = -g * b
    M[1:, 1:] += (g - 1.0) * np.outer(b, b) / b2
    return M


def boost_from_rest(P):
    P = np.asarray(P, dtype=float)
    Q = P.copy()
    Q[1:] = -Q[1:]
    return boost_to_rest(Q)


def phi_theta(p):
    p = np.asarray(p, dtype=float)
    return math.atan2(p[2], p[1]), math.acos(max(-1.0, min(1.0, p[3] / math.sqrt(float(p[1:] @ p[1:])))))


def two_body_momentum(M, ma, mb):
    lam = (M * M - (ma + mb) ** 2) * (M * M - (ma - mb) ** 2)
    return math.sqrt(max(lam, 0.0)) / (2.0 * M)


def cascade_event(M: float, masses: list[float], u: list[float]) -> dict[int, np.ndarray]:
    """One n-body event in the rest frame of M from 3n-4 numbers u in (0, 1).

    Sequential decay M -> 0 + X1, X1 -> 1 + X2, ...; the intermediate masses take a
    fraction of their allowed range, directions come from (cos theta, phi) pairs."""
    n = len(masses)
    it = iter(u)
    out: dict[int, np.ndarray] = {}
    parent_mass = M
    frame = np.eye(4)  # maps the current rest frame to the lab (rest frame of M)
    for i in range(n - 1):
        rest = sum(masses[i + 1:])
        if i < n - 2:
            lo, hi = rest, parent_mass - masses[i]
            mx = lo + (hi - lo) * next(it)
        else:
            mx = masses[n - 1]
        q = two_body_momentum(parent_mass, masses[i], mx)
        ct = -1.0 + 2.0 * next(it)
        ph = -math.pi + 2.0 * math.pi * next(it)
        st = math.sqrt(max(0.0, 1.0 - ct * ct))
        d = np.array([st * math.cos(ph), st * math.sin(ph), ct])
        pi = np.array([math.sqrt(masses[i] ** 2 + q * q), *(q * d)])
        px = np.array([math.sqrt(mx * mx + q * q), *(-q * d)])
        out[i] = frame @ pi
        px_lab = frame @ px
        if i == n - 2:
            out[n - 1] = px_lab
        else:
            frame = frame @ boost_from_rest(px)
            parent_mass = mx
    return out


def n_params(n: int) -> int:
    return 3 * n - 4 if n > 2 else 2


def lattice_events(M: float, masses: list[float], n_events: int, seed: int, salt: int = 0,
                   margin: float = 0.04) -> dict[int, np.ndarray]:
    """Deterministic rank-1 lattice of events (Kronecker sequence shifted by the seed),
    kept `margin` away from the edges of every parameter's range."""
    n = len(masses)
    k = 3 * (n - 1)
    alphas = [math.sqrt(p) % 1 for p in (2, 3, 5, 7, 11, 13, 17, 19, 23, 29, 31, 37, 41, 43)][:k]
    evs = []
    for j in range(n_events):
        u = [margin + (1 - 2 * margin) * (((j + 1) * a + irr(seed, salt + i)) % 1.0)
             for i, a in enumerate(alphas)]
        evs.append(cascade_event(M, masses, u))
    return {i: np.array([e[i] for e in evs]) for i in range(n)}


def rotate_event(event: dict[int, np.ndarray], R4: np.ndarray) -> dict[int, np.ndarray]:
    return {i: p @ R4.T for i, p in event.items()}


def shift_ids(event: dict[int, np.ndarray], shift: int) -> dict[int, np.ndarray]:
    return {i + shift: p for i, p in event.items()}


# --------------------------------------------------------------------------
# Helicity angles by boost-and-rotate, following the documented conventions
# (docstrings / doctests of compute_helicity_angles, get_helicity_angle_symbols and
# get_boost_chain_suffix): the angle pair of a node is *named* after the helicity-state
# child (the child with the smaller tuple of attached final-state ids) and *filled* with
# the direction of the child that decays further, or of the helicity-state child when
# both children are final; a decaying child's frame is reached with
# Bz(|p|/E) . Ry(-theta) . Rz(-phi) of its summed momentum.
def _attached(topology, edge_id):
    edge = topology.edges[edge_id]
    if edge.ending_node_id is None:
        return (edge_id,)
    out = ()
    for c in topology.get_edge_ids_outgoing_from_node(edge.ending_node_id):
        out += _attached(topology, c)
    return tuple(sorted(out))


def _suffix(topology, edge_id):
    chain = []
    cur = edge_id
    while True:
        chain.append("".join(map(str, _attached(topology, cur))))
        parent = next(iter(topology.get_edge_ids_ingoing_to_node(topology.edges[cur].originating_node_id)))
        if topology.edges[parent].originating_node_id is None:
            break
        cur = parent
    return "_" + chain[0] + ("^" + ",".join(chain[1:]) if len(chain) > 1 else "")


def helicity_bindings(topology, momenta: dict) -> list[tuple[str, float, dict]]:
    """All documented bindings (name, value, info) for ONE event {final id: 4-vector}.

    A name can be bound twice (node with two decaying children)."""
    out = []

    def rec(node, mom):
        kids = sorted(topology.get_edge_ids_outgoing_from_node(node), key=lambda e: _attached(topology, e))
        hel = kids[0]
        decaying = [k for k in kids if topology.edges[k].ending_node_id is not None]
        sfx = _suffix(topology, hel)
        if not decaying:
            phi, theta = phi_theta(mom[hel])
            info = {"node": node, "filled_with": hel, "two_decaying_children": False}
            out.append(("phi" + sfx, phi, info))
            out.append(("theta" + sfx, theta, info))
        for k in decaying:
            ids = _attached(topology, k)
            psum = sum(mom[i] for i in ids)
            phi, theta = phi_theta(psum)
            info = {"node": node, "filled_with": k, "two_decaying_children": len(decaying) == 2}
            out.append(("phi" + sfx, phi, info))
            out.append(("theta" + sfx, theta, info))
            beta = math.sqrt(float(psum[1:] @ psum[1:])) / psum[0]
            L = boost_z(beta) @ rot_y(-theta) @ rot_z(-phi)
            rec(topology.edges[k].ending_node_id, {i: L @ mom[i] for i in ids})

    root = next(iter(topology.incoming_edge_ids))
    rec(topology.edges[root].ending_node_id, dict(momenta))
    return out


def invariant_mass_bindings(topology, momenta: dict) -> dict[str, float]:
    out = {}
    for e in topology.edges:
        ids = _attached(topology, e)
        p = sum(momenta[i] for i in ids)
        m2 = float(minkowski_norm2(p))
        out["m_" + "".join(map(str, ids))] = math.sqrt(m2) if m2 >= 0 else complex(0, math.sqrt(-m2))
    return out
