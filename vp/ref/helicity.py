"""Reference helicity formula, evaluated on `reaction.transitions` alone.

Independent of `ampform.helicity`: own child ordering (helicity child = the one with the
smaller tuple of attached final-state ids), own symbol naming (documented suffix rule),
own Wigner-D / Clebsch-Gordan (`vp.ref.spin`), own enumeration of the distinct
permutations of identical final-state particles.
"""

from __future__ import annotations

import itertools
from fractions import Fraction

import numpy as np

from vp.ref.spin import F, clebsch_gordan, wigner_D


def attached(topology, edge_id) -> tuple[int, ...]:
    edge = topology.edges[edge_id]
    if edge.ending_node_id is None:
        return (edge_id,)
    out: tuple[int, ...] = ()
    for c in topology.get_edge_ids_outgoing_from_node(edge.ending_node_id):
        out += attached(topology, c)
    return tuple(sorted(out))


def suffix(topology, edge_id) -> str:
    """_<ids of edge>^<ids of parent>,<grandparent>,... (initial state omitted)."""
    chain = []
    cur = edge_id
    while True:
        chain.append("".join(map(str, attached(topology, cur))))
        origin = topology.edges[cur].originating_node_id
        parent = next(iter(topology.get_edge_ids_ingoing_to_node(origin)))
        if topology.edges[parent].originating_node_id is None:
            break
        cur = parent
    return "_" + chain[0] + ("^" + ",".join(chain[1:]) if len(chain) > 1 else "")


def mass_name(topology, edge_id) -> str:
    return "m_" + "".join(map(str, attached(topology, edge_id)))


def node_edges(topology, node_id) -> tuple[int, int, int]:
    """(parent, helicity child, opposite-helicity child)."""
    parent = next(iter(topology.get_edge_ids_ingoing_to_node(node_id)))
    kids = sorted(topology.get_edge_ids_outgoing_from_node(node_id), key=lambda e: attached(topology, e))
    return parent, kids[0], kids[1]


def outer_ids(topology) -> list[int]:
    return [*sorted(topology.incoming_edge_ids), *sorted(topology.outgoing_edge_ids)]


def outer_tuple(transition) -> tuple[Fraction, ...]:
    return tuple(F(transition.states[i].spin_projection) for i in outer_ids(transition.topology))


def node_factor(transition, node_id, angles: dict, canonical: bool):
    """conj D^J_{m, l1-l2}(phi, theta, 0) [x <L0;S d|J d> <s1 l1; s2 -l2|S d>]."""
    topo = transition.topology
    par, c1, c2 = node_edges(topo, node_id)
    J = F(transition.states[par].particle.spin)
    m = F(transition.states[par].spin_projection)
    l1 = F(transition.states[c1].spin_projection)
    l2 = F(transition.states[c2].spin_projection)
    sfx = suffix(topo, c1)
    phi, theta = angles["phi" + sfx], angles["theta" + sfx]
    val = np.conj(wigner_D(J, m, l1 - l2, phi, theta, 0.0))
    if canonical:
        inter = transition.interactions[node_id]
        L, S = F(inter.l_magnitude), F(inter.s_magnitude)
        s1 = F(transition.states[c1].particle.spin)
        s2 = F(transition.states[c2].particle.spin)
        val = val * clebsch_gordan(L, 0, S, l1 - l2, J, l1 - l2)
        val = val * clebsch_gordan(s1, l1, s2, -l2, S, l1 - l2)
    return val


def chain_value(transition, angles: dict, canonical: bool, lineshape=None):
    val = 1.0 + 0j
    for node in sorted(transition.topology.nodes):
        val = val * node_factor(transition, node, angles, canonical)
        if lineshape is not None:
            val = val * lineshape(transition, node)
    return val


def angle_names(topology) -> list[str]:
    names = []
    for node in sorted(topology.nodes):
        _, c1, _ = node_edges(topology, node)
        sfx = suffix(topology, c1)
        names += ["phi" + sfx, "theta" + sfx]
    return names


def permuted_graphs(transition):
    """Distinct images of a transition under exchange of identical final-state ids.

    Returns FrozenTransition-like objects (topology relabelled, states travelling with
    their position in the tree)."""
    from qrules.topology import FrozenTransition  # noqa: PLC0415

    topo = transition.topology
    final = sorted(topo.outgoing_edge_ids)
    groups: dict[str, list[int]] = {}
    for i in final:
        groups.setdefault(transition.states[i].particle.name, []).append(i)
    perms_per_group = [list(itertools.permutations(g)) for g in groups.values()]
    seen = set()
    out = []
    for combo in itertools.product(*perms_per_group):
        mapping = {}
        for g, p in zip(groups.values(), combo):
            mapping.update(dict(zip(g, p)))
        if all(k == v for k, v in mapping.items()):
            new_topo, new_states = topo, dict(transition.states)
        else:
            new_topo = topo.relabel_edges(mapping)
            new_states = {mapping.get(i, i): s for i, s in transition.states.items()}
        key = (new_topo, tuple(sorted((i, s.particle.name, float(s.spin_projection))
                                      for i, s in new_states.items())))
        if key in seen:
            continue
        seen.add(key)
        out.append(FrozenTransition(new_topo, new_states, dict(transition.interactions)))
    return out


def projection_pools(reaction) -> dict[int, list[Fraction]]:
    ids = outer_ids(reaction.transitions[0].topology)
    pools: dict[int, set] = {i: set() for i in ids}
    for t in reaction.transitions:
        for i in ids:
            pools[i].add(F(t.states[i].spin_projection))
    return {i: sorted(v) for i, v in pools.items()}
