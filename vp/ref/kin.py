"""Reference Lorentz algebra in plain numpy (no sympy, no ampform).

Conventions (fixed by the physics, not by the code under test)

* four-vectors are ``(E, px, py, pz)``, metric ``eta = diag(+1, -1, -1, -1)``;
* all matrices act on column four-vectors from the left and are batched:
  shape ``(n, 4, 4)`` for ``n`` events;
* ``boost(bg, n)`` is the *passive* pure boost into the rest frame of a particle that
  moves with ``beta*gamma = bg`` along the unit vector ``n``: it maps
  ``m*(gamma, bg*n)`` onto ``(m, 0, 0, 0)``;
* ``rot_y`` / ``rot_z`` are active right-handed rotations about the y / z axis
  (``rot_y(t)`` turns the z unit vector towards +x, ``rot_z(t)`` turns x towards +y).

Boosts are parametrised by ``beta*gamma`` and a direction (and not by a four-momentum)
so that the reference does not suffer from the cancellation in ``E**2 - |p|**2``.
"""

from __future__ import annotations

import numpy as np

ETA = np.diag([1.0, -1.0, -1.0, -1.0])


def gamma_of(bg):
    bg = np.asarray(bg, dtype=float)
    return np.sqrt(1.0 + bg * bg)


def momentum(m, bg, n):
    """Four-momenta ``(n, 4)`` of mass m, beta*gamma bg, unit directions n ``(n, 3)``."""
    m = np.asarray(m, dtype=float)
    bg = np.asarray(bg, dtype=float)
    n = np.asarray(n, dtype=float)
    out = np.empty((*n.shape[:-1], 4))
    out[..., 0] = m * gamma_of(bg)
    out[..., 1:] = (m * bg)[..., None] * n
    return out


def boost(bg, n):
    """Pure boost into the rest frame of (bg, n); shape ``(n, 4, 4)``."""
    bg = np.atleast_1d(np.asarray(bg, dtype=float))
    n = np.asarray(n, dtype=float).reshape(len(bg), 3)
    g = gamma_of(bg)
    gm1 = bg * bg / (g + 1.0)  # gamma - 1 without cancellation
    out = np.zeros((len(bg), 4, 4))
    out[:, 0, 0] = g
    out[:, 0, 1:] = -bg[:, None] * n
    out[:, 1:, 0] = -bg[:, None] * n
    out[:, 1:, 1:] = np.eye(3)[None] + gm1[:, None, None] * n[:, :, None] * n[:, None, :]
    return out


def boost_z(beta):
    """Boost along z with signed velocity beta (maps a particle moving with +beta to rest)."""
    beta = np.atleast_1d(np.asarray(beta, dtype=float))
    g = 1.0 / np.sqrt((1.0 - beta) * (1.0 + beta))
    out = np.zeros((len(beta), 4, 4))
    out[:, 0, 0] = g
    out[:, 3, 3] = g
    out[:, 0, 3] = -g * beta
    out[:, 3, 0] = -g * beta
    out[:, 1, 1] = 1.0
    out[:, 2, 2] = 1.0
    return out


def _rotation(angle, axis):
    """Active right-handed rotation about a coordinate axis (Rodrigues formula)."""
    angle = np.atleast_1d(np.asarray(angle, dtype=float))
    k = np.zeros(3)
    k[axis] = 1.0
    cross = np.array([[0.0, -k[2], k[1]], [k[2], 0.0, -k[0]], [-k[1], k[0], 0.0]])
    c = np.cos(angle)[:, None, None]
    s = np.sin(angle)[:, None, None]
    r3 = c * np.eye(3)[None] + s * cross[None] + (1.0 - c) * np.outer(k, k)[None]
    out = np.zeros((len(angle), 4, 4))
    out[:, 0, 0] = 1.0
    out[:, 1:, 1:] = r3
    return out


def rot_y(angle):
    return _rotation(angle, 1)


def rot_z(angle):
    return _rotation(angle, 2)


def metric(n_events):
    return np.broadcast_to(ETA, (n_events, 4, 4)).copy()


def matmul(*mats):
    out = mats[0]
    for m in mats[1:]:
        out = np.einsum("nij,njk->nik", out, m)
    return out


def apply(mat, vec):
    return np.einsum("nij,nj->ni", mat, vec)


def lorentz_defect(mat):
    """max |L^T eta L - eta| per event."""
    lhs = np.einsum("nji,jk,nkl->nil", mat, ETA, mat)
    return np.abs(lhs - ETA[None]).max(axis=(1, 2))
