"""Numpy reference for the K-matrix checks (C09, C10).

Written from the formulas of the documentation (Chung, Ann. Phys. 4 (1995) 404 and the
PDG "Resonances" review as quoted in docs/usage/dynamics/k-matrix.ipynb), *not* from
the library's sympy expressions:

* break-up momentum squared  q^2(s) = (s-(m1+m2)^2)(s-(m1-m2)^2)/(4s)
* phase-space factor variants (all equal 2q/sqrt(s) above threshold except the
  Chew-Mandelstam based ones)
* normalised Blatt-Weisskopf factor B_L^2(z) = |h_L(1)|^2 / (z |h_L(sqrt z)|^2) through
  scipy's spherical Bessel functions (valid for z > 0; the closed rational forms for
  L <= 4 are used for z <= 0, where the Hankel form is not an analytic continuation)
* energy-dependent width  Gamma(s) = Gamma0 (F(s)/F(m0^2))^2 rho(s)/rho(m0^2)
* pole parametrisation K_ij = sum_R g_Ri g_Rj/(m_R^2-s),  g_Ri = gamma_Ri sqrt(m_R Gamma_Ri)
* T = K (1-iK)^-1,  T^ = K^ (1 - i rho K^)^-1,  T = sqrt(rho)^* T^ sqrt(rho)
* F = (1-iK)^-1 P,  F^ = (1 - i K^ rho)^-1 P^,  F = sqrt(rho) F^

Everything works on plain Python/numpy complex numbers.
"""

from __future__ import annotations

import cmath
import math

import numpy as np


# ------------------------------------------------------------------ kinematics
def q_squared(s, m1, m2):
    return (s - (m1 + m2) ** 2) * (s - (m1 - m2) ** 2) / (4 * s)


def _csqrt(x):
    """sqrt with +i sqrt(-x) for negative real x (``ComplexSqrt``)."""
    x = complex(x)
    if x.imag == 0 and x.real < 0:
        return 1j * math.sqrt(-x.real)
    return cmath.sqrt(x)


def chew_mandelstam_s_wave(s, m1, m2):
    q = _csqrt(q_squared(s, m1, m2))
    left = 2 * q / cmath.sqrt(s) * cmath.log(
        (m1**2 + m2**2 - s + 2 * cmath.sqrt(s) * q) / (2 * m1 * m2)
    )
    right = (m1**2 - m2**2) * (1 / s - 1 / (m1 + m2) ** 2) * math.log(m1 / m2)
    return (left - right) / math.pi


def rho_standard(s, m1, m2):
    return 2 * cmath.sqrt(q_squared(s, m1, m2)) / cmath.sqrt(s)


def rho_abs(s, m1, m2):
    return 2 * cmath.sqrt(abs(q_squared(s, m1, m2))) / cmath.sqrt(s)


def rho_complex(s, m1, m2):
    return 2 * _csqrt(q_squared(s, m1, m2)) / cmath.sqrt(s)


def rho_swave(s, m1, m2):
    return -1j * chew_mandelstam_s_wave(s, m1, m2)


def rho_equal_mass(s, m1, m2):
    s = complex(s)
    rho = rho_abs(s, m1, m2)
    if s.imag == 0 and s.real < 0:
        return 1j * rho / math.pi * cmath.log(abs((1 + rho) / (1 - rho)))
    if s.imag == 0 and s.real > (m1 + m2) ** 2:
        return rho + 1j * rho / math.pi * cmath.log(abs((1 + rho) / (1 - rho)))
    return 2j * rho / math.pi * cmath.atan(1 / rho)


PHSP = {
    "PhaseSpaceFactor": rho_standard,
    "PhaseSpaceFactorAbs": rho_abs,
    "PhaseSpaceFactorComplex": rho_complex,
    "PhaseSpaceFactorSWave": rho_swave,
    "EqualMassPhaseSpaceFactor": rho_equal_mass,
    "BreakupMomentumSquared": q_squared,
    "chew_mandelstam_s_wave": chew_mandelstam_s_wave,
}


# --------------------------------------------------------------- form factors
def _hankel1_abs2(ell: int, x: float) -> float:
    from scipy.special import spherical_jn, spherical_yn  # noqa: PLC0415

    return float(spherical_jn(ell, x) ** 2 + spherical_yn(ell, x) ** 2)


# closed forms z^L x_L(1) / x_L(z) (von Hippel & Quigg), used only for z <= 0 / complex z
_BW_POLY = {
    0: lambda z: 1.0,
    1: lambda z: 2 * z / (z + 1),
    2: lambda z: 13 * z**2 / (z**2 + 3 * z + 9),
    3: lambda z: 277 * z**3 / (z**3 + 6 * z**2 + 45 * z + 225),
    4: lambda z: 12746 * z**4 / (z**4 + 10 * z**3 + 135 * z**2 + 1575 * z + 11025),
}


def blatt_weisskopf_squared(z, ell: int):
    """Normalised B_L^2(z), B_L^2(1) = 1."""
    z = complex(z)
    if ell == 0:
        return 1.0 + 0j
    if z.imag == 0 and z.real > 0:
        x = math.sqrt(z.real)
        return complex(_hankel1_abs2(ell, 1.0) / (_hankel1_abs2(ell, x) * z.real))
    return complex(_BW_POLY[ell](z))


def form_factor(s, m1, m2, ell: int, radius):
    return cmath.sqrt(blatt_weisskopf_squared(q_squared(s, m1, m2) * radius**2, ell))


def energy_dependent_width(s, m0, gamma0, m1, m2, ell, radius, rho=rho_standard):  # noqa: PLR0917
    ff2 = blatt_weisskopf_squared(q_squared(s, m1, m2) * radius**2, ell)
    ff2_0 = blatt_weisskopf_squared(q_squared(m0**2, m1, m2) * radius**2, ell)
    return gamma0 * (ff2 / ff2_0) * rho(s, m1, m2) / rho(m0**2, m1, m2)


# ----------------------------------------------------------- parametrisations
def k_nonrel(s, par: dict) -> np.ndarray:
    """K_ij = sum_R g_Ri g_Rj / (m_R^2 - s), g_Ri = gamma_Ri sqrt(m_R Gamma_Ri)."""
    nc, npole = par["n_channels"], par["n_poles"]
    K = np.zeros((nc, nc), complex)
    for r in range(npole):
        m = par["m"][r]
        g = [par["gamma"][r][i] * cmath.sqrt(m * par["Gamma"][r][i]) for i in range(nc)]
        for i in range(nc):
            for j in range(nc):
                K[i, j] += g[i] * g[j] / (m**2 - s)
    return K


def k_rel(s, par: dict, ell: int, radius, rho=rho_standard) -> np.ndarray:
    """Same with Gamma_Ri -> Gamma_Ri(s)."""
    nc, npole = par["n_channels"], par["n_poles"]
    K = np.zeros((nc, nc), complex)
    for r in range(npole):
        m = par["m"][r]
        g = []
        for i in range(nc):
            width = energy_dependent_width(
                s, m, par["Gamma"][r][i], par["m_a"][i], par["m_b"][i], ell, radius, rho
            )
            g.append(par["gamma"][r][i] * cmath.sqrt(m * width))
        for i in range(nc):
            for j in range(nc):
                K[i, j] += g[i] * g[j] / (m**2 - s)
    return K


def p_nonrel(s, par: dict) -> np.ndarray:
    nc, npole = par["n_channels"], par["n_poles"]
    P = np.zeros(nc, complex)
    for r in range(npole):
        m = par["m"][r]
        for i in range(nc):
            P[i] += par["beta"][r] * par["gamma"][r][i] * m * par["Gamma"][r][i] / (m**2 - s)
    return P


def p_rel(s, par: dict, ell: int, radius) -> np.ndarray:
    nc, npole = par["n_channels"], par["n_poles"]
    P = np.zeros(nc, complex)
    for r in range(npole):
        m = par["m"][r]
        for i in range(nc):
            ff = form_factor(s, par["m_a"][i], par["m_b"][i], ell, radius)
            P[i] += (
                par["beta"][r] * par["gamma"][r][i] * m * par["Gamma"][r][i] * ff / (m**2 - s)
            )
    return P


def rho_matrix(s, par: dict, rho=rho_standard) -> np.ndarray:
    nc = par["n_channels"]
    return np.diag([complex(rho(s, par["m_a"][i], par["m_b"][i])) for i in range(nc)])


# ------------------------------------------------------------------- algebra
def t_nonrel(K: np.ndarray) -> np.ndarray:
    n = len(K)
    return K @ np.linalg.inv(np.eye(n) - 1j * K)


def t_hat_rel(K: np.ndarray, rho: np.ndarray) -> np.ndarray:
    n = len(K)
    return K @ np.linalg.inv(np.eye(n) - 1j * rho @ K)


def t_rel(K: np.ndarray, rho: np.ndarray) -> np.ndarray:
    sq = np.sqrt(rho.astype(complex))
    return sq.conj() @ t_hat_rel(K, rho) @ sq


def cond_nonrel(K: np.ndarray) -> float:
    return float(np.linalg.cond(np.eye(len(K)) - 1j * K))


def cond_rel(K: np.ndarray, rho: np.ndarray) -> float:
    return float(np.linalg.cond(np.eye(len(K)) - 1j * rho @ K))


def unitarity_defect(T: np.ndarray) -> float:
    n = len(T)
    S = np.eye(n) + 2j * T
    return float(np.abs(S.conj().T @ S - np.eye(n)).max())


def symmetry_defect(T: np.ndarray) -> float:
    return float(np.abs(T - T.T).max())


def breit_wigner(s, m0, gamma0):
    return gamma0 * m0 / (m0**2 - s - 1j * gamma0 * m0)


def breit_wigner_with_ff(s, m0, gamma0, m1, m2, ell, radius, rho=rho_standard):  # noqa: PLR0917
    width = energy_dependent_width(s, m0, gamma0, m1, m2, ell, radius, rho)
    return m0 * gamma0 * form_factor(s, m1, m2, ell, radius) / (m0**2 - s - 1j * width * m0)


# =====================================================================================
# Deterministic parameter lattice shared by C09 / C10 (no randomness; `seed` only shifts
# the numeric points through vp.util.irr)
# =====================================================================================
_CHANNELS = [(0.14, 0.14), (0.50, 0.45), (0.30, 0.60)]
_POLES = [1.30, 1.75, 2.10, 2.45]
MASS_SETS = ("generic", "degenerate", "heavy-above", "heavy-below")
COUPLING_SETS = ("generic", "zero-residue", "shifted", "strong")


def mass_set(kind: str, nc: int, npole: int, seed: int) -> dict | None:
    """Pole and channel masses. Returns None when the kind does not exist for the shape."""
    from vp.util import irr  # noqa: PLC0415

    m = [_POLES[r] + 0.04 * irr(seed, 10 + r) for r in range(npole)]
    m_a = [_CHANNELS[i][0] + 0.02 * irr(seed, 20 + i) for i in range(nc)]
    m_b = [_CHANNELS[i][1] + 0.02 * irr(seed, 30 + i) for i in range(nc)]
    if kind == "generic":
        pass
    elif kind == "degenerate":  # two *equal* pole masses
        if npole < 2:
            return None
        m[1] = m[0]
    elif kind == "heavy-above":  # last channel heavy, every pole above its threshold
        m_a[-1], m_b[-1] = 0.62 + 0.01 * irr(seed, 41), 0.58 + 0.01 * irr(seed, 42)
    elif kind == "heavy-below":  # first pole lies below the threshold of the last channel
        m_a[-1], m_b[-1] = 0.80 + 0.01 * irr(seed, 43), 0.72 + 0.01 * irr(seed, 44)
    else:
        raise ValueError(kind)
    return {"n_channels": nc, "n_poles": npole, "m": m, "m_a": m_a, "m_b": m_b,
            "mass_set": kind}


def coupling_set(kind: str, nc: int, npole: int, seed: int) -> dict:
    """Widths (positive), residue constants (any sign, one exactly zero) and betas."""
    from vp.util import irr  # noqa: PLC0415

    gam = [[0.12 + 0.07 * r + 0.05 * i for i in range(nc)] for r in range(npole)]
    res = [[(0.55 + 0.13 * i - 0.08 * r) * (-1 if (r + i) % 3 == 2 else 1)
            for i in range(nc)] for r in range(npole)]
    beta = [1.0 - 0.3 * r for r in range(npole)]
    if kind == "generic":
        pass
    elif kind == "zero-residue":  # pole 1 decoupled from the last channel
        res[0][nc - 1] = 0.0
    elif kind == "shifted":
        gam = [[g + 0.2 * irr(seed, 50 + 4 * r + i) for i, g in enumerate(row)]
               for r, row in enumerate(gam)]
        res = [[g * (0.5 + irr(seed, 70 + 4 * r + i)) for i, g in enumerate(row)]
               for r, row in enumerate(res)]
        beta = [b + 0.5 * irr(seed, 90 + r) for r, b in enumerate(beta)]
    elif kind == "strong":  # broad, strongly overlapping poles
        gam = [[0.9 + 0.3 * i + 0.2 * r for i in range(nc)] for r in range(npole)]
        res = [[1.3 - 0.2 * i for i in range(nc)] for r in range(npole)]
    else:
        raise ValueError(kind)
    return {"Gamma": gam, "gamma": res, "beta": beta, "coupling_set": kind}


def pole_below_threshold(par: dict) -> bool:
    """Witness predicate: some pole couples (gamma*Gamma != 0) to a channel whose threshold
    lies above the pole mass."""
    for r in range(par["n_poles"]):
        for i in range(par["n_channels"]):
            if (par["m"][r] < par["m_a"][i] + par["m_b"][i]
                    and par["gamma"][r][i] != 0 and par["Gamma"][r][i] != 0):
                return True
    return False


def s_lattice(par: dict, seed: int, n: int = 12, threshold: float | None = None) -> list[float]:
    """n points above the highest threshold, each >= 5 % away from every pole m_R^2."""
    from vp.util import irr  # noqa: PLC0415

    if threshold is None:
        threshold = max((a + b) ** 2 for a, b in zip(par["m_a"], par["m_b"]))
    top = max(par["m"]) ** 2
    pts = [threshold * (1.01 + 0.01 * irr(seed, 1)), threshold * (1.10 + 0.05 * irr(seed, 2))]
    inner = n - 4
    lo, hi = threshold * 1.2, max(1.3 * top, threshold * 2.0)
    for k in range(inner):
        pts.append(lo + (hi - lo) * (k + irr(seed, 3 + k)) / inner)
    pts += [2.0 * max(top, threshold) * (1 + 0.1 * irr(seed, 100)),
            25.0 * max(top, threshold) * (1 + 0.1 * irr(seed, 101))]
    out = []
    for s in pts:
        for _ in range(200):
            if all(abs(s - m * m) >= 0.05 * m * m for m in par["m"]):
                break
            s *= 1.013
        else:  # pragma: no cover - cannot happen with <= 4 poles
            raise ValueError("no admissible lattice point")
        out.append(float(s))
    return out


# =====================================================================================
# Library-side evaluation helpers (operate on the sympy objects returned by ampform)
# =====================================================================================
def expand_pole_sums(obj):
    """Instantiate ``Sum(..., (R, 1, n_poles))`` without evaluating anything else.

    (Same operation as ``symplot.partial_doit(expr, sp.Sum)`` in the documentation.)
    """
    import sympy as sp  # noqa: PLC0415

    return obj.replace(lambda e: isinstance(e, sp.Sum), lambda e: e.doit(deep=False))


_COUPLINGS = ("Gamma", "gamma", "beta")


def _indexed_value(atom, par):
    try:
        return _indexed_value_unchecked(atom, par)
    except IndexError:
        msg = f"indexed symbol {atom} lies outside the configured numbers of poles / channels"
        raise LeftoverSymbols(msg) from None


def _indexed_value_unchecked(atom, par):
    name = atom.base.name if hasattr(atom.base, "name") else str(atom.base)
    idx = [int(i) for i in atom.indices]
    if name == "m":
        return par["m"][idx[0] - 1]
    if name == "Gamma":
        return par["Gamma"][idx[0] - 1][idx[1]]
    if name == "gamma":
        return par["gamma"][idx[0] - 1][idx[1]]
    if name == "beta":
        return par["beta"][idx[0] - 1]
    if name == "m_a":
        return par["m_a"][idx[0]]
    if name == "m_b":
        return par["m_b"][idx[0]]
    msg = f"unexpected indexed symbol {atom}"
    raise KeyError(msg)


class LeftoverSymbols(Exception):
    """The formulated expression contains symbols besides s and the documented parameters."""


class NumericS:
    """``s -> numpy array`` for a library expression/matrix at a numeric parameter point.

    The masses (and the meson radius, if symbolic) are substituted *before* ``doit()``
    (unfolding with symbolic masses takes minutes); with ``symbolic_couplings`` the
    widths, residue constants and betas stay symbolic through ``doit()`` and become
    arguments of the lambdified function, so several coupling points share one
    unfolding.
    """

    def __init__(self, obj, par: dict, extra: dict | None = None,
                 symbolic_couplings: bool = True) -> None:
        import sympy as sp  # noqa: PLC0415

        obj = expand_pole_sums(obj)
        rule = dict(extra or {})
        keep = []
        for atom in obj.atoms(sp.Indexed):
            name = atom.base.name if hasattr(atom.base, "name") else str(atom.base)
            if symbolic_couplings and name in _COUPLINGS:
                keep.append(atom)
                continue
            rule[atom] = sp.Float(_indexed_value(atom, par))
        unfolded = obj.xreplace(rule).doit()
        keep = sorted((a for a in keep if unfolded.has(a)), key=str)
        # plain, safely named symbols: lambdify re-walks the whole tree per Dummy argument
        dummies = {a: sp.Symbol(f"cpl{n}_") for n, a in enumerate(keep)}
        s = sp.Symbol("s", nonnegative=True)
        unfolded = unfolded.xreplace(dummies)
        free = unfolded.free_symbols - {s} - set(dummies.values())
        if free:
            msg = f"symbols left after substitution: {sorted(map(str, free))}"
            raise LeftoverSymbols(msg)
        self.unfolded = unfolded
        self._keep = keep
        self._fn = sp.lambdify([s, *[dummies[a] for a in keep]], unfolded, "numpy")
        self._shape = getattr(obj, "shape", None)

    def __call__(self, s: float, par: dict) -> np.ndarray:
        args = [_indexed_value(a, par) for a in self._keep]
        with np.errstate(all="ignore"):
            val = self._fn(complex(s), *args)
        arr = np.array(val, dtype=complex)
        if self._shape is not None:
            arr = arr.reshape(self._shape)
        return arr
