"""Plain-dict reference models (nothing here imports ampform).

* `SelectorModel` - what `DynamicsSelector` is documented to do: a map from decay keys
  to builder tags; selections by parent-particle name, by particle, by one decay.
* `decay_key` / `enumerate_nodes` - own description of the nodes of a reaction (incl. the
  images under exchange of identical final-state particles) and of the variables each
  node owns (C13's statement), built on `vp.ref.helicity`.
* `RenameModel` - composition of name maps and the role bookkeeping of C17.
* `natural_key*` - two readings of "natural sort order".
"""

from __future__ import annotations

import re
from fractions import Fraction

from vp.ref import helicity as H


# ------------------------------------------------------------------ C13: decays
def _state_key(state, edge_id):
    return (int(edge_id), state.particle.name, float(state.spin_projection))


def _interaction_key(inter):
    def f(x):
        return None if x is None else float(x)

    return (f(getattr(inter, "l_magnitude", None)), f(getattr(inter, "l_projection", None)),
            f(getattr(inter, "s_magnitude", None)), f(getattr(inter, "s_projection", None)),
            f(getattr(inter, "parity_prefactor", None)))


def decay_key(transition, node_id):
    """Own identity of 'one specific decay': the decaying state, the unordered pair of
    daughter states (each with its edge id) and the interaction of the node."""
    topo = transition.topology
    par, c1, c2 = H.node_edges(topo, node_id)
    kids = tuple(sorted((_state_key(transition.states[c], c) for c in (c1, c2))))
    return (_state_key(transition.states[par], par), kids,
            _interaction_key(transition.interactions[node_id]))


def lib_decay_key(decay):
    """The same identity read off a library TwoBodyDecay (attribute access only)."""
    kids = tuple(sorted((int(c.id), c.particle.name, float(c.spin_projection)) for c in decay.children))
    p = decay.parent
    return ((int(p.id), p.particle.name, float(p.spin_projection)), kids,
            _interaction_key(decay.interaction))


def node_variables(transition, node_id) -> dict:
    """The variables a node owns according to C13's statement."""
    topo = transition.topology
    par, c1, c2 = H.node_edges(topo, node_id)
    inter = transition.interactions[node_id]
    L = getattr(inter, "l_magnitude", None)
    particle = transition.states[par].particle
    if L is None:
        # documented fallback: the spin of the decaying particle if it is an integer
        spin = Fraction(particle.spin).limit_denominator(2)
        L = int(spin) if spin.denominator == 1 else None
    else:
        L = int(L)
    sfx = H.suffix(topo, c1)
    return {
        "m_in": H.mass_name(topo, par),
        "m1": H.mass_name(topo, c1),
        "m2": H.mass_name(topo, c2),
        "L": L,
        "phi": "phi" + sfx,
        "theta": "theta" + sfx,
    }


def enumerate_nodes(reaction):
    """[{ti, gi, node, key, parent_name, particle, vars, image}] for every transition,
    every symmetrisation image of it and every node; plus the images per transition."""
    out = []
    images = {}
    for ti, t in enumerate(reaction.transitions):
        graphs = H.permuted_graphs(t)
        images[ti] = graphs
        for gi, g in enumerate(graphs):
            for node in sorted(g.topology.nodes):
                par, _, _ = H.node_edges(g.topology, node)
                out.append({
                    "ti": ti, "gi": gi, "node": node,
                    "key": decay_key(g, node),
                    "parent_name": g.states[par].particle.name,
                    "particle": g.states[par].particle,
                    "vars": node_variables(g, node),
                })
    return out, images


class SelectorModel:
    """decay key -> builder tag; every decay starts with the tag "none"."""

    def __init__(self, nodes, default="none"):
        self.parent = {}
        self.map = {}
        for n in nodes:
            self.parent[n["key"]] = n["parent_name"]
            self.map[n["key"]] = default

    def copy(self):
        new = SelectorModel([])
        new.parent = self.parent
        new.map = dict(self.map)
        return new

    def assign_name(self, name, tag) -> bool:
        """True if some decay has a decaying particle of that name."""
        found = False
        for key, parent in self.parent.items():
            if parent == name:
                self.map[key] = tag
                found = True
        return found

    def assign_key(self, key, tag) -> None:
        self.map[key] = tag

    def canon(self):
        return tuple(self.map[k] for k in self.parent)


# ------------------------------------------------------------------ C17: renames
def compose(current: dict, renames: dict) -> dict:
    """original name -> name after one more rename (`current` maps original -> now)."""
    return {orig: renames.get(now, now) for orig, now in current.items()}


class RenameModel:
    """Bookkeeping of names and roles under a sequence of rename maps.

    roles: original name -> "par" | "kin" | "both"(never generated)."""

    def __init__(self, roles: dict, assumptions: dict):
        self.roles = dict(roles)
        self.assumptions = dict(assumptions)  # original name -> hashable assumptions

    def identity(self) -> dict:
        return {n: n for n in self.roles}

    def well_defined(self, current: dict, renames: dict) -> bool:
        """False if the composed map would put two definitions (two kinematic variables,
        or a kinematic variable and a parameter) under one name."""
        new = compose(current, renames)
        by_image: dict[str, list[str]] = {}
        for orig, img in new.items():
            by_image.setdefault(img, []).append(orig)
        for origs in by_image.values():
            if len(origs) < 2:
                continue
            if any(self.roles[o] != "par" for o in origs):
                return False
        return True

    def split(self, current: dict) -> bool:
        """Two parameters with DIFFERENT assumptions share a name: they stay two distinct
        symbols (assumptions are preserved), are not coupled, and a later rename of that
        name must move both."""
        by_image: dict[str, set] = {}
        for orig, img in current.items():
            by_image.setdefault(img, set()).add(self.assumptions[orig])
        return any(len(v) > 1 for v in by_image.values())

    def canon(self, current: dict):
        return tuple(sorted((o, n) for o, n in current.items() if o != n))


_NUM_CLASSIC = re.compile(r"([0-9]+)")
_NUM_SIGNED = re.compile(r"[+-]?([0-9]+(?:[.][0-9]*)?|[.][0-9]+)")


def natural_key_classic(text: str):
    """Digit runs compare as integers, the rest as text."""
    parts = _NUM_CLASSIC.split(text)
    return [int(p) if i % 2 else p for i, p in enumerate(parts)]


def natural_key_signed(text: str):
    """Reading of the recipe the documentation cites: decimal numbers compare by value
    and a sign directly in front of a number is not part of the text."""
    parts = _NUM_SIGNED.split(text)
    return [float(p) if i % 2 else p for i, p in enumerate(parts)]


def out_of_natural_order(names: list[str]) -> list[tuple[str, str]]:
    """Consecutive pairs that are in the wrong order under *every* reading."""
    bad = []
    for a, b in zip(names, names[1:]):
        if natural_key_classic(a) > natural_key_classic(b) and natural_key_signed(a) > natural_key_signed(b):
            bad.append((a, b))
    return bad
