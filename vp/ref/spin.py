"""Reference angular-momentum algebra, independent of sympy.physics.quantum.

* Wigner small-d by Wigner's factorial sum,
* D^j_{m m'}(a, b, g) = exp(-i m a) d^j_{m m'}(b) exp(-i m' g)   (sympy / Edmonds-free
  "z-y-z active" convention used by sympy.physics.quantum.spin.Rotation.D),
* Clebsch-Gordan coefficients by Racah's formula.

`self_test()` cross-checks all of them against SymPy for j <= 3 (run by C02's first case).
"""

from __future__ import annotations

import math
from fractions import Fraction
from functools import lru_cache

import numpy as np


def F(x) -> Fraction:
    if isinstance(x, Fraction):
        return x
    if isinstance(x, float):
        return Fraction(x).limit_denominator(2)
    try:
        return Fraction(x)
    except TypeError:
        return Fraction(str(x))


def _f(x) -> int:
    x = Fraction(x)
    if x.denominator != 1 or x < 0:
        msg = f"factorial of {x}"
        raise ValueError(msg)
    return math.factorial(int(x))


@lru_cache(maxsize=None)
def _d_terms(j: Fraction, m: Fraction, mp: Fraction):
    """Coefficients c_k and exponents (cos, sin) of d^j_{m mp}(beta)."""
    pref = math.sqrt(_f(j + m) * _f(j - m) * _f(j + mp) * _f(j - mp))
    terms = []
    k_min = max(0, int(mp - m))
    k_max = min(int(j + mp), int(j - m))
    for k in range(k_min, k_max + 1):
        sign = (-1) ** (int(m - mp) + k)
        den = _f(j + mp - k) * _f(k) * _f(m - mp + k) * _f(j - m - k)
        terms.append((pref * sign / den, int(2 * j + mp - m - 2 * k), int(m - mp + 2 * k)))
    return tuple(terms)


def wigner_d(j, m, mp, beta):
    j, m, mp = F(j), F(m), F(mp)
    if abs(m) > j or abs(mp) > j or (j - m).denominator != 1 or (j - mp).denominator != 1:
        return np.zeros_like(np.asarray(beta, dtype=float))
    beta = np.asarray(beta, dtype=float)
    c, s = np.cos(beta / 2), np.sin(beta / 2)
    tot = np.zeros_like(beta)
    for coeff, pc, ps in _d_terms(j, m, mp):
        tot = tot + coeff * c**pc * s**ps
    return tot


def wigner_D(j, m, mp, alpha, beta, gamma):  # noqa: N802
    m_, mp_ = float(F(m)), float(F(mp))
    alpha = np.asarray(alpha, dtype=float)
    gamma = np.asarray(gamma, dtype=float)
    return np.exp(-1j * m_ * alpha) * wigner_d(j, m, mp, beta) * np.exp(-1j * mp_ * gamma)


@lru_cache(maxsize=None)
def _cg(j1: Fraction, m1: Fraction, j2: Fraction, m2: Fraction, j: Fraction, m: Fraction) -> float:
    if m1 + m2 != m or j < abs(j1 - j2) or j > j1 + j2:
        return 0.0
    if abs(m1) > j1 or abs(m2) > j2 or abs(m) > j:
        return 0.0
    for a, b in ((j1, m1), (j2, m2), (j, m)):
        if (a - b).denominator != 1:
            return 0.0
    if (j1 + j2 + j).denominator != 1:
        return 0.0
    pre = math.sqrt(
        (2 * j + 1) * _f(j + j1 - j2) * _f(j - j1 + j2) * _f(j1 + j2 - j) / _f(j1 + j2 + j + 1)
    )
    pre *= math.sqrt(_f(j + m) * _f(j - m) * _f(j1 - m1) * _f(j1 + m1) * _f(j2 - m2) * _f(j2 + m2))
    tot = 0.0
    for k in range(0, int(j1 + j2 + j) + 2):
        parts = [k, j1 + j2 - j - k, j1 - m1 - k, j2 + m2 - k, j - j2 + m1 + k, j - j1 - m2 + k]
        if any(x < 0 for x in parts):
            continue
        tot += (-1) ** k / math.prod(_f(x) for x in parts)
    return pre * tot


def clebsch_gordan(j1, m1, j2, m2, j, m) -> float:
    """<j1 m1; j2 m2 | j m>"""
    return _cg(F(j1), F(m1), F(j2), F(m2), F(j), F(m))


def spin_range(s) -> list[Fraction]:
    s = F(s)
    return [-s + k for k in range(int(2 * s) + 1)]


def self_test(j_max: int = 3) -> int:
    """Cross-check against SymPy; returns the number of comparisons; raises on mismatch."""
    import sympy as sp  # noqa: PLC0415
    from sympy.physics.quantum.cg import CG  # noqa: PLC0415
    from sympy.physics.quantum.spin import Rotation  # noqa: PLC0415

    n = 0
    for j2 in range(0, 2 * j_max + 1):
        j = sp.Rational(j2, 2)
        ms = [j - k for k in range(j2 + 1)]
        for m in ms:
            for mp in ms:
                a, b, g = 0.3, 1.1, -0.7
                ref = complex(Rotation.D(j, m, mp, a, b, g).doit().evalf())
                mine = complex(wigner_D(Fraction(int(2 * j), 2), Fraction(int(2 * m), 2),
                                        Fraction(int(2 * mp), 2), a, b, g))
                n += 1
                if abs(ref - mine) > 1e-11:
                    msg = f"Wigner D mismatch {j} {m} {mp}: {ref} {mine}"
                    raise AssertionError(msg)
    for a2 in range(0, 5):
        for b2 in range(0, 5):
            j1, j2_ = sp.Rational(a2, 2), sp.Rational(b2, 2)
            jj = abs(j1 - j2_)
            while jj <= j1 + j2_:
                for m1 in [j1 - k for k in range(a2 + 1)]:
                    for m2 in [j2_ - k for k in range(b2 + 1)]:
                        if abs(m1 + m2) > jj:
                            continue
                        ref = float(CG(j1, m1, j2_, m2, jj, m1 + m2).doit())
                        mine = clebsch_gordan(F(str(j1)), F(str(m1)), F(str(j2_)), F(str(m2)),
                                              F(str(jj)), F(str(m1 + m2)))
                        n += 1
                        if abs(ref - mine) > 1e-11:
                            msg = f"CG mismatch {j1} {m1} {j2_} {m2} {jj}: {ref} {mine}"
                            raise AssertionError(msg)
                jj += 1
    return n
