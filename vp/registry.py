"""Introspection of the ampform package for C14 / C15.

* ``walk_classes()``      every ``sympy.Basic`` subclass *defined* in ampform, found by
  walking the package (classes added later are picked up automatically);
* ``info(qual)``          which of them are ``@unevaluated`` (dataclass fields with a
  ``sympify`` flag), which have a printable folded form, the sort of every field;
* descriptors             JSON-able descriptions of argument shapes; ``build(desc)``
  turns one into a real library object; ``shapes_for(qual, tier)`` enumerates the
  bounded shape space of a class, ``instance_descriptors(tier)`` the whole pool;
* ``canon(obj)``          structural key of an object that does *not* rely on the
  library's ``__eq__``/``__hash__`` (class, arguments, non-SymPy attributes);
* numeric helpers         deterministic lattices, evaluation by exact rationals +
  ``evalf`` or by ``lambdify`` on concrete arrays of shape (n, 4).

Descriptor grammar (lists, JSON-able)::

    ["sym", name, {assumptions}]      sympy.Symbol
    ["bound", name, {assumptions}]    Symbol used as a bound variable (never substituted)
    ["arr", name]                     ArraySymbol(name, shape=[])  (four-momenta, vectors)
    ["arrs", name, [3, 4]]            ArraySymbol with an explicit shape
    ["num", "p/q"] / ["int", n]       Rational / Integer
    ["cmp", kind, [d1, d2, ...]]      compound expression (see _COMPOUND)
    ["inst", qual, {field: d}]        instance of an @unevaluated class (keyword call)
    ["new", qual, [d1, d2, ...]]      instance of a helper class (positional call)
    ["tuple", [d...]], ["slice", a, b, c], ["pyint", n], ["pyfloat", x], ["pynone"]   python-level values
    ["none"], ["str", s], ["obj", module, qualname]                   non-SymPy attributes
"""

from __future__ import annotations

import dataclasses
import functools
import hashlib
import importlib
import inspect
import itertools
import json
import pkgutil
from fractions import Fraction

N_EVENTS = 3
SKIP_MODULE_PREFIXES = ("ampform.sympy.deprecated",)


# --------------------------------------------------------------------- registry
def qualname(cls) -> str:
    return f"{cls.__module__}.{cls.__qualname__}"


@functools.lru_cache(maxsize=None)
def _walk():
    import ampform  # noqa: PLC0415
    import sympy as sp  # noqa: PLC0415

    found, failed, functions = {}, [], {}
    names = ["ampform"]
    for mi in pkgutil.walk_packages(ampform.__path__, "ampform."):
        if mi.name.startswith(SKIP_MODULE_PREFIXES) or "symplot" in mi.name:
            continue
        names.append(mi.name)
    for name in names:
        try:
            mod = importlib.import_module(name)
        except Exception as exc:  # noqa: BLE001  (optional dependencies)
            failed.append(f"{name}: {type(exc).__name__}")
            continue
        for obj in list(vars(mod).values()):
            module = getattr(obj, "__module__", None) or ""
            if not module.startswith("ampform") or module.startswith(SKIP_MODULE_PREFIXES):
                continue
            if inspect.isclass(obj) and issubclass(obj, sp.Basic):
                found[qualname(obj)] = obj
            elif inspect.isfunction(obj):
                functions[f"{module}.{obj.__qualname__}"] = obj
    return dict(sorted(found.items())), failed, dict(sorted(functions.items()))


def walk_classes() -> dict:
    return _walk()[0]


def import_failures() -> list[str]:
    return _walk()[1]


def is_unevaluated_class(cls) -> bool:
    if not (inspect.isclass(cls) and dataclasses.is_dataclass(cls)):
        return False
    return all("sympify" in f.metadata for f in dataclasses.fields(cls))


def is_unevaluated_instance(obj) -> bool:
    return is_unevaluated_class(type(obj))


@dataclasses.dataclass(frozen=True)
class FieldInfo:
    name: str
    sympify: bool
    has_default: bool
    annotation: str
    sort: str


@dataclasses.dataclass(frozen=True)
class Info:
    qual: str
    cls: type
    unevaluated: bool
    fields: tuple
    printable: bool
    unfolds: bool  # has an evaluate()-based doit
    abstract: bool

    @property
    def name(self) -> str:
        return self.cls.__name__

    @property
    def sympy_fields(self):
        return tuple(f for f in self.fields if f.sympify)

    @property
    def attr_fields(self):
        return tuple(f for f in self.fields if not f.sympify)


_ARRAY4_NAMES = {"momentum", "array", "four_momentum", "p"}
_ARRAY3_NAMES = {"vector", "three_momentum"}
_SIZE_NAMES = {"n_events", "shape", "size", "n"}
_INT_NAMES = {"angular_momentum", "l", "ell", "L"}


def _field_sort(field, class_names: dict) -> str:
    ann = field.type if isinstance(field.type, str) else getattr(field.type, "__name__", str(field.type))
    if not field.metadata.get("sympify"):
        if "Protocol" in ann or "Callable" in ann or "phsp" in field.name:
            return "attr:phsp"
        if "str" in ann or field.name == "name":
            return "attr:name"
        return "attr:other"
    bare = ann.strip().strip("'\"")
    if bare in class_names:
        return f"inst:{class_names[bare]}"
    if field.name in _ARRAY4_NAMES or "FourMomentum" in ann or "ArraySymbol" in ann:
        return "array4"
    if field.name in _ARRAY3_NAMES:
        return "array3"
    if field.name in _SIZE_NAMES or field.name.startswith("n_"):
        return "size"
    if field.name in _INT_NAMES:
        return "int"
    return "scalar"


@functools.lru_cache(maxsize=None)
def _infos() -> dict:
    classes = walk_classes()
    by_name = {}
    for q, c in classes.items():
        by_name.setdefault(c.__name__, q)
    out = {}
    for q, c in classes.items():
        uneval = is_unevaluated_class(c)
        fields = ()
        if uneval:
            fields = tuple(
                FieldInfo(
                    f.name, bool(f.metadata.get("sympify")),
                    f.default is not dataclasses.MISSING or f.default_factory is not dataclasses.MISSING,
                    f.type if isinstance(f.type, str) else getattr(f.type, "__name__", str(f.type)),
                    _field_sort(f, by_name),
                )
                for f in dataclasses.fields(c)
            )
        printable, abstract = False, False
        for k in c.__mro__:
            if not k.__module__.startswith("ampform"):
                continue
            for meth in ("_numpycode", "_pythoncode"):
                fn = vars(k).get(meth)
                if fn is None:
                    continue
                if getattr(fn, "__isabstractmethod__", False):
                    if k is c:
                        abstract = True
                    continue
                printable = True
        if printable:
            abstract = False
        out[q] = Info(q, c, uneval, fields, printable, uneval and "evaluate" in dir(c) and "doit" in vars(c), abstract)
    return out


def infos() -> dict:
    return _infos()


def info(qual: str) -> Info:
    return _infos()[qual]


def find(name: str) -> str:
    """Qualified name of the (first) registry class called `name`."""
    for q, i in _infos().items():
        if i.name == name:
            return q
    raise KeyError(name)


# closures from one factory share __module__ and __qualname__ but are different objects
# with different behaviour (enabled by C14 only: local functions cannot be pickled)
CLOSURES_ENABLED = False


def _make_phsp(k: int):
    def phsp(s, m1, m2):
        from ampform.dynamics.phasespace import PhaseSpaceFactor, PhaseSpaceFactorAbs  # noqa: PLC0415

        return (PhaseSpaceFactor if k == 0 else PhaseSpaceFactorAbs)(s, m1, m2) * (k + 1)

    phsp._vp_key = k  # noqa: SLF001
    return phsp


_CLOSURES = {k: _make_phsp(k) for k in (0, 1)}


def phsp_candidates() -> list:
    """Admissible values of a `phsp_factor` attribute: every registry class that is
    called as f(s, m1, m2) and every module-level function with that signature."""
    out = []
    for q, i in _infos().items():
        if i.unevaluated and [f.name for f in i.sympy_fields] == ["s", "m1", "m2"]:
            out.append(["obj", i.cls.__module__, i.cls.__qualname__])
    for q, fn in _walk()[2].items():
        if fn.__name__.startswith("_"):
            continue
        try:
            params = list(inspect.signature(fn).parameters)
        except (TypeError, ValueError):
            continue
        if params == ["s", "m1", "m2"]:
            out.append(["obj", fn.__module__, fn.__qualname__])
    return out


# ------------------------------------------------------------------ descriptors
_COMPOUND = {
    "sq1": lambda a, b: a**2 + b / 3,
    "avg": lambda a, b: (a + b) / 2,
    "inc": lambda a: a + 1,
    "powb": lambda a, b: a**b,
    "pow1": lambda a, b, c: a**b + c,
    "mul": lambda a, b: a * b,
    "add": lambda a, b: a + b,
    "sqr": lambda a: a**2,
    "div": lambda a, b: a / b,
    "dif": lambda a, b: a / 4 - b**2,
}


def build(desc):
    import sympy as sp  # noqa: PLC0415
    from sympy.tensor.array.expressions.array_expressions import ArraySymbol  # noqa: PLC0415

    tag = desc[0]
    if tag in {"sym", "bound"}:
        return sp.Symbol(desc[1], **desc[2])
    if tag == "arr":
        return ArraySymbol(desc[1], shape=[])
    if tag == "arrs":
        return ArraySymbol(desc[1], shape=tuple(desc[2]))
    if tag == "num":
        return sp.Rational(desc[1])
    if tag == "int":
        return sp.Integer(desc[1])
    if tag == "cmp":
        return _COMPOUND[desc[1]](*[build(d) for d in desc[2]])
    if tag == "inst":
        cls = walk_classes()[desc[1]]
        return cls(**{k: build(v) for k, v in desc[2].items()})
    if tag == "new":
        cls = walk_classes()[desc[1]]
        return cls(*[build(d) for d in desc[2]])
    if tag == "tuple":
        return tuple(build(d) for d in desc[1])
    if tag == "slice":
        return slice(*[None if v is None else v for v in desc[1:4]])
    if tag == "pyint":
        return int(desc[1])
    if tag == "pyfloat":
        return float(desc[1])
    if tag in {"pynone", "none"}:
        return None
    if tag == "str":
        return str(desc[1])
    if tag == "closure":
        return _CLOSURES[int(desc[1])]
    if tag == "obj":
        obj = importlib.import_module(desc[1])
        for part in desc[2].split("."):
            obj = getattr(obj, part)
        return obj
    msg = f"unknown descriptor tag {tag!r}"
    raise ValueError(msg)


def leaves(desc, depth: int = 0, out=None):
    """Symbol leaves of a descriptor: (kind, name, assumptions-json, nesting depth) where
    depth counts the @unevaluated instances *below the top* that contain the leaf."""
    if out is None:
        out = []
    tag = desc[0]
    if tag == "sym":
        out.append(("sym", desc[1], json.dumps(desc[2], sort_keys=True), depth))
    elif tag == "arr":
        out.append(("arr", desc[1], "{}", depth))
    elif tag == "cmp":
        for d in desc[2]:
            leaves(d, depth, out)
    elif tag == "inst":
        for d in desc[2].values():
            leaves(d, depth + 1, out)
    elif tag == "new":
        for d in desc[2]:
            leaves(d, depth, out)
    elif tag == "tuple":
        for d in desc[1]:
            leaves(d, depth, out)
    return out


def bound_leaves(desc, out=None):
    """Descriptors of the bound variables of a shape."""
    if out is None:
        out = []
    tag = desc[0]
    if tag == "bound":
        out.append(list(desc))
    elif tag in {"cmp", "new"}:
        for d in desc[2]:
            bound_leaves(d, out)
    elif tag == "inst":
        for d in desc[2].values():
            bound_leaves(d, out)
    elif tag == "tuple":
        for d in desc[1]:
            bound_leaves(d, out)
    return out


def describe(desc) -> str:
    tag = desc[0]
    if tag in {"sym", "bound"}:
        a = ",".join(f"{k}" for k in desc[2])
        return f"{desc[1]}" + (f"[{a}]" if a else "")
    if tag in {"arr", "arrs"}:
        return desc[1]
    if tag in {"num", "int", "pyint", "pyfloat", "str"}:
        return str(desc[1])
    if tag == "cmp":
        return f"{desc[1]}({', '.join(describe(d) for d in desc[2])})"
    if tag == "inst":
        return f"{desc[1].rsplit('.', 1)[1]}({', '.join(f'{k}={describe(v)}' for k, v in desc[2].items())})"
    if tag == "new":
        return f"{desc[1].rsplit('.', 1)[1]}({', '.join(describe(d) for d in desc[2])})"
    if tag == "tuple":
        return "(" + ", ".join(describe(d) for d in desc[1]) + ")"
    if tag == "slice":
        return ":".join("" if v is None else str(v) for v in desc[1:4])
    if tag in {"none", "pynone"}:
        return "None"
    if tag == "obj":
        return desc[2]
    if tag == "closure":
        return f"closure#{desc[1]}"
    return str(desc)


# ----------------------------------------------------------------------- alphabets
def SYM(name, **assumptions):
    return ["sym", name, dict(assumptions)]


def _base_of(field: FieldInfo):
    s = field.sort
    if s == "array4":
        return ["arr", "p0"]
    if s == "array3":
        return ["arr", "v0"]
    if s.startswith("inst:"):
        return base_shape(s[5:])
    if s == "attr:phsp":
        cands = phsp_candidates()
        return cands[0] if cands else ["none"]
    if s.startswith("attr:"):
        return ["none"]
    if s == "int":
        return ["int", 1]
    return SYM(field.name)


def base_shape(qual: str):
    i = info(qual)
    if not i.unevaluated:
        shapes = plain_shapes(qual, "quick")
        if not shapes:
            msg = f"no recipe for {qual}"
            raise ValueError(msg)
        return shapes[0]
    return ["inst", qual, {f.name: _base_of(f) for f in i.fields}]


@functools.lru_cache(maxsize=None)
def value_sort(qual: str) -> str:
    """Sort of the *value* of a class, found by evaluating its base shape on N_EVENTS
    events: scalar (one real number per event), complex, array4, array3, matrix, size,
    unknown."""
    import numpy as np  # noqa: PLC0415

    try:
        obj = build(base_shape(qual))
        res = np_values([obj.doit()], 0)
    except Exception:  # noqa: BLE001
        return "unknown"
    if res[0] != "ok":
        return "unknown"
    v = res[1][0]
    shape = np.shape(v)
    if shape == () and isinstance(v, (int, np.integer)):
        return "size"
    if shape in {(), (N_EVENTS,)}:
        z = np.asarray(v, dtype=complex)
        if np.all(np.isfinite(z)) and np.max(np.abs(z.imag)) > 1e-9 * max(1.0, float(np.max(np.abs(z)))):
            return "complex"  # complex-valued (SphericalHankel1): never used as a mass / energy argument
        return "scalar"
    if shape == (N_EVENTS, 4):
        return "array4"
    if shape == (N_EVENTS, 3):
        return "array3"
    if shape == (N_EVENTS, 4, 4):
        return "matrix"
    return "unknown"


@functools.lru_cache(maxsize=None)
def classes_of_value_sort(sort: str) -> tuple:
    out = []
    for q, i in infos().items():
        if i.unevaluated and not i.abstract and value_sort(q) == sort:
            out.append(q)
    return tuple(out)


MAX_NESTED_SIZE = 20


@functools.lru_cache(maxsize=None)
def unfolded_size(qual: str) -> int:
    """Operation count of the unfolded base shape (nested arguments with a large unfolded
    form - Kibble, the analytic phase-space factors, the energy-dependent width - make
    sympy's subs/doit on the enclosing expression take minutes and are left out)."""
    import sympy as sp  # noqa: PLC0415

    try:
        return int(sp.count_ops(build(base_shape(qual)).doit()))
    except Exception:  # noqa: BLE001
        return 10**6


def nested_candidates(sort: str, tier: str) -> list:
    """@unevaluated classes usable as an argument of the given sort.  quick: one
    representative with a non-SymPy field, one without and with scalar fields only,
    one fed by an array; thorough: all whose unfolded base form has <= MAX_NESTED_SIZE
    operations."""
    quals = [q for q in classes_of_value_sort(sort)]
    if sort == "scalar":
        quals = [q for q in quals if not info(q).name.startswith("_")]
    if tier == "thorough":
        reps = nested_candidates(sort, "quick")
        return [q for q in quals if q in reps or unfolded_size(q) <= MAX_NESTED_SIZE]

    def key(q):
        return (len(info(q).fields), q)

    with_attr = sorted((q for q in quals if info(q).attr_fields), key=key)
    plain_scalar = sorted(
        (q for q in quals if not info(q).attr_fields
         and all(f.sort in {"scalar", "int"} for f in info(q).fields)
         and any(f.sort == "scalar" for f in info(q).fields)
         and sum(f.sort == "scalar" for f in info(q).fields) >= 2), key=key)
    arrayish = sorted((q for q in quals if any(f.sort.startswith("array") for f in info(q).fields)), key=key)
    reps = []
    for group in (with_attr, plain_scalar, arrayish):
        if group:
            reps.append(group[0])
    if not reps and quals:
        reps.append(sorted(quals, key=key)[0])
    return reps


def _nest(qual: str, tier: str, level: int):
    """Descriptors of instances of `qual` for use as an argument: the base shape and, at
    level 2, the base shape whose first compatible field holds another instance."""
    out = [base_shape(qual)]
    if level >= 2:
        i = info(qual)
        for f in i.sympy_fields:
            cands = nested_candidates(f.sort, "quick") if f.sort in {"scalar", "array4", "array3", "size"} else []
            cands = [c for c in cands if c != qual] or [c for c in cands if f.sort != "scalar"]
            if cands:
                d = base_shape(qual)
                d[2][f.name] = base_shape(cands[0])
                out.append(d)
                break
    return out


def alphabet(field: FieldInfo, index: int, tier: str) -> list:
    """Values of one field; entry 0 is the base value (a plain symbol)."""
    s = field.sort
    n = field.name
    level = 2 if tier == "thorough" else 1
    if s == "scalar":
        out = [
            SYM(n),
            SYM(n, positive=True),
            ["num", f"{3 + 2 * index}/{2 + index}"],
            ["cmp", "sq1", [SYM(n), SYM("w")]],
        ]
        reps = nested_candidates("scalar", "quick")
        for q in nested_candidates("scalar", tier):
            out.extend(_nest(q, tier, level if q in reps else 1))
        return out
    if s == "int":
        # base = an integer (what models contain; symbolic sums over L are slow in sympy)
        return [
            ["int", 1], ["int", 0], ["int", 2],
            SYM(n),
            SYM(n, integer=True, nonnegative=True),
            ["cmp", "inc", [SYM(n, integer=True, nonnegative=True)]],
        ]
    if s == "size":
        out = [SYM(n), SYM(n, integer=True, positive=True), ["int", N_EVENTS]]
        for q in nested_candidates("size", tier):
            out.append(base_shape(q))
            d = base_shape(q)
            first = info(q).sympy_fields[0]
            if first.sort == "array4":
                d[2][first.name] = ["new", find("ArraySum"), [["arr", "p0"], ["arr", "p1"]]]
                out.append(d)
        return out
    if s == "array4":
        out = [["arr", "p0"], ["new", find("ArraySum"), [["arr", "p0"], ["arr", "p1"]]]]
        for q in nested_candidates("array4", tier):
            out.extend(_nest(q, tier, level))
        mats = [q for q in classes_of_value_sort("matrix") if info(q).unfolds and len(info(q).fields) == 1]
        if mats:
            boost = base_shape(mats[0])
            boost[2][info(mats[0]).fields[0].name] = ["arr", "p1"]
            out.append(["new", find("ArrayMultiplication"), [boost, ["arr", "p0"]]])
        return out
    if s == "array3":
        out = [["arr", "v0"], ["new", find("ArraySum"), [["arr", "v0"], ["arr", "v1"]]]]
        for q in nested_candidates("array3", tier):
            out.extend(_nest(q, tier, level))
        return out
    if s.startswith("inst:"):
        q = s[5:]
        i = info(q)
        out = [base_shape(q)]
        if i.unevaluated and i.fields:
            first = i.fields[0]
            for v in alphabet(first, 0, "quick")[1:]:
                d = base_shape(q)
                d[2][first.name] = v
                out.append(d)
        return out
    if s == "attr:phsp":
        extra = [["closure", 0], ["closure", 1]] if CLOSURES_ENABLED else []
        return [*phsp_candidates(), ["none"], *extra]
    if s == "attr:name":
        return [["none"], ["str", "custom"], ["str", "other"]]
    return [["none"]]


PRODUCT_LIMIT = {"quick": 60, "thorough": 500}


def unevaluated_shapes(qual: str, tier: str) -> list:
    """Bounded shape space of an @unevaluated class: the full product of the field
    alphabets if it is small, else the base shape + every one-field variation + the
    diagonals (every field takes its k-th value) + two-field variations over the
    representative nested values (quick: first pair of fields; thorough: all pairs of
    the first four fields) + every non-SymPy attribute value next to a nested argument."""
    i = info(qual)
    alphas = [alphabet(f, k, tier) for k, f in enumerate(i.fields)]
    names = [f.name for f in i.fields]
    size = 1
    for a in alphas:
        size *= len(a)
    shapes = []
    if size <= PRODUCT_LIMIT[tier]:
        for combo in itertools.product(*alphas):
            shapes.append(dict(zip(names, combo)))
    else:
        base = {n: a[0] for n, a in zip(names, alphas)}
        shapes.append(dict(base))
        for n, a in zip(names, alphas):
            for v in a[1:]:
                shapes.append({**base, n: v})
        diag_alphas = [
            [v for v in a if v[0] == "int"] if f.sort == "int" else a for f, a in zip(i.fields, alphas)
        ]
        for k in range(1, max(len(a) for a in diag_alphas)):
            shapes.append({n: a[k % len(a)] if f.sort == "int" else a[min(k, len(a) - 1)]
                           for n, f, a in zip(names, i.fields, diag_alphas)})
        quick_alphas = alphas if tier == "quick" else [alphabet(f, k, "quick") for k, f in enumerate(i.fields)]
        nested_idx = {
            n: [v for v in a if v[0] in {"inst", "new"}] for n, a in zip(names, quick_alphas)
        }
        pair_fields = [n for n in names if nested_idx[n] and i.fields[names.index(n)].sympify]
        pairs = list(itertools.combinations(pair_fields[:4], 2))
        if tier != "thorough":
            pairs = pairs[:1]
        for n1, n2 in pairs:
            vals1 = nested_idx[n1] if tier == "thorough" else nested_idx[n1][:2]
            vals2 = nested_idx[n2] if tier == "thorough" else nested_idx[n2][:2]
            for v1 in vals1:
                for v2 in vals2:
                    shapes.append({**base, n1: v1, n2: v2})
        attr_names = [f.name for f in i.attr_fields]
        if attr_names and pair_fields:
            n1 = pair_fields[0]
            for an in attr_names:
                a = alphas[names.index(an)]
                for v in a[1:]:
                    for v1 in nested_idx[n1][: (None if tier == "thorough" else 2)]:
                        shapes.append({**base, n1: v1, an: v})
    out, seen = [], set()
    for s in shapes:
        d = ["inst", qual, s]
        if _symbolic_int_with_nested_scalar(i, s):
            continue
        k = json.dumps(d, sort_keys=True)
        if k not in seen:
            seen.add(k)
            out.append(d)
    return out


def _symbolic_int_with_nested_scalar(i: Info, shape: dict) -> bool:
    """A symbolic angular momentum is only combined with symbol / number / compound
    arguments: the symbolic-L Blatt-Weisskopf form is defined for z >= 0 (TR-029), and the
    sign of a nested instance on the lattice is not under control."""
    symbolic = any(
        f.sort == "int" and shape[f.name][0] in {"sym", "cmp"} for f in i.fields
    )
    if not symbolic:
        return False
    return any(f.sort == "scalar" and shape[f.name][0] in {"inst", "new"} for f in i.fields)


def plain_shapes(qual: str, tier: str) -> list:
    """Hand-written recipes for the helper classes (their constructors are not
    dataclass-like); unknown classes get generic attempts."""
    name = qual.rsplit(".", 1)[1]
    P0, P1, P2 = ["arr", "p0"], ["arr", "p1"], ["arr", "p2"]
    X, Y, Z = SYM("x"), SYM("y"), SYM("z")
    I_, J_, K_ = ["bound", "i", {}], ["bound", "j", {}], ["bound", "k", {}]

    def N(v):
        return ["num", v]

    def inst(cls_name, **kw):
        return ["inst", find(cls_name), kw]

    def new(cls_name, *args):
        return ["new", find(cls_name), list(args)]

    def T(*items):
        return ["tuple", list(items)]

    ALL = ["slice", None, None, None]
    size = inst("ArraySize", array=P0)
    if name == "PoolSum":
        return [
            ["new", qual, [["cmp", "pow1", [X, I_, Y]], T(I_, T(["int", 0], ["int", 1], ["int", 2]))]],
            ["new", qual, [["cmp", "mul", [inst("Kallen", x=X, y=I_, z=Z), Y]],
                           T(I_, T(["int", 1], ["int", 2])), T(J_, T(N("-1/2"), N("1/2")))]],
            ["new", qual, [inst("BreakupMomentumSquared", s=SYM("s"), m1=I_, m2=SYM("m2"), name=["none"]),
                           T(I_, T(N("1/2"), N("3/2")))]],
            ["new", qual, [inst("PhaseSpaceFactor",
                                s=inst("BreakupMomentumSquared", s=SYM("s"), m1=SYM("m1"), m2=SYM("m2"), name=["none"]),
                                m1=I_, m2=SYM("m2"), name=["str", "custom"]),
                           T(I_, T(["int", 1], ["int", 2]))]],
            ["new", qual, [["cmp", "mul", [inst("Energy", momentum=P0), ["cmp", "powb", [X, I_]]]],
                           T(I_, T(["int", 1], ["int", 2]))]],
            # pool written with Python floats (stored as sympy Floats)
            ["new", qual, [["cmp", "mul", [inst("Kallen", x=X, y=I_, z=Z), Y]],
                           T(I_, T(["pyfloat", -0.5], ["pyfloat", 0.5]))]],
            # symbolic pool values (a map may make them coincide: the sum keeps both terms)
            ["new", qual, [inst("Kallen", x=Z, y=I_, z=SYM("w")), T(I_, T(X, Y))]],
            ["new", qual, [["cmp", "mul", [inst("Kallen", x=Z, y=I_, z=J_), Z]],
                           T(I_, T(X, Y, ["int", 1])), T(J_, T(Y, SYM("w")))]],
        ]
    if name == "ArraySum":
        return [new(name, P0, P1), new(name, P0, inst("NegativeMomentum", momentum=P1)), new(name, P0, P1, P2)]
    if name == "ArrayMultiplication":
        return [
            new(name, inst("BoostMatrix", momentum=P0), P1),
            new(name, inst("BoostZMatrix", beta=SYM("b"), n_events=size),
                inst("RotationYMatrix", angle=SYM("a"), n_events=size), P0),
            new(name, inst("MinkowskiMetric", momentum=P0), P0),
        ]
    if name == "MatrixMultiplication":
        return [
            new(name, inst("BoostZMatrix", beta=SYM("b"), n_events=size),
                inst("RotationZMatrix", angle=SYM("a"), n_events=size)),
            new(name, inst("BoostMatrix", momentum=P0), inst("BoostMatrix", momentum=P1)),
        ]
    if name == "ArraySlice":
        return [
            new(name, P0, T(ALL, ["pyint", 0])),
            new(name, P0, T(ALL, ["slice", 1, None, None])),
            new(name, inst("NegativeMomentum", momentum=P0), T(ALL, ["pyint", 2])),
            new(name, new("ArraySum", P0, P1), T(ALL, ["pyint", 3])),
            # parent with a concrete shape: slices are normalised against the axis sizes
            new(name, ["arrs", "A", [N_EVENTS, 4]], T(ALL, ["pyint", 1])),
            new(name, ["arrs", "A", [N_EVENTS, 4]], T(ALL, ["slice", 1, None, None])),
        ]
    if name == "ArrayElement":
        return [
            new(name, ["arrs", "A", [N_EVENTS, 4]], T(["pyint", 1], ["pyint", 2])),
            new(name, P0, T(["pyint", 0], ["pyint", 1])),
        ]
    if name == "ArrayAxisSum":
        return [
            new(name, ["cmp", "sqr", [inst("ThreeMomentum", momentum=P0)]], ["pyint", 1]),
            new(name, P0, ["pyint", 1]),
            new(name, new("ArraySum", P0, P1), ["pyint", 0]),
            new(name, P0, ["pynone"]),
        ]
    if name == "ComplexSqrt":
        f = FieldInfo("x", True, False, "Any", "scalar")
        # + arguments that print as a sum and change sign over the lattice (s/4 - m**2)
        return [["new", qual, [v]] for v in alphabet(f, 0, tier)] + [
            ["new", qual, [["cmp", "dif", [SYM("s"), SYM("m")]]]],
            ["new", qual, [["cmp", "dif", [X, Y]]]],
        ]
    if name == "UnevaluatableIntegral":
        B = ["bound", "t", {}]
        return [
            ["new", qual, [["cmp", "mul", [["cmp", "sqr", [B]], Y]], T(B, ["int", 0], ["int", 1])]],
            ["new", qual, [inst("Kallen", x=B, y=Y, z=Z), T(B, ["int", 1], ["int", 2])]],
        ]
    if name == "_SymbolicSum":
        return [
            ["new", qual, [["cmp", "powb", [X, K_]], T(K_, ["int", 0], ["int", 2])]],
            ["new", qual, [["cmp", "mul", [["cmp", "powb", [X, K_]], Y]],
                           T(K_, ["int", 0], SYM("L", integer=True, nonnegative=True))]],
        ]
    # unknown helper class: generic attempts, kept if they build an instance of the class
    generic = [[X], [X, Y], [P0], [P0, P1], [X, T(K_, ["int", 0], ["int", 2])]]
    out = []
    cls = walk_classes()[qual]
    for args in generic:
        d = ["new", qual, args]
        try:
            if isinstance(build(d), cls):
                out.append(d)
        except Exception:  # noqa: BLE001, S112
            continue
    return out


@functools.lru_cache(maxsize=None)
def _shapes_cached(qual: str, tier: str) -> str:
    i = info(qual)
    if i.abstract:
        return "[]"
    shapes = unevaluated_shapes(qual, tier) if i.unevaluated else plain_shapes(qual, tier)
    return json.dumps(shapes)


def shapes_for(qual: str, tier: str) -> list:
    return json.loads(_shapes_cached(qual, tier))


def instance_descriptors(tier: str) -> list:
    """The whole pool: every shape of every class (also used by C15)."""
    out = []
    for q in infos():
        out.extend(shapes_for(q, tier))
    return out


# ---------------------------------------------------------------- structural keys
def attr_key(value):
    if value is None:
        return ["none"]
    if isinstance(value, str):
        return ["str", value]
    if inspect.isfunction(value) and hasattr(value, "_vp_key"):
        return ["closure", value._vp_key]  # noqa: SLF001
    if inspect.isclass(value) or inspect.isfunction(value):
        return ["obj", value.__module__, value.__qualname__]
    return ["repr", repr(value)]


def canon(obj):
    """Structural key: class, arguments (recursively), non-SymPy attributes; atoms by
    srepr.  Independent of the library's __eq__/__hash__ and of hash seeds."""
    import sympy as sp  # noqa: PLC0415

    if not isinstance(obj, sp.Basic):
        if isinstance(obj, (tuple, list)):
            return ["py", [canon(o) for o in obj]]
        return ["py", repr(obj)]
    cls = type(obj)
    if is_unevaluated_class(cls):
        attrs = [
            [f.name, attr_key(getattr(obj, f.name, "<missing>"))]
            for f in dataclasses.fields(cls) if not f.metadata.get("sympify")
        ]
        return [qualname(cls), [canon(a) for a in obj.args], attrs]
    if not obj.args:
        return [qualname(cls), sp.srepr(obj)]
    return [qualname(cls), [canon(a) for a in obj.args]]


def undummy(expr):
    """Rename Dummy symbols canonically (every unfolding creates fresh Dummies)."""
    import sympy as sp  # noqa: PLC0415

    seen = {}
    for node in sp.preorder_traversal(expr):
        if isinstance(node, sp.Dummy) and node not in seen:
            seen[node] = sp.Symbol(f"_dummy{len(seen)}", **node.assumptions0)
    return expr.xreplace(seen) if seen else expr


def digest(obj) -> str:
    return hashlib.sha256(json.dumps(canon(obj)).encode()).hexdigest()[:20]


def srepr_digest(obj) -> str:
    import sympy as sp  # noqa: PLC0415

    return hashlib.sha256(sp.srepr(obj).encode()).hexdigest()[:20]


def nonsympy_attrs(obj) -> dict:
    return {
        f.name: getattr(obj, f.name, "<missing>")
        for f in dataclasses.fields(type(obj)) if not f.metadata.get("sympify")
    } if is_unevaluated_instance(obj) else {}


def has_nested_unevaluated(obj, require_attr_field: bool) -> bool:
    """Witness predicate of the astuple defect, evaluated on the INPUT: some
    @unevaluated node has a direct argument that is itself an @unevaluated instance
    (and, if required, the node's class has a non-SymPy field)."""
    import sympy as sp  # noqa: PLC0415

    for node in sp.preorder_traversal(obj):
        if not is_unevaluated_instance(node):
            continue
        if require_attr_field and not any(
            not f.metadata.get("sympify") for f in dataclasses.fields(type(node))
        ):
            continue
        if any(is_unevaluated_instance(a) for a in node.args):
            return True
    return False


# ----------------------------------------------------------------------- numerics
def _symbols_of(exprs):
    import sympy as sp  # noqa: PLC0415
    from sympy.tensor.array.expressions.array_expressions import ArraySymbol  # noqa: PLC0415

    arrs, syms = set(), set()
    for e in exprs:
        arrs |= e.atoms(ArraySymbol)
        syms |= {s for s in e.atoms(sp.Symbol) if not isinstance(s, sp.Dummy)}
    names = {str(a) for a in arrs}
    syms = {s for s in syms if s.name not in names}
    bound = set()
    for e in exprs:
        for node in sp.preorder_traversal(e):
            if isinstance(node, (sp.Sum, sp.Integral)):
                bound |= {lim[0] for lim in node.limits}
            elif type(node).__name__ == "PoolSum":
                bound |= {idx for idx, _ in node.args[1:]}
    return sorted(syms - bound, key=lambda s: (s.name, sp.srepr(s))), sorted(arrs, key=str)


def _name_hash(name: str) -> int:
    return int(hashlib.sha256(name.encode()).hexdigest()[:8], 16)


def is_int_symbol(sym) -> bool:
    """Symbols that stand for integers: by assumption or by the name of the field they
    fill (angular momenta, event counts)."""
    name = sym.name
    for suffix in ("_r", "_q"):
        if name.endswith(suffix):
            name = name[: -len(suffix)]
    return bool(sym.is_integer) or name in _INT_NAMES or name in _SIZE_NAMES or name.startswith("n_")


def scalar_value(sym, j: int, seed: int) -> Fraction:
    """Exact lattice value (a dyadic rational, exactly representable as a float) of a
    scalar symbol at lattice point j; depends on the symbol's name only."""
    name = sym.name
    h = _name_hash(name)
    shift = Fraction((h % 23) + 7 * j + 3 * (seed % 11), 64)
    if is_int_symbol(sym):
        if name.startswith(("n", "shape", "size")):
            return Fraction(N_EVENTS)
        return Fraction(1 + h % 2)
    if name.startswith(("s", "sigma")) and not name.startswith(("shape", "size", "sin")):
        return Fraction(6) + shift * 2
    if name.startswith(("mass0", "m0", "m_0")):
        return Fraction(2) + shift / 2
    if name.startswith("m"):
        return Fraction(1, 8) + shift / 4
    if name.startswith(("b", "beta")):
        return Fraction(1, 8) + shift / 4
    return Fraction(1, 2) + shift


def array_value(sym, seed: int):
    """(N_EVENTS, 4) time-like four-momenta (or (N_EVENTS, 3) vectors for names v*)."""
    import numpy as np  # noqa: PLC0415

    name = str(sym)
    h = _name_hash(name)
    shape = tuple(int(x) for x in getattr(sym, "shape", ()) or ())
    rows = shape[0] if shape else N_EVENTS
    cols = shape[1] if len(shape) > 1 else (3 if name.startswith("v") else 4)
    out = np.zeros((rows, cols))
    for r in range(rows):
        for c in range(cols):
            k = (h + 5 * r + 11 * c + 3 * seed) % 29
            out[r, c] = (k - 14) / 32.0
        if cols == 4:
            out[r, 0] = 2.0 + ((h + r + seed) % 7) / 8.0
    return out


def np_values(exprs: list, seed: int, cse: bool = False, events=None, real_input: bool = False,
              overrides=None, off_axis: bool = False):
    """("ok", [arrays]) or ("error", "<Type>: message") for lambdify on the lattice."""
    import numpy as np  # noqa: PLC0415
    import sympy as sp  # noqa: PLC0415

    syms, arrs = _symbols_of(exprs)
    names = [s.name for s in syms]
    if len(set(names)) < len(names):  # same name, different assumptions: rename for the code generator
        ren = {s: sp.Symbol(f"{s.name}__{k}", **s.assumptions0) for k, s in enumerate(syms) if names.count(s.name) > 1}
        exprs = [e.xreplace(ren) for e in exprs]
        values = {ren.get(s, s): s for s in syms}
        syms = [ren.get(s, s) for s in syms]
    else:
        values = {s: s for s in syms}
    args = []
    for s in syms:
        s_orig = values[s]
        if overrides and s_orig.name in overrides:
            args.append(overrides[s_orig.name])
        elif is_int_symbol(s_orig):
            args.append(int(scalar_value(s_orig, 0, seed)))
        else:
            vals = [float(scalar_value(s_orig, j, seed)) for j in range(N_EVENTS)]
            if off_axis:  # generic complex point: away from every branch cut on the real axis
                k = len(args)
                args.append(np.array(vals, dtype=complex) + 1j * (0.0625 + 0.015625 * k))
            else:
                args.append(np.array(vals) if real_input else np.array(vals, dtype=complex))
    for a in arrs:
        v = array_value(a, seed)
        args.append(v)
    if events is not None:
        args = [
            (a[events] if isinstance(a, np.ndarray) and a.shape[:1] == (N_EVENTS,) else a)
            for a in args
        ]
    try:
        fn = sp.lambdify([*syms, *arrs], exprs, "numpy", cse=cse)
        with np.errstate(all="ignore"):
            vals = fn(*args)
    except Exception as exc:  # noqa: BLE001
        return ("error", f"{type(exc).__name__}: {str(exc)[:160]}")
    return ("ok", [v if isinstance(v, (int, np.integer)) else np.asarray(v) for v in vals])


def exact_values(expr, seed: int, n_points: int = 2):
    """("ok", [complex]) via exact rational substitution + doit + evalf; "symbolic" if the
    result is not a number (e.g. array classes); ("error", msg)."""
    import sympy as sp  # noqa: PLC0415

    syms, arrs = _symbols_of([expr])
    if arrs:
        return ("symbolic", "array symbols present")
    out = []
    for j in range(n_points):
        pt = {}
        for s in syms:
            f = scalar_value(s, j, seed)
            pt[s] = sp.Rational(f.numerator, f.denominator)
        try:
            v = expr.xreplace(pt).doit()
            v = sp.N(v, 30)
        except Exception as exc:  # noqa: BLE001
            return ("error", f"{type(exc).__name__}: {str(exc)[:160]}")
        if v in {sp.nan, sp.zoo, sp.oo, -sp.oo}:
            out.append(complex("nan"))
            continue
        if not v.is_number or v.atoms(sp.Symbol):
            return ("symbolic", str(v)[:120])
        try:
            out.append(complex(v))
        except (TypeError, ValueError):
            return ("symbolic", str(v)[:120])
    return ("ok", out)


def arrays_close(a, b, rtol: float = 1e-9):
    """(verdict, n_finite) with verdict in equal / differ / undefined; NaN on both sides
    at the same place is skipped (never counted as agreement)."""
    import numpy as np  # noqa: PLC0415

    a = np.asarray(a, dtype=complex)
    b = np.asarray(b, dtype=complex)
    try:
        a, b = np.broadcast_arrays(a, b)
    except ValueError:
        return "differ", 0
    fa, fb = np.isfinite(a), np.isfinite(b)
    if np.any(fa != fb):
        return "differ", int(np.sum(fa & fb))
    if not np.any(fa):
        return "undefined", 0
    x, y = a[fa], b[fb]
    scale = np.maximum(np.maximum(np.abs(x), np.abs(y)), 1e-30)
    ok = np.all(np.abs(x - y) <= rtol * np.maximum(scale, 1e-12 + 0 * scale))
    return ("equal" if ok else "differ"), int(np.sum(fa))


def numeric_compare(x, y, seed: int):
    """Compare two expressions numerically on the lattice.

    Returns (verdict, how, detail) with verdict in equal / differ / undefined."""
    ex, ey = exact_values(x, seed), exact_values(y, seed)
    if ex[0] == "ok" and ey[0] == "ok":
        v, n = arrays_close(ex[1], ey[1], 1e-12)
        return v, "exact", f"{ex[1]} vs {ey[1]}" if v == "differ" else f"{n} points"
    if {ex[0], ey[0]} == {"ok", "symbolic"} or {ex[0], ey[0]} == {"ok", "error"}:
        return "differ", "exact", f"one side does not evaluate: {ex} vs {ey}"
    rx, ry = np_values([x], seed), np_values([y], seed)
    if rx[0] == "ok" and ry[0] == "ok":
        v, n = arrays_close(rx[1][0], ry[1][0])
        if v == "differ":
            # signed zeros of complex input on a branch cut: real-valued input decides
            qx, qy = np_values([x], seed, real_input=True), np_values([y], seed, real_input=True)
            if qx[0] == "ok" and qy[0] == "ok":
                import numpy as np  # noqa: PLC0415

                try:
                    a, b = np.broadcast_arrays(np.asarray(qx[1][0], dtype=complex), np.asarray(qy[1][0], dtype=complex))
                    fin = np.isfinite(a) & np.isfinite(b)
                    if not np.any(fin):
                        return "undefined", "numpy", "only defined off the real domain"
                    if arrays_close(a[fin], b[fin])[0] == "equal":
                        return "equal", "numpy-real-input", f"{int(np.sum(fin))} values"
                except ValueError:
                    pass
            gx, gy = np_values([x], seed, off_axis=True), np_values([y], seed, off_axis=True)
            if gx[0] == "ok" and gy[0] == "ok" and arrays_close(gx[1][0], gy[1][0])[0] == "equal":
                return "equal", "numpy-off-axis", "agree at a generic complex point (branch cut on the real axis)"
        return v, "numpy", f"{rx[1][0]} vs {ry[1][0]}" if v == "differ" else f"{n} values"
    if rx[0] == "error" and ry[0] == "error":
        return "undefined", "numpy", f"both sides not evaluable: {rx[1]}"
    return "differ", "numpy", f"one side is not evaluable: {rx[:2] if rx[0] == 'error' else 'ok'} vs {ry[:2] if ry[0] == 'error' else 'ok'}"


def numeric_value(obj, seed: int):
    """Numeric value of one (folded) expression for the pickle check: JSON-able."""
    import numpy as np  # noqa: PLC0415

    try:
        unfolded = obj.doit()
    except Exception as exc:  # noqa: BLE001
        return ["error", f"doit {type(exc).__name__}"]
    ev = exact_values(unfolded, seed)
    if ev[0] == "ok":
        return ["exact", [[z.real, z.imag] for z in ev[1]]]
    r = np_values([unfolded], seed)
    if r[0] != "ok":
        return ["error", r[1][:80]]
    v = np.asarray(r[1][0], dtype=complex).ravel()
    return ["numpy", [[float(z.real), float(z.imag)] for z in v]]


def values_close(a, b, rtol: float = 1e-12) -> str:
    import numpy as np  # noqa: PLC0415

    if a[0] != b[0]:
        return "differ"
    if a[0] == "error":
        return "undefined" if a[1] == b[1] else "differ"
    x = np.array([complex(*z) for z in a[1]])
    y = np.array([complex(*z) for z in b[1]])
    if x.shape != y.shape:
        return "differ"
    return arrays_close(x, y, rtol)[0]
