"""Entry point: ``python -m vp.run <ID> [--tier quick|thorough] [--replay FILE]``."""

from __future__ import annotations

import argparse
import os
import sys
import traceback

from vp import core


def main(argv: list[str] | None = None) -> int:
    parser = argparse.ArgumentParser(prog="check")
    parser.add_argument("property")
    parser.add_argument("--tier", default=os.environ.get("VERIF_TIER") or "quick",
                        choices=["quick", "thorough"])
    parser.add_argument("--replay", default=None)
    args = parser.parse_args(argv)
    seed = int(os.environ.get("VERIF_SEED", "0") or 0)
    try:
        return core.run_property(args.property.upper(), args.tier, seed, args.replay)
    except core.HarnessError as exc:
        print(f"HARNESS-ERROR property={args.property}: {exc}")
        return 2
    except Exception:  # noqa: BLE001
        print(f"HARNESS-ERROR property={args.property}: unexpected exception")
        traceback.print_exc()
        return 2


if __name__ == "__main__":
    sys.exit(main())
