"""Engine SCHED: baton scheduler, preemption-bounded explorer, crash-point enumerator.

The callers are *threads that execute the real library function*; nothing is modelled.
A ``sys.settrace`` hook that is active only in frames whose code object lives in one of
the given source files parks the thread before every source line (a *scheduling point*)
and waits for the baton.  Exactly one thread runs at any time, so an execution is fully
determined by its list of choices ("which of the enabled threads gets the baton at step
i", an index into the canonical order *running thread first, then ascending ids*).

Why line events and not patched I/O: the harness must stay valid when the code under
test is refactored (``open`` -> ``tempfile`` + ``os.replace``, new helper functions in the
same files, ...).  Nothing here knows function names, line numbers or which I/O calls
are made; every function whose code object's ``co_filename`` is one of ``files`` yields.

Three kinds of failure of the machinery itself are :class:`vp.core.HarnessError`
subclasses and are never reported as property violations:

* :class:`Deadlock` - the thread holding the baton did not reach its next scheduling
  point (or its end) within the timeout, i.e. no thread is enabled (it blocks on
  something a descheduled thread holds);
* :class:`HorizonExceeded` - more scheduling steps than the horizon (livelock, e.g. a
  polling loop in the traced files);
* :class:`ReplayDivergence` - re-executing a recorded prefix of choices did not
  reproduce the recorded events (the code under test or the harness is not
  deterministic under the baton).
"""

from __future__ import annotations

import os
import sys
import threading
from dataclasses import dataclass, field

from vp.core import HarnessError


class SchedulerError(HarnessError):
    pass


class Deadlock(SchedulerError):
    pass


class HorizonExceeded(SchedulerError):
    pass


class ReplayDivergence(SchedulerError):
    pass


def traced_files() -> frozenset[str]:
    """Source files of the cache code, derived from the *imported* modules.

    (so that a scratch copy selected with VERIF_REPO is traced, not /repo)
    """
    import ampform.sympy as asp  # noqa: PLC0415
    import ampform.sympy._cache as cache_mod  # noqa: PLC0415

    files = {
        asp.perform_cached_doit.__code__.co_filename,
        cache_mod.get_readable_hash.__code__.co_filename,
    }
    for mod in (asp, cache_mod):
        files.add(mod.__file__)
        files.add(os.path.realpath(mod.__file__))
    return frozenset(files)


@dataclass
class Execution:
    results: list  # per thread ("ok", value) | ("exc", exception)
    events: list  # per step: (tid, "line", file, function, lineno) | (tid, "done")
    points: list  # per step: (number of enabled threads, running thread is enabled)
    choices: list  # per step: index into the canonical order that was taken
    threads: list  # per step: id of the thread that got the baton
    preemptive: list  # per step: True if a still-enabled running thread was descheduled
    observations: list = field(default_factory=list)  # observe() before every step

    @property
    def preemptions(self) -> int:
        return sum(self.preemptive)


class _Gate:
    """A binary semaphore that starts closed (a lock another thread may release)."""

    __slots__ = ("_lock",)

    def __init__(self) -> None:
        self._lock = threading.Lock()
        self._lock.acquire()

    def acquire(self, timeout: float = -1) -> bool:
        return self._lock.acquire(True, timeout)

    def release(self) -> None:
        try:
            self._lock.release()
        except RuntimeError:  # already open (only while abandoning an execution)
            pass


class Baton:
    """One execution of ``bodies`` (callables) under a given list of choices.

    Choices beyond the end of the list default to 0 = "keep the running thread; if it has
    finished, the enabled thread with the lowest id".

    The scheduling decision at a point is taken *by the thread that holds the baton*
    (inside its trace hook, where tracing is off): if the decision is "continue", it
    simply goes on; only a real switch costs a hand-over (open the other thread's gate,
    park on one's own).  All other threads are parked on their gates meanwhile, so the
    decision, the optional ``observe(step, next_thread)`` callback and every source line
    of the traced files run strictly one at a time.
    """

    def __init__(self, bodies, choices, files, *, horizon=20000, timeout=120.0, observe=None):
        self.bodies = list(bodies)
        self.given = list(choices)
        self.files = frozenset(files)
        self.horizon = horizon
        self.timeout = timeout
        self.observe = observe
        n = len(self.bodies)
        self.sem = [_Gate() for _ in range(n)]  # one gate per thread, closed
        self.main = _Gate()  # opened when every thread is done (or on failure)
        self.done = [False] * n
        self.results: list = [None] * n
        self.abort = False
        self.error: BaseException | None = None
        self.ex = Execution([], [], [], [], [], [])
        self.cur = None  # nobody holds the baton yet: the first choice is never a preemption
        self.step = 0

    # -- the scheduler (runs in whichever thread holds the baton) -----------------
    def _fail(self, exc: BaseException) -> None:
        """Abandon the execution: every thread runs to its end without the baton."""
        if self.error is None:
            self.error = exc
        self.abort = True
        for gate in self.sem:
            gate.release()
        self.main.release()

    def _dispatch(self, me) -> bool:
        """Decide who runs the next step; True if ``me`` keeps the baton."""
        n = len(self.bodies)
        enabled = [i for i in range(n) if not self.done[i]]
        if not enabled:
            self.main.release()
            return False
        step = self.step
        if step >= self.horizon:
            last = self.ex.events[-1] if self.ex.events else None
            self._fail(HorizonExceeded(f"step horizon {self.horizon} exceeded (last event {last})"))
            return False
        cur = self.cur
        running = cur in enabled
        order = ([cur] if running else []) + [i for i in enabled if i != cur]
        c = self.given[step] if step < len(self.given) else 0
        if c >= len(order):
            msg = f"choice {c} at step {step} but only {len(order)} thread(s) enabled"
            self._fail(ReplayDivergence(msg))
            return False
        nxt = order[c]
        ex = self.ex
        if self.observe is not None:
            ex.observations.append(self.observe(step, nxt))
        ex.points.append((len(order), running))
        ex.choices.append(c)
        ex.threads.append(nxt)
        ex.preemptive.append(bool(running and nxt != cur))
        self.cur = nxt
        self.step = step + 1
        if nxt == me:
            return True
        self.sem[nxt].release()
        return False

    # -- thread side ----------------------------------------------------------
    def _make_tracer(self, tid):
        files = self.files

        def local(frame, event, arg):  # noqa: ARG001
            if event == "line" and not self.abort:
                try:
                    code = frame.f_code
                    # the outcome of the step that gave this thread the baton:
                    # it reached (and has not yet executed) this line
                    self.ex.events.append((
                        tid, "line", os.path.basename(code.co_filename), code.co_name,
                        frame.f_lineno,
                    ))
                    if not self._dispatch(tid):
                        self.sem[tid].acquire()  # parked *before* this line executes
                except BaseException as exc:  # noqa: BLE001  (must not leak into the library frame)
                    self._fail(SchedulerError(f"trace hook failed: {exc!r}"))
            return local

        def glob(frame, event, arg):  # noqa: ARG001
            if event == "call" and frame.f_code.co_filename in files:
                return local
            return None

        return glob

    def _thread(self, tid):
        self.sem[tid].acquire()
        try:
            if not self.abort:
                sys.settrace(self._make_tracer(tid))
                try:
                    self.results[tid] = ("ok", self.bodies[tid]())
                except BaseException as exc:  # noqa: BLE001  (recorded, judged by the caller)
                    self.results[tid] = ("exc", exc)
                finally:
                    sys.settrace(None)
        finally:
            self.done[tid] = True
            if self.abort:
                if all(self.done):
                    self.main.release()
            else:
                try:
                    self.ex.events.append((tid, "done"))
                    self._dispatch(tid)  # pass the baton on / wake the scheduler
                except BaseException as exc:  # noqa: BLE001
                    self._fail(SchedulerError(f"dispatch failed: {exc!r}"))

    # -- caller side ------------------------------------------------------------
    def run(self) -> Execution:
        n = len(self.bodies)
        threads = [
            threading.Thread(target=self._thread, args=(i,), daemon=True, name=f"baton-{i}")
            for i in range(n)
        ]
        for t in threads:
            t.start()
        try:
            self._dispatch(None)
        except BaseException as exc:  # noqa: BLE001
            self._fail(SchedulerError(f"dispatch failed: {exc!r}"))
        if not self.main.acquire(timeout=self.timeout):
            # the blocked thread cannot be joined (it is a daemon); the others run out
            self.abort = True
            for gate in self.sem:
                gate.release()
            last = self.ex.events[-1] if self.ex.events else None
            msg = (
                f"no enabled thread: thread {self.cur} holds the baton but reached neither a"
                f" scheduling point nor its end within {self.timeout}s (step {self.step},"
                f" last event {last})"
            )
            raise Deadlock(msg)
        if self.error is not None:
            for t in threads:  # abandoned: they run to their end without the baton
                t.join(min(self.timeout, 10.0))
            raise self.error
        for t in threads:
            t.join(self.timeout)
            if t.is_alive():
                msg = f"thread {t.name} did not terminate"
                raise Deadlock(msg)
        ex = self.ex
        ex.results = list(self.results)
        return ex


def explore(run_one, bound: int, slice_index: int = 0, slices: int = 1):
    """Stateless exploration of ALL schedules with at most ``bound`` preemptions.

    The schedule tree can be cut into ``slices`` disjoint parts for parallel workers: part
    i owns the sub-trees below the root execution's alternatives number i, i+slices, ...
    (every part re-executes the root; only part 0 yields it).  The union over all parts
    is exactly the unsliced exploration.

    ``run_one(choices) -> Execution`` executes the system once under the given prefix of
    choices (defaults afterwards).  Every alternative at every scheduling point after the
    prefix is pushed if its preemption count stays within the bound; a switch away from a
    thread that has finished (or the very first choice) is free.  Yields
    ``(index, Execution)`` in a deterministic (depth-first) order.  While re-executing a
    prefix the recorded events and points must be reproduced, else ReplayDivergence.
    """
    stack: list = [((), None)]
    index = 0
    while stack:
        prefix, expect = stack.pop()
        ex = run_one(list(prefix))
        if expect is not None:
            ev, pts = expect
            if ex.events[: len(ev)] != ev or ex.points[: len(pts)] != pts:
                msg = (
                    f"replaying the schedule prefix {list(prefix)} diverged:"
                    f" expected events {ev[-3:]}, got {ex.events[max(0, len(ev) - 3): len(ev)]}"
                )
                raise ReplayDivergence(msg)
        if ex.choices[: len(prefix)] != list(prefix):
            msg = f"prefix {list(prefix)} not followed: {ex.choices[: len(prefix)]}"
            raise ReplayDivergence(msg)
        is_root = expect is None
        if not is_root or slice_index == 0:
            yield index, ex
            index += 1
        pre = 0
        children = []
        for i, (n_enabled, running) in enumerate(ex.points):
            if i >= len(prefix):
                cost = pre + (1 if running else 0)
                if cost <= bound:
                    for alt in range(1, n_enabled):
                        children.append((
                            tuple(ex.choices[:i]) + (alt,),
                            (ex.events[:i], ex.points[: i + 1]),
                        ))
            if ex.preemptive[i]:
                pre += 1
        if is_root and slices > 1:
            children = [c for n, c in enumerate(children) if n % slices == slice_index]
        # canonical order: earliest deviation explored first
        stack.extend(reversed(children))


def crash_points(body, files, snapshot, **kwargs):
    """Run ONE caller under the baton and photograph the world at every scheduling point.

    ``snapshot()`` is called by the scheduler while the caller is parked, i.e. it sees the
    directory exactly as the operating system does at that instant: bytes still sitting
    in a Python-level buffered writer are not in the file, as after ``kill -9``.  The
    caller is then allowed to finish in its (throw-away) directory - no thread is
    leaked, and because the caller is deterministic the snapshot at point k is the state
    a kill at point k leaves behind.

    Returns ``(execution, snapshots)`` with ``snapshots[k]`` taken before step k (k = 0 is
    "before the first line"); the state after completion is not a crash point.
    """
    baton = Baton([body], [], files, observe=lambda step, tid: snapshot(), **kwargs)  # noqa: ARG005
    ex = baton.run()
    return ex, ex.observations
