"""Small shared helpers for the checks."""

from __future__ import annotations

import math


def irr(seed: int, k: int = 0) -> float:
    """Deterministic 'irrational' offset in (0, 1) derived from VERIF_SEED.

    Used to shift numeric lattices: different seeds look at different numeric points of
    the same exhaustively enumerated discrete space.
    """
    x = (seed + 1) * math.sqrt(2.0) * 0.6180339887498949 + (k + 1) * math.sqrt(3.0) * 0.7548776662466927
    return x - math.floor(x)


def rel_close(a, b, rtol: float = 1e-9, atol: float = 0.0) -> bool:
    import numpy as np  # noqa: PLC0415

    a = np.asarray(a)
    b = np.asarray(b)
    if np.any(np.isnan(a)) or np.any(np.isnan(b)):
        return False
    scale = np.maximum(np.abs(a), np.abs(b))
    return bool(np.all(np.abs(a - b) <= atol + rtol * np.maximum(scale, 1.0)))
